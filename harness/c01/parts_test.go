package c01

import (
	"encoding/binary"
	"fmt"
	"math"
	"testing"

	geom "github.com/twpayne/go-geom"
	"github.com/twpayne/go-geom/encoding/ewkb"
	"github.com/twpayne/go-geom/encoding/geojson"
	"github.com/twpayne/go-geom/encoding/wkb"
	"github.com/twpayne/go-geom/encoding/wkbcommon"
	"github.com/twpayne/go-geom/encoding/wkt"

	"verifharness/internal/ev"
	"verifharness/internal/model"
	"verifharness/internal/run"
)

// PartsCase is a geometry of many parts obtained from a decoder: Parts rings of a
// polygon, members of a multi-point or multi-line string, or rings in all of a
// multi-polygon whose polygons have Pattern's numbers of rings in turn. Part i has
// one coordinate (lines and rings: the same one twice or four times), or none when
// i%5 == 2 (except rings read from WKT). The case stores the recipe, not the coordinates.
type PartsCase struct {
	Kind    string `json:"kind"` // Polygon | MultiPoint | MultiLineString | MultiPolygon
	Layout  int    `json:"layout"`
	Parts   int    `json:"parts"`
	Pattern int    `json:"pattern,omitempty"`
	Codec   string `json:"codec"` // wkb | wkb-xdr | ewkb | wkt | geojson
}

var partPatterns = [][]int{{1, 2, 3}, {2}, {1, 1, 4}, {3, 0, 1}}

func buildPartsGeom(c PartsCase) (geom.T, error) {
	l := geom.Layout(c.Layout)
	s := l.Stride()
	per := map[string]int{"Polygon": 4, "MultiPolygon": 4, "MultiLineString": 2, "MultiPoint": 1}[c.Kind]
	var flat []float64
	var ends []int
	for i := 0; i < c.Parts; i++ {
		// (WKT has no spelling for a ring without points)
		if i%5 != 2 || (c.Codec == "wkt" && per == 4) {
			for k := 0; k < per; k++ {
				for d := 0; d < s; d++ {
					flat = append(flat, float64(i%9973)+0.25*float64(d))
				}
			}
		}
		ends = append(ends, len(flat))
	}
	switch c.Kind {
	case "Polygon":
		return geom.NewPolygonFlat(l, flat, ends), nil
	case "MultiPoint":
		return geom.NewMultiPointFlat(l, flat, geom.NewMultiPointFlatOptionWithEnds(ends)), nil
	case "MultiLineString":
		return geom.NewMultiLineStringFlat(l, flat, ends), nil
	case "MultiPolygon":
		pat := partPatterns[c.Pattern%len(partPatterns)]
		var endss [][]int
		for i, k := 0, 0; i < len(ends); k++ {
			n := min(pat[k%len(pat)], len(ends)-i)
			endss = append(endss, append([]int{}, ends[i:i+n]...))
			i += n
		}
		return geom.NewMultiPolygonFlat(l, flat, endss), nil
	}
	return nil, fmt.Errorf("bad kind %q", c.Kind)
}

func propParts(c PartsCase) error {
	src, err := buildPartsGeom(c)
	if err != nil {
		return err
	}
	if err := model.WellFormed(src); err != nil {
		return fmt.Errorf("%s of %d parts from its flat constructor: %v", c.Kind, c.Parts, err)
	}
	var dec geom.T
	switch c.Codec {
	case "wkb", "wkb-xdr":
		var bo binary.ByteOrder = wkb.NDR
		if c.Codec == "wkb-xdr" {
			bo = wkb.XDR
		}
		opt := wkbcommon.WKBOptionEmptyPointHandling(wkbcommon.EmptyPointHandlingNaN)
		data, err := wkb.Marshal(src, bo, opt)
		if err != nil {
			return fmt.Errorf("wkb.Marshal: %v", err)
		}
		if dec, err = wkb.Unmarshal(data, opt); err != nil {
			return fmt.Errorf("wkb.Unmarshal of a %s of %d parts: %v", c.Kind, c.Parts, err)
		}
	case "ewkb":
		data, err := ewkb.Marshal(src, ewkb.NDR)
		if err != nil {
			return fmt.Errorf("ewkb.Marshal: %v", err)
		}
		if dec, err = ewkb.Unmarshal(data); err != nil {
			return fmt.Errorf("ewkb.Unmarshal of a %s of %d parts: %v", c.Kind, c.Parts, err)
		}
	case "wkt":
		text, err := wkt.Marshal(src)
		if err != nil {
			return fmt.Errorf("wkt.Marshal: %v", err)
		}
		if dec, err = wkt.Unmarshal(text); err != nil {
			return fmt.Errorf("wkt.Unmarshal of a %s of %d parts: %v", c.Kind, c.Parts, err)
		}
	case "geojson":
		data, err := geojson.Marshal(src)
		if err != nil {
			return fmt.Errorf("geojson.Marshal: %v", err)
		}
		if err := geojson.Unmarshal(data, &dec); err != nil {
			return fmt.Errorf("geojson.Unmarshal of a %s of %d parts: %v", c.Kind, c.Parts, err)
		}
	default:
		return fmt.Errorf("bad codec %q", c.Codec)
	}
	if err := model.WellFormed(dec); err != nil {
		return fmt.Errorf("%s of %d parts decoded from %s is not well formed: %v", c.Kind, c.Parts, c.Codec, err)
	}
	if model.KindOf(dec) != c.Kind {
		return fmt.Errorf("%s of %d parts decoded from %s is a %s", c.Kind, c.Parts, c.Codec, model.KindOf(dec))
	}
	// GeoJSON cannot say which layout an empty first part had, and has no empty
	// multi-point members; WKT has both: offsets compared where the format carries them
	if c.Codec != "geojson" || c.Kind != "MultiPoint" {
		if a, b := fmt.Sprint(src.Ends(), src.Endss()), fmt.Sprint(dec.Ends(), dec.Endss()); a != b {
			return fmt.Errorf("%s of %d parts decoded from %s: offsets differ at byte %d of their listing (lengths %d, %d)", c.Kind, c.Parts, c.Codec, firstDiff(a, b), len(a), len(b))
		}
		fa, fb := src.FlatCoords(), dec.FlatCoords()
		if len(fa) != len(fb) {
			return fmt.Errorf("%s of %d parts decoded from %s has %d ordinates, the source %d", c.Kind, c.Parts, c.Codec, len(fb), len(fa))
		}
		for i := range fa {
			if math.Float64bits(fa[i]) != math.Float64bits(fb[i]) {
				return fmt.Errorf("%s of %d parts decoded from %s: ordinate %d is %v, the source's %v", c.Kind, c.Parts, c.Codec, i, fb[i], fa[i])
			}
		}
	}
	return nil
}

func firstDiff(a, b string) int {
	n := min(len(a), len(b))
	for i := 0; i < n; i++ {
		if a[i] != b[i] {
			return i + 1
		}
	}
	return n + 1
}

var partsSpec = run.Spec[PartsCase]{ID: "C01", Name: "parts", Prop: propParts, Classify: func(c PartsCase) ([]string, bool) {
	return []string{"parts:" + c.Kind, "parts-codec:" + c.Codec, fmt.Sprintf("parts>=2^%d", int(math.Log2(float64(c.Parts))))}, true
}}

// TestExhaustiveParts decodes geometries of many parts: every number of parts (rings
// in all) within two of each power of two from 256 to 65 536 (thorough: 262 144), the
// kinds, ring patterns, layouts and decoders taking turns so that every count meets
// every kind and every decoder meets every power of two.
func TestExhaustiveParts(t *testing.T) {
	shard, shards := run.Shard()
	top := 16
	if run.Thorough() {
		top = 18
	}
	kinds := []string{"Polygon", "MultiPoint", "MultiLineString", "MultiPolygon", "MultiPolygon", "MultiPolygon", "MultiPolygon"}
	codecs := []string{"wkb", "ewkb", "wkt", "geojson", "wkb-xdr"}
	layouts := []geom.Layout{geom.XY, geom.XYZ, geom.XYZM}
	k := 0
	for p := 8; p <= top; p++ {
		for d := -2; d <= 2; d++ {
			n := 1<<p + d
			for ki, kind := range kinds {
				k++
				if k%shards != shard {
					continue
				}
				// the decoder turns with the count and the kind; at 2^16 and beyond every
				// binary decoder sees every kind
				cs := []string{codecs[(p+d+2+ki)%len(codecs)]}
				if p >= 16 {
					cs = []string{"wkb", "ewkb", "wkb-xdr", codecs[2+(d+2+ki)%2]}
				}
				for _, codec := range cs {
					c := PartsCase{Kind: kind, Layout: int(layouts[(n+ki)%len(layouts)]), Parts: n, Pattern: ki, Codec: codec}
					ev.Default.CaseHash(uint64(n)|uint64(ki)<<32|uint64(len(codec)+int(codec[len(codec)-1]))<<40, "parts-sweep", true, func() any { return c })
					if !run.One(t, partsSpec, c) {
						return
					}
				}
			}
		}
	}
}

func TestRegressParts(t *testing.T) { run.Regress(t, partsSpec) }
