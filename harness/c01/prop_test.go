// C01: the flat-coordinate representation stays well formed and lossless.
package c01

import (
	"encoding/binary"
	"errors"
	"fmt"
	"math"
	"testing"

	geom "github.com/twpayne/go-geom"
	"github.com/twpayne/go-geom/encoding/ewkb"
	"github.com/twpayne/go-geom/encoding/geojson"
	"github.com/twpayne/go-geom/encoding/wkb"
	"github.com/twpayne/go-geom/encoding/wkbcommon"
	"github.com/twpayne/go-geom/encoding/wkt"
	"pgregory.net/rapid"

	"verifharness/internal/gen"
	"verifharness/internal/model"
	"verifharness/internal/refwkb"
	"verifharness/internal/refwkt"
	"verifharness/internal/run"
)

func TestMain(m *testing.M) { run.Main(m) }

// Case is one geometry, the way it is obtained, and an optional mismatch injection.
type Case struct {
	G      model.G `json:"g"`
	Route  string  `json:"route"`
	Inject int     `json:"inject"` // -1 = none, otherwise index of the coordinate slot to spoil (or append position)
	BadLen int     `json:"badLen"`
	// a second (and third) wrong-length coordinate right after the first one, so that
	// the wrong lengths may compensate each other within one line or ring; 0 = none
	BadLen2 int `json:"badLen2,omitempty"`
	BadLen3 int `json:"badLen3,omitempty"`
}

var allLayouts = []geom.Layout{geom.XY, geom.XYZ, geom.XYM, geom.XYZM, geom.Layout(5), geom.Layout(6), geom.Layout(7), geom.Layout(9), geom.NoLayout}

var routes = []string{"setcoords", "mustset", "flat", "flat-noends", "push", "clone", "clonepush", "clonepush", "selfalias", "selfalias", "reserve", "reset", "reset-twin", "wkb", "ewkb", "wkt", "geojson"}

func genCase(t *rapid.T) Case {
	floats := rapid.SampledFrom([]int{gen.AllBits, gen.AllBits, gen.SmallInt, gen.Finite}).Draw(t, "floats")
	valid := rapid.IntRange(0, 3).Draw(t, "valid") == 0
	o := gen.TreeOpts{Layouts: allLayouts, Kinds: gen.SevenKinds, Floats: floats, MaxParts: 4, MaxPts: 5, PEmpty: 25, Valid: valid, LongPct: 2}
	g := gen.Tree(t, o)
	if g.Layout == 0 {
		// NoLayout: only geometries without any component can be set
		g.C0, g.C1, g.C2, g.C3 = nil, nil, nil, nil
	}
	c := Case{G: *g, Route: rapid.SampledFrom(routes).Draw(t, "route"), Inject: -1}
	if rapid.IntRange(0, 3).Draw(t, "doinject") == 0 {
		stride := g.Stride()
		var lens []int
		for _, n := range []int{0, stride - 1, stride + 1, 1, 2 * stride, 2, 3} {
			if n >= 0 && n != stride {
				lens = append(lens, n)
			}
		}
		c.BadLen = rapid.SampledFrom(lens).Draw(t, "badlen")
		c.Inject = rapid.IntRange(0, 40).Draw(t, "slot")
		if stride > 0 {
			switch rapid.IntRange(0, 3).Draw(t, "more") {
			case 1: // compensating pair: the two lengths sum to two strides
				if d := 2*stride - c.BadLen; d > 0 && d != stride {
					c.BadLen2 = d
				}
			case 2: // compensating triple
				if d := 3*stride - c.BadLen - 1; d > 0 && d != stride {
					c.BadLen2, c.BadLen3 = 1, d
					if stride == 1 {
						c.BadLen3 = 0
					}
				}
			case 3:
				c.BadLen2 = rapid.SampledFrom(lens).Draw(t, "badlen2")
			}
		}
	}
	return c
}

func bad(n int) []model.F {
	c := make([]model.F, n)
	for i := range c {
		c[i] = model.Of(float64(100 + i))
	}
	return c
}

// spoil returns a copy of g with one coordinate replaced by (or, if g has none,
// extended with) a coordinate of the wrong length.
func spoil(g *model.G, slot, n int, more ...int) *model.G {
	s := g.Clone()
	slots := s.CoordSlots(false)
	if len(slots) > 0 {
		k := slot % len(slots)
		*slots[k] = bad(n)
		// a coordinate of length 0 comes in two forms, an empty slice and nil; outside a
		// MultiPoint (where nil is the EMPTY member) both are wrong-length coordinates
		// (and outside a Point, whose nil coordinate is the model's EMPTY point)
		if n == 0 && s.Kind != model.MultiPoint && s.Kind != model.Point && slot%2 == 1 {
			*slots[k] = nil
		}
		// further wrong-length coordinates in the slots that follow (traversal order)
		for i, m := range more {
			if m > 0 && k+1+i < len(slots) {
				*slots[k+1+i] = bad(m)
			}
		}
		return s
	}
	switch s.Kind {
	case model.Point:
		s.C0 = bad(n)
	case model.LineString, model.LinearRing, model.MultiPoint:
		s.C1 = append(s.C1, bad(n))
	case model.Polygon, model.MultiLineString:
		s.C2 = append(s.C2, [][]model.F{bad(n)})
	case model.MultiPolygon:
		s.C3 = append(s.C3, [][][]model.F{{bad(n)}})
	}
	return s
}

// scribble overwrites nested coordinates after they were handed to SetCoords: they are
// the caller's, and a geometry that kept a reference to one no longer reads back what
// it was given.
func scribble(x any) {
	switch v := x.(type) {
	case geom.Coord:
		for i := range v {
			v[i] = -98765.4321
		}
	case []geom.Coord:
		for _, c := range v {
			scribble(c)
		}
	case [][]geom.Coord:
		for _, c := range v {
			scribble(c)
		}
	case [][][]geom.Coord:
		for _, c := range v {
			scribble(c)
		}
	}
}

func setCoords(t geom.T, g *model.G) (geom.T, error) {
	switch tt := t.(type) {
	case *geom.Point:
		if g.C0 == nil {
			// SetCoords cannot express the empty point: it exists only through NewPointEmpty
			return geom.NewPointEmpty(tt.Layout()), nil
		}
		in := geom.Coord(model.Floats(g.C0))
		r, err := tt.SetCoords(in)
		scribble(in)
		if r == nil {
			return nil, err
		}
		return r, err
	case *geom.LineString:
		in := model.Coords1(g.C1)
		r, err := tt.SetCoords(in)
		scribble(in)
		if r == nil {
			return nil, err
		}
		return r, err
	case *geom.LinearRing:
		in := model.Coords1(g.C1)
		r, err := tt.SetCoords(in)
		scribble(in)
		if r == nil {
			return nil, err
		}
		return r, err
	case *geom.MultiPoint:
		in := model.Coords1(g.C1)
		r, err := tt.SetCoords(in)
		scribble(in)
		if r == nil {
			return nil, err
		}
		return r, err
	case *geom.Polygon:
		in := model.Coords2(g.C2)
		r, err := tt.SetCoords(in)
		scribble(in)
		if r == nil {
			return nil, err
		}
		return r, err
	case *geom.MultiLineString:
		in := model.Coords2(g.C2)
		r, err := tt.SetCoords(in)
		scribble(in)
		if r == nil {
			return nil, err
		}
		return r, err
	case *geom.MultiPolygon:
		in := model.Coords3(g.C3)
		r, err := tt.SetCoords(in)
		scribble(in)
		if r == nil {
			return nil, err
		}
		return r, err
	}
	return nil, fmt.Errorf("unknown type %T", t)
}

func newEmpty(kind string, l geom.Layout) geom.T {
	switch kind {
	case model.Point:
		return geom.NewPoint(l)
	case model.LineString:
		return geom.NewLineString(l)
	case model.LinearRing:
		return geom.NewLinearRing(l)
	case model.Polygon:
		return geom.NewPolygon(l)
	case model.MultiPoint:
		return geom.NewMultiPoint(l)
	case model.MultiLineString:
		return geom.NewMultiLineString(l)
	case model.MultiPolygon:
		return geom.NewMultiPolygon(l)
	}
	return nil
}

// coordsOf rebuilds the model from Coords() (not from the flat arrays).
func coordsOf(t geom.T) (*model.G, error) {
	g := &model.G{Kind: model.KindOf(t), Layout: int(t.Layout())}
	bits1 := func(cs []geom.Coord) [][]model.F {
		out := make([][]model.F, len(cs))
		for i, c := range cs {
			if c != nil {
				out[i] = model.Bits(c)
			}
		}
		return out
	}
	bits2 := func(css [][]geom.Coord) [][][]model.F {
		out := make([][][]model.F, len(css))
		for i, cs := range css {
			out[i] = bits1(cs)
		}
		return out
	}
	switch tt := t.(type) {
	case *geom.Point:
		if !tt.Empty() {
			g.C0 = model.Bits(tt.Coords())
		}
	case *geom.LineString:
		g.C1 = bits1(tt.Coords())
	case *geom.LinearRing:
		g.C1 = bits1(tt.Coords())
	case *geom.MultiPoint:
		g.C1 = bits1(tt.Coords())
	case *geom.Polygon:
		g.C2 = bits2(tt.Coords())
	case *geom.MultiLineString:
		g.C2 = bits2(tt.Coords())
	case *geom.MultiPolygon:
		css := tt.Coords()
		g.C3 = make([][][][]model.F, len(css))
		for i := range css {
			g.C3[i] = bits2(css[i])
		}
	default:
		return nil, fmt.Errorf("unknown type %T", t)
	}
	return g, nil
}

func sameFlat(t geom.T, g *model.G) error {
	var flat []float64
	var ends []int
	var endss [][]int
	switch g.Kind {
	case model.Point:
		flat = model.Floats(g.C0)
	case model.LineString, model.LinearRing:
		flat = model.Flat1(g.C1)
	case model.MultiPoint:
		for _, c := range g.C1 {
			flat = append(flat, model.Floats(c)...)
			ends = append(ends, len(flat))
		}
	case model.Polygon, model.MultiLineString:
		flat, ends = model.Flat2(g.C2)
	case model.MultiPolygon:
		flat, endss = model.Flat3(g.C3)
	}
	got := t.FlatCoords()
	if len(got) != len(flat) {
		return fmt.Errorf("FlatCoords has %d ordinates, model %d", len(got), len(flat))
	}
	for i := range flat {
		if math.Float64bits(got[i]) != math.Float64bits(flat[i]) {
			return fmt.Errorf("FlatCoords[%d] = %v (%#x), model %v (%#x)", i, got[i], math.Float64bits(got[i]), flat[i], math.Float64bits(flat[i]))
		}
	}
	ge := t.Ends()
	if len(ge) != len(ends) {
		return fmt.Errorf("Ends() = %v, model %v", ge, ends)
	}
	for i := range ends {
		if ge[i] != ends[i] {
			return fmt.Errorf("Ends() = %v, model %v", ge, ends)
		}
	}
	gss := t.Endss()
	if len(gss) != len(endss) {
		return fmt.Errorf("Endss() = %v, model %v", gss, endss)
	}
	for i := range endss {
		if len(gss[i]) != len(endss[i]) {
			return fmt.Errorf("Endss() = %v, model %v", gss, endss)
		}
		for j := range endss[i] {
			if gss[i][j] != endss[i][j] {
				return fmt.Errorf("Endss() = %v, model %v", gss, endss)
			}
		}
	}
	return nil
}

func sameCoord(what string, got geom.Coord, want []model.F) error {
	if len(got) != len(want) {
		return fmt.Errorf("%s has %d ordinates, want %d", what, len(got), len(want))
	}
	for i := range want {
		if math.Float64bits(got[i]) != uint64(want[i]) {
			return fmt.Errorf("%s[%d] = %v (%#x), set %v (%#x)", what, i, got[i], math.Float64bits(got[i]), want[i].V(), uint64(want[i]))
		}
	}
	return nil
}

// accessors: the single-coordinate views of the flat representation (NumCoords,
// Coord(i), Point.X/Y/Z/M, SubLineString) read back what was set.
func accessors(t geom.T, g *model.G) error {
	l := g.Lay()
	switch v := t.(type) {
	case *geom.Point:
		if g.C0 == nil {
			return nil // NumCoords() of a Point is documented as the constant 1
		}
		if v.NumCoords() != 1 {
			return fmt.Errorf("Point: NumCoords() = %d", v.NumCoords())
		}
		want := func(idx int) uint64 {
			if idx < 0 {
				return 0 // documented: 0 when the layout has no such dimension
			}
			return uint64(g.C0[idx])
		}
		for _, a := range []struct {
			name string
			got  float64
			idx  int
		}{{"X", v.X(), 0}, {"Y", v.Y(), 1}, {"Z", v.Z(), l.ZIndex()}, {"M", v.M(), l.MIndex()}} {
			if math.Float64bits(a.got) != want(a.idx) {
				return fmt.Errorf("Point.%s() = %v, ordinates set %v (layout %v)", a.name, a.got, model.Floats(g.C0), l)
			}
		}
		c := geom.Coord(v.FlatCoords())
		if math.Float64bits(c.X()) != uint64(g.C0[0]) || math.Float64bits(c.Y()) != uint64(g.C0[1]) {
			return fmt.Errorf("Coord.X/Y = %v, %v, set %v", c.X(), c.Y(), model.Floats(g.C0))
		}
	case *geom.LineString:
		n := len(g.C1)
		if v.NumCoords() != n {
			return fmt.Errorf("LineString.NumCoords() = %d, %d coordinates set", v.NumCoords(), n)
		}
		for _, i := range []int{0, n / 2, n - 1} {
			if i >= 0 && i < n {
				if err := sameCoord(fmt.Sprintf("LineString.Coord(%d)", i), v.Coord(i), g.C1[i]); err != nil {
					return err
				}
			}
		}
		// every sub-range for short lines, a few for long ones
		step := 1
		if n > 8 {
			step = n/4 + 1
		}
		for a := 0; a <= n; a += step {
			for b := a; b <= n; b += step {
				sub := v.SubLineString(a, b)
				if err := model.WellFormed(sub); err != nil {
					return fmt.Errorf("SubLineString(%d,%d) not well formed: %v", a, b, err)
				}
				if sub.Layout() != l || sub.NumCoords() != b-a {
					return fmt.Errorf("SubLineString(%d,%d): layout %v with %d coordinates", a, b, sub.Layout(), sub.NumCoords())
				}
				for i := a; i < b; i++ {
					if err := sameCoord(fmt.Sprintf("SubLineString(%d,%d).Coord(%d)", a, b, i-a), sub.Coord(i-a), g.C1[i]); err != nil {
						return err
					}
				}
			}
		}
	case *geom.LinearRing:
		if v.NumCoords() != len(g.C1) {
			return fmt.Errorf("LinearRing.NumCoords() = %d, %d coordinates set", v.NumCoords(), len(g.C1))
		}
		for i := range g.C1 {
			if err := sameCoord(fmt.Sprintf("LinearRing.Coord(%d)", i), v.Coord(i), g.C1[i]); err != nil {
				return err
			}
		}
	case *geom.MultiPoint:
		if v.NumCoords() != len(g.C1) || v.NumPoints() != len(g.C1) {
			return fmt.Errorf("MultiPoint.NumCoords()/NumPoints() = %d/%d, %d members set", v.NumCoords(), v.NumPoints(), len(g.C1))
		}
		for i, c := range g.C1 {
			got := v.Coord(i)
			if c == nil {
				if got != nil {
					return fmt.Errorf("MultiPoint.Coord(%d) = %v for an empty member", i, got)
				}
				continue
			}
			if err := sameCoord(fmt.Sprintf("MultiPoint.Coord(%d)", i), got, c); err != nil {
				return err
			}
		}
	case *geom.Polygon:
		n := 0
		for _, r := range g.C2 {
			n += len(r)
		}
		if v.NumCoords() != n {
			return fmt.Errorf("Polygon.NumCoords() = %d, %d coordinates set", v.NumCoords(), n)
		}
	case *geom.MultiLineString:
		n := 0
		for _, r := range g.C2 {
			n += len(r)
		}
		if v.NumCoords() != n {
			return fmt.Errorf("MultiLineString.NumCoords() = %d, %d coordinates set", v.NumCoords(), n)
		}
	case *geom.MultiPolygon:
		n := 0
		for _, p := range g.C3 {
			for _, r := range p {
				n += len(r)
			}
		}
		if v.NumCoords() != n {
			return fmt.Errorf("MultiPolygon.NumCoords() = %d, %d coordinates set", v.NumCoords(), n)
		}
	}
	return nil
}

// lossless checks (1) and (2) on a geometry obtained for model g.
func lossless(what string, t geom.T, g *model.G, flatToo bool) error {
	if err := model.WellFormed(t); err != nil {
		return fmt.Errorf("%s: not well formed: %v", what, err)
	}
	if t.Layout() != g.Lay() {
		return fmt.Errorf("%s: layout %v, want %v", what, t.Layout(), g.Lay())
	}
	if g.Layout == 0 {
		return nil // NoLayout: nothing to read back
	}
	if flatToo {
		if err := sameFlat(t, g); err != nil {
			return fmt.Errorf("%s: %v", what, err)
		}
	}
	if err := accessors(t, g); err != nil {
		return fmt.Errorf("%s: %v", what, err)
	}
	if g.Kind == model.Point && g.C0 == nil {
		return nil
	}
	cm, err := coordsOf(t)
	if err != nil {
		return err
	}
	if d := model.Diff(g, cm, false); d != "" {
		return fmt.Errorf("%s: Coords() differ from what was set: %s", what, d)
	}
	return nil
}

func isCanonNaN(c []model.F) bool {
	if len(c) == 0 {
		return false
	}
	for _, v := range c {
		if v != refwkb.CanonNaN {
			return false
		}
	}
	return true
}

func hasNaNPoint(g *model.G) bool {
	if g.Kind == model.Point {
		return isCanonNaN(g.C0)
	}
	if g.Kind == model.MultiPoint {
		for _, c := range g.C1 {
			if isCanonNaN(c) {
				return true
			}
		}
	}
	return false
}

func finite(g *model.G) bool {
	ok := true
	g.EachOrdinate(func(_ int, v model.F) {
		if f := v.V(); math.IsNaN(f) || math.IsInf(f, 0) {
			ok = false
		}
	})
	return ok
}

func wktExpressible(g *model.G) bool {
	if g.Layout < 1 || g.Layout > 4 || g.Kind == model.LinearRing || !finite(g) {
		return false
	}
	ring := func(r [][]model.F) bool {
		if len(r) < 4 {
			return false
		}
		n := 2
		if g.Lay().ZIndex() >= 0 {
			n = 3
		}
		for d := 0; d < n; d++ {
			if r[0][d].V() != r[len(r)-1][d].V() {
				return false
			}
		}
		return true
	}
	switch g.Kind {
	case model.LineString:
		return len(g.C1) != 1
	case model.MultiLineString:
		for _, l := range g.C2 {
			if len(l) == 1 {
				return false
			}
		}
	case model.Polygon:
		for _, r := range g.C2 {
			if !ring(r) {
				return false
			}
		}
	case model.MultiPolygon:
		for _, p := range g.C3 {
			for _, r := range p {
				if !ring(r) {
					return false
				}
			}
		}
	}
	return true
}

func obtain(c Case) (geom.T, string, error) {
	g := &c.G
	l := g.Lay()
	route := c.Route
	std := g.Layout >= 1 && g.Layout <= 4 && g.Kind != model.LinearRing
	switch route {
	case "selfalias":
		route = "setcoords"
	case "clonepush": // kinds without Push (and NoLayout): plain Clone
		route = "clone"
	case "wkb", "ewkb":
		if !std || hasNaNPoint(g) {
			route = "setcoords"
		}
	case "wkt":
		if !wktExpressible(g) {
			route = "setcoords"
		}
	case "geojson":
		// finite, layout carried by position length, layout inferable from the first position
		if !std || !finite(g) || g.Lay() == geom.XYM || g.Empty() || g.HasEmptyPart() {
			route = "setcoords"
		}
	case "flat-noends":
		if g.Kind != model.MultiPoint || g.HasEmptyPart() {
			route = "flat"
		}
	case "push":
		switch g.Kind {
		case model.Point, model.LineString, model.LinearRing:
			route = "mustset"
		}
	}
	if g.Layout == 0 && (route == "push" || route == "flat-noends") {
		route = "setcoords"
	}
	switch route {
	case "setcoords":
		t, err := setCoords(newEmpty(g.Kind, l), g)
		return t, route, err
	case "reset":
		// a receiver that already holds other coordinates
		junk := spoil(g, 0, 0) // structure irrelevant: build something non-empty with the right stride
		_ = junk
		r := newEmpty(g.Kind, l)
		if g.Layout != 0 {
			pre := &model.G{Kind: g.Kind, Layout: g.Layout}
			one := bad(g.Stride())
			switch g.Kind {
			case model.Point:
				pre.C0 = one
			case model.LineString, model.LinearRing, model.MultiPoint:
				pre.C1 = [][]model.F{one, one, one}
			case model.Polygon, model.MultiLineString:
				pre.C2 = [][][]model.F{{one}, {}, {one, one}}
			case model.MultiPolygon:
				pre.C3 = [][][][]model.F{{{one}}, {}, {{one, one}, {}}}
			}
			if _, err := setCoords(r, pre); err != nil {
				return nil, route, err
			}
		}
		t, err := setCoords(r, g)
		return t, route, err
	case "reset-twin":
		// a receiver that holds the same coordinates up to what == cannot see: zeros of
		// the other sign, NaNs with another payload
		r := newEmpty(g.Kind, l)
		if g.Layout != 0 {
			twin := g.Mapped(func(x float64) float64 {
				switch {
				case x == 0:
					return -x
				case x != x:
					b := math.Float64bits(x) ^ 2
					if b&(1<<52-1) == 0 {
						b ^= 6
					}
					return math.Float64frombits(b)
				}
				return x
			})
			if _, err := setCoords(r, twin); err != nil {
				return nil, route, err
			}
		}
		t, err := setCoords(r, g)
		return t, route, err
	case "mustset":
		t, err := model.Build(g, model.RouteMustSetCoords)
		return t, route, err
	case "flat":
		t, err := model.Build(g, model.RouteFlat)
		return t, route, err
	case "flat-noends":
		return geom.NewMultiPointFlat(l, model.Flat1(g.C1)), route, nil
	case "push":
		t, err := model.Build(g, model.RoutePush)
		return t, route, err
	case "clone":
		t, err := model.Build(g, model.RouteSetCoords)
		if err != nil {
			return nil, route, err
		}
		switch tt := t.(type) {
		case *geom.Point:
			return tt.Clone(), route, nil
		case *geom.LineString:
			return tt.Clone(), route, nil
		case *geom.LinearRing:
			return tt.Clone(), route, nil
		case *geom.Polygon:
			return tt.Clone(), route, nil
		case *geom.MultiPoint:
			return tt.Clone(), route, nil
		case *geom.MultiLineString:
			return tt.Clone(), route, nil
		case *geom.MultiPolygon:
			return tt.Clone(), route, nil
		}
	case "reserve":
		r := newEmpty(g.Kind, l)
		type reserver interface{ Reserve(int) }
		r.(reserver).Reserve(7)
		if err := model.WellFormed(r); err != nil {
			return nil, route, fmt.Errorf("after Reserve: %v", err)
		}
		t, err := setCoords(r, g)
		if err == nil && t != nil {
			t.(reserver).Reserve(g.NumCoords() + 3)
		}
		return t, route, err
	case "wkb":
		b, _, err := refwkb.Encode(g, len(g.C1)%2 == 1, refwkb.ISO)
		if err != nil {
			return nil, route, err
		}
		t, err := wkb.Unmarshal(b, wkbcommon.WKBOptionEmptyPointHandling(wkbcommon.EmptyPointHandlingNaN))
		return t, route, err
	case "ewkb":
		b, _, err := refwkb.Encode(g, len(g.C2)%2 == 1, refwkb.EWKB)
		if err != nil {
			return nil, route, err
		}
		t, err := ewkb.Unmarshal(b)
		return t, route, err
	case "wkt":
		s, err := refwkt.Write(g, nil)
		if err != nil {
			return nil, route, err
		}
		t, err := wkt.Unmarshal(s)
		return t, route, err
	case "geojson":
		src, err := model.Build(g, model.RouteFlat)
		if err != nil {
			return nil, route, err
		}
		b, err := geojson.Marshal(src)
		if err != nil {
			return nil, route, err
		}
		var t geom.T
		err = geojson.Unmarshal(b, &t)
		return t, route, err
	}
	return nil, route, fmt.Errorf("bad route %q", route)
}

var _ = binary.LittleEndian

func prop(c Case) error {
	g := &c.G
	// constructors give well-formed empty geometries
	e := newEmpty(g.Kind, g.Lay())
	if g.Kind == model.Point {
		e = geom.NewPointEmpty(g.Lay())
		if err := model.WellFormed(geom.NewPoint(g.Lay())); err != nil {
			return fmt.Errorf("NewPoint(%v): %v", g.Lay(), err)
		}
	}
	if err := model.WellFormed(e); err != nil {
		return fmt.Errorf("New%s(%v): %v", g.Kind, g.Lay(), err)
	}
	if c.Inject >= 0 && g.Stride() > 0 && c.BadLen > 0 {
		// the same rejection when the coordinates are consecutive windows of one flat array
		// (what Coords() of a long line are after slicing FlatCoords by hand): every window
		// starts where it should, one of them is an ordinate short or long
		stride := g.Stride()
		for _, n := range []int{8, 12, 40} {
			badAt := 1 + c.Inject%(n-1)
			flat := make([]float64, n*stride+stride)
			for i := range flat {
				flat[i] = float64(i) + 0.5
			}
			line := make([]geom.Coord, n)
			for i := range line {
				ln := stride
				if i == badAt {
					ln = c.BadLen
				}
				if i*stride+ln > len(flat) {
					ln = len(flat) - i*stride
				}
				line[i] = geom.Coord(flat[i*stride : i*stride+ln])
			}
			if len(line[badAt]) == stride {
				continue
			}
			var errs []error
			_, err := geom.NewLineString(g.Lay()).SetCoords(line)
			errs = append(errs, err)
			_, err = geom.NewLinearRing(g.Lay()).SetCoords(line)
			errs = append(errs, err)
			_, err = geom.NewPolygon(g.Lay()).SetCoords([][]geom.Coord{line})
			errs = append(errs, err)
			_, err = geom.NewMultiLineString(g.Lay()).SetCoords([][]geom.Coord{line[:2], line[2:]})
			errs = append(errs, err)
			_, err = geom.NewMultiPolygon(g.Lay()).SetCoords([][][]geom.Coord{{line}})
			errs = append(errs, err)
			_, err = geom.NewMultiPoint(g.Lay()).SetCoords(line)
			errs = append(errs, err)
			for k, err := range errs {
				var sm geom.ErrStrideMismatch
				if !errors.As(err, &sm) || sm.Got != len(line[badAt]) || sm.Want != stride {
					return fmt.Errorf("SetCoords (type %d of LineString, LinearRing, Polygon, MultiLineString, MultiPolygon, MultiPoint) of %d coordinates that are consecutive windows of one array, window %d being %d ordinates long (stride %d): %v, want ErrStrideMismatch{Got:%d Want:%d}", k, n, badAt, len(line[badAt]), stride, err, len(line[badAt]), stride)
				}
			}
		}
	}
	if c.Inject >= 0 {
		sp := spoil(g, c.Inject, c.BadLen, c.BadLen2, c.BadLen3)
		r := newEmpty(g.Kind, g.Lay())
		got, err := setCoords(r, sp)
		var sm geom.ErrStrideMismatch
		if err == nil {
			return fmt.Errorf("SetCoords stored a coordinate of length %d in a stride-%d %s", c.BadLen, g.Stride(), g.Kind)
		}
		if !errors.As(err, &sm) {
			return fmt.Errorf("SetCoords returned %T %v, want ErrStrideMismatch", err, err)
		}
		if sm.Got != c.BadLen || sm.Want != g.Stride() {
			return fmt.Errorf("ErrStrideMismatch%+v, want {Got:%d Want:%d}", sm, c.BadLen, g.Stride())
		}
		if got != nil {
			return fmt.Errorf("SetCoords returned a geometry together with the error")
		}
		if s := g.Stride(); s > 0 && len(r.FlatCoords())%s != 0 {
			return fmt.Errorf("receiver exposes a partial coordinate after the failed SetCoords: %d ordinates, stride %d", len(r.FlatCoords()), s)
		}
		return nil
	}
	if c.Route == "clonepush" && g.Layout != 0 {
		if done, err := clonePush(c); done {
			return err
		}
	}
	if c.Route == "selfalias" && g.Layout != 0 {
		if done, err := selfAlias(c); done {
			return err
		}
	}
	t, route, err := obtain(c)
	if err != nil {
		return fmt.Errorf("route %s: %v", route, err)
	}
	if t == nil {
		return fmt.Errorf("route %s returned nil", route)
	}
	if err := lossless("route "+route, t, g, route != "reserve" || true); err != nil {
		return err
	}
	// room reserved in a part accessor's result (a view of that part in its owner's
	// array: the room is there already, behind it) changes nothing in the owner
	if g.Layout != 0 {
		var views []geom.T
		switch r := t.(type) {
		case *geom.Polygon:
			for i := 0; i < r.NumLinearRings(); i++ {
				views = append(views, r.LinearRing(i))
			}
		case *geom.MultiLineString:
			for i := 0; i < r.NumLineStrings(); i++ {
				views = append(views, r.LineString(i))
			}
		case *geom.MultiPolygon:
			for i := 0; i < r.NumPolygons(); i++ {
				views = append(views, r.Polygon(i))
			}
		case *geom.MultiPoint:
			for i := 0; i < r.NumPoints(); i++ {
				views = append(views, r.Point(i))
			}
		}
		for i, v := range views {
			if rv, ok := v.(interface{ Reserve(int) }); ok {
				n := len(v.FlatCoords())/max(v.Stride(), 1) + 1 + i%3
				rv.Reserve(n)
				if err := model.WellFormed(v); err != nil {
					return fmt.Errorf("route %s: part %d of the result after Reserve(%d): %v", route, i, n, err)
				}
			}
		}
		if len(views) > 0 {
			if err := lossless("route "+route+", after room was reserved in every part its accessors returned,", t, g, true); err != nil {
				return err
			}
		}
	}
	// a polygon taken from a MultiPolygon and given another ring is well formed, and so
	// is the MultiPolygon afterwards, still holding what it held: the last polygon that
	// has coordinates is taken (no coordinate follows it, so the ring has room)
	if mp, ok := t.(*geom.MultiPolygon); ok && g.Layout != 0 {
		k := -1
		for i := range g.C3 {
			for _, r := range g.C3[i] {
				if len(r) > 0 {
					k = i
				}
			}
		}
		if k >= 0 {
			child := mp.Polygon(k)
			s := mp.Stride()
			ringFlat := make([]float64, 3*s)
			for i := range ringFlat {
				ringFlat[i] = float64(-1000 - i)
			}
			rings := child.NumLinearRings()
			if err := child.Push(geom.NewLinearRingFlat(mp.Layout(), ringFlat)); err != nil {
				return fmt.Errorf("route %s: Push of a ring onto Polygon(%d) of the result: %v", route, k, err)
			}
			if err := model.WellFormed(child); err != nil {
				return fmt.Errorf("route %s: Polygon(%d) of the result after a ring was pushed onto it: %v", route, k, err)
			}
			if child.NumLinearRings() != rings+1 {
				return fmt.Errorf("route %s: Polygon(%d) of the result has %d rings after a Push, had %d", route, k, child.NumLinearRings(), rings)
			}
			if err := lossless("route "+route+", after a ring was pushed onto the polygon its Polygon("+fmt.Sprint(k)+") returned,", t, g, true); err != nil {
				return err
			}
		}
	}
	// what a constructor returns does not depend on what became of the values it
	// returned before: the first value grows by an EMPTY part and by a part with
	// coordinates, and the same route then builds the geometry a second time
	if full, empty := growParts(g); full != nil && g.Layout != 0 {
		if err := growT(t, empty); err != nil {
			return fmt.Errorf("route %s: Push of an EMPTY part onto the result: %v", route, err)
		}
		if err := growT(t, full); err != nil {
			return fmt.Errorf("route %s: Push of a part onto the result: %v", route, err)
		}
		t2, _, err := obtain(c)
		if err != nil || t2 == nil {
			return fmt.Errorf("route %s a second time: %v", route, err)
		}
		if err := lossless("route "+route+", a second time after the first result was grown by two Push calls,", t2, g, true); err != nil {
			return err
		}
		// and a longer one by the same route
		if g.Kind == model.MultiPoint && route == "flat-noends" {
			s := g.Stride()
			flat := make([]float64, (len(g.C1)+2)*s)
			for i := range flat {
				flat[i] = float64(i) + 0.25
			}
			mp := geom.NewMultiPointFlat(g.Lay(), flat)
			if err := model.WellFormed(mp); err != nil {
				return fmt.Errorf("a longer MultiPoint built from its coordinates alone after the first result was grown: %v", err)
			}
			for i := 0; i < mp.NumPoints(); i++ {
				if f := mp.Point(i).FlatCoords(); len(f) != s || f[0] != flat[i*s] {
					return fmt.Errorf("point %d of a longer MultiPoint built from its coordinates alone after the first result was grown reads %v", i, f)
				}
			}
		}
	}
	return nil
}

// growParts returns a part with coordinates and an EMPTY part that can be pushed onto
// a geometry of g's kind and layout (nil, nil for kinds without Push).
func growParts(g *model.G) (full, empty *model.G) {
	one := bad(g.Stride())
	switch g.Kind {
	case model.MultiPoint:
		return &model.G{Kind: model.Point, Layout: g.Layout, C0: one}, &model.G{Kind: model.Point, Layout: g.Layout}
	case model.Polygon:
		return &model.G{Kind: model.LinearRing, Layout: g.Layout, C1: [][]model.F{one, one}}, &model.G{Kind: model.LinearRing, Layout: g.Layout, C1: [][]model.F{}}
	case model.MultiLineString:
		return &model.G{Kind: model.LineString, Layout: g.Layout, C1: [][]model.F{one, one}}, &model.G{Kind: model.LineString, Layout: g.Layout, C1: [][]model.F{}}
	case model.MultiPolygon:
		return &model.G{Kind: model.Polygon, Layout: g.Layout, C2: [][][]model.F{{one, one}, {}}}, &model.G{Kind: model.Polygon, Layout: g.Layout, C2: [][][]model.F{}}
	}
	return nil, nil
}

func growT(t geom.T, part *model.G) error {
	p, err := model.Build(part, model.RouteFlat)
	if err != nil {
		return err
	}
	switch tt := t.(type) {
	case *geom.Polygon:
		return tt.Push(p.(*geom.LinearRing))
	case *geom.MultiPoint:
		return tt.Push(p.(*geom.Point))
	case *geom.MultiLineString:
		return tt.Push(p.(*geom.LineString))
	case *geom.MultiPolygon:
		return tt.Push(p.(*geom.Polygon))
	}
	return nil
}

// clonePush obtains a geometry by Clone and then grows the original and the clone
// by different Push calls (a non-empty part on one, an empty one on the other, in a
// drawn order): both must stay well formed and lossless. It reports done=false for
// kinds without Push.
func clonePush(c Case) (bool, error) {
	g := &c.G
	l := g.Lay()
	one := bad(g.Stride())
	var full, empty *model.G
	switch g.Kind {
	case model.MultiPoint:
		full, empty = &model.G{Kind: model.Point, Layout: g.Layout, C0: one}, &model.G{Kind: model.Point, Layout: g.Layout}
	case model.Polygon:
		full, empty = &model.G{Kind: model.LinearRing, Layout: g.Layout, C1: [][]model.F{one, one}}, &model.G{Kind: model.LinearRing, Layout: g.Layout, C1: [][]model.F{}}
	case model.MultiLineString:
		full, empty = &model.G{Kind: model.LineString, Layout: g.Layout, C1: [][]model.F{one, one}}, &model.G{Kind: model.LineString, Layout: g.Layout, C1: [][]model.F{}}
	case model.MultiPolygon:
		full, empty = &model.G{Kind: model.Polygon, Layout: g.Layout, C2: [][][]model.F{{one, one}, {}}}, &model.G{Kind: model.Polygon, Layout: g.Layout, C2: [][][]model.F{}}
	default:
		return false, nil
	}
	orig, err := setCoords(newEmpty(g.Kind, l), g)
	if err != nil {
		return true, fmt.Errorf("clonepush: %v", err)
	}
	var cl geom.T
	switch tt := orig.(type) {
	case *geom.Polygon:
		cl = tt.Clone()
	case *geom.MultiPoint:
		cl = tt.Clone()
	case *geom.MultiLineString:
		cl = tt.Clone()
	case *geom.MultiPolygon:
		cl = tt.Clone()
	}
	grow := func(t geom.T, part *model.G) error {
		p, err := model.Build(part, model.RouteFlat)
		if err != nil {
			return err
		}
		switch tt := t.(type) {
		case *geom.Polygon:
			return tt.Push(p.(*geom.LinearRing))
		case *geom.MultiPoint:
			return tt.Push(p.(*geom.Point))
		case *geom.MultiLineString:
			return tt.Push(p.(*geom.LineString))
		case *geom.MultiPolygon:
			return tt.Push(p.(*geom.Polygon))
		}
		return nil
	}
	with := func(part *model.G) *model.G {
		m := g.Clone()
		switch g.Kind {
		case model.MultiPoint:
			m.C1 = append(m.C1, part.C0)
		case model.Polygon, model.MultiLineString:
			m.C2 = append(m.C2, part.C1)
		case model.MultiPolygon:
			m.C3 = append(m.C3, part.C2)
		}
		return m
	}
	po, pc := full, empty
	if g.NumCoords()%2 == 1 {
		po, pc = empty, full
	}
	first, second, pf, ps := orig, cl, po, pc
	if len(c.G.C1)%2 == 1 {
		first, second, pf, ps = cl, orig, pc, po
	}
	if err := grow(first, pf); err != nil {
		return true, fmt.Errorf("clonepush: %v", err)
	}
	if err := grow(second, ps); err != nil {
		return true, fmt.Errorf("clonepush: %v", err)
	}
	if err := lossless("original after Clone and Push on both", orig, with(po), true); err != nil {
		return true, err
	}
	return true, lossless("clone after Clone and Push on both", cl, with(pc), true)
}

// selfAlias sets a geometry's coordinates from slices that alias its OWN current
// storage (what Coord(i) and the part accessors hand out), in reversed order:
// reading back must give the reversed values as they were before the call.
func selfAlias(c Case) (bool, error) {
	g := &c.G
	stride := g.Stride()
	t, err := setCoords(newEmpty(g.Kind, g.Lay()), g)
	if err != nil {
		return true, fmt.Errorf("selfalias: %v", err)
	}
	flat := t.FlatCoords()
	alias := func(off, n int) []geom.Coord { // n coordinates starting at ordinate off, reversed, aliasing flat
		out := make([]geom.Coord, n)
		for i := 0; i < n; i++ {
			k := off + (n-1-i)*stride
			out[i] = geom.Coord(flat[k : k+stride : k+stride])
		}
		return out
	}
	rev := func(cs [][]model.F) [][]model.F {
		out := make([][]model.F, len(cs))
		for i := range cs {
			out[i] = append([]model.F{}, cs[len(cs)-1-i]...)
		}
		return out
	}
	want := g.Clone()
	switch tt := t.(type) {
	case *geom.LineString:
		want.C1 = rev(g.C1)
		_, err = tt.SetCoords(alias(0, len(g.C1)))
	case *geom.LinearRing:
		want.C1 = rev(g.C1)
		_, err = tt.SetCoords(alias(0, len(g.C1)))
	case *geom.Polygon, *geom.MultiLineString:
		var css [][]geom.Coord
		off := 0
		for i, r := range g.C2 {
			want.C2[i] = rev(r)
			css = append(css, alias(off, len(r)))
			off += len(r) * stride
		}
		// parts in reversed order too
		for i, j := 0, len(css)-1; i < j; i, j = i+1, j-1 {
			css[i], css[j] = css[j], css[i]
			want.C2[i], want.C2[j] = want.C2[j], want.C2[i]
		}
		if p, ok := tt.(*geom.Polygon); ok {
			_, err = p.SetCoords(css)
		} else {
			_, err = tt.(*geom.MultiLineString).SetCoords(css)
		}
	case *geom.MultiPolygon:
		var csss [][][]geom.Coord
		off := 0
		for i, p := range g.C3 {
			var css [][]geom.Coord
			for j, r := range p {
				want.C3[i][j] = rev(r)
				css = append(css, alias(off, len(r)))
				off += len(r) * stride
			}
			csss = append(csss, css)
		}
		for i, j := 0, len(csss)-1; i < j; i, j = i+1, j-1 {
			csss[i], csss[j] = csss[j], csss[i]
			want.C3[i], want.C3[j] = want.C3[j], want.C3[i]
		}
		_, err = tt.SetCoords(csss)
	default:
		return false, nil
	}
	if err != nil {
		return true, fmt.Errorf("selfalias SetCoords: %v", err)
	}
	return true, lossless("SetCoords from the geometry's own (aliased) coordinates in reversed order", t, want, true)
}

func classify(c Case) ([]string, bool) {
	g := &c.G
	cl := []string{"kind:" + g.Kind, "layout:" + g.Lay().String(), "route:" + c.Route}
	nt := false
	if c.Inject >= 0 {
		cl = append(cl, "mismatch-injection")
		return cl, true
	}
	if g.NumCoords() == 0 {
		return cl, false
	}
	parts := 0
	switch g.Kind {
	case model.MultiPoint:
		parts = len(g.C1)
	case model.Polygon, model.MultiLineString:
		parts = len(g.C2)
	case model.MultiPolygon:
		parts = len(g.C3)
		for _, p := range g.C3 {
			if len(p) >= 2 {
				parts = 2
			}
		}
	}
	if parts >= 2 {
		nt = true
	}
	if g.EmptyBeforeNonEmpty() {
		cl = append(cl, "empty-before-nonempty")
		nt = true
	}
	if g.Stride() > 4 {
		nt = true
	}
	special := false
	g.EachOrdinate(func(_ int, v model.F) {
		f := v.V()
		if math.IsNaN(f) || math.IsInf(f, 0) || (f == 0 && math.Signbit(f)) || (f != 0 && math.Abs(f) < 2.3e-308) {
			special = true
		}
	})
	if special {
		cl = append(cl, "special-floats")
		nt = true
	}
	return cl, nt
}

var spec = run.Spec[Case]{ID: "C01", Name: "flat", Gen: genCase, Prop: prop, Classify: classify}

func TestPropFlat(t *testing.T) { run.Generated(t, spec) }
func TestRegress(t *testing.T)  { run.Regress(t, spec) }
func TestReplay(t *testing.T) {
	run.ReplayOne(t, spec)
	run.ReplayOne(t, partsSpec)
	run.ReplayOne(t, concSpec)
}
