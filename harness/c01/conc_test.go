package c01

import (
	"testing"

	"verifharness/internal/run"
)

// The property's generated cases, 24 at a time in 8 or 16 goroutines, every case on
// values of its own: each holds as it holds alone (run.ConcSpec).
var concSpec = run.ConcSpec(spec, nil)

func TestExhaustiveConcurrent(t *testing.T) {
	rounds := 16
	if run.Thorough() {
		rounds = 400
	}
	run.ConcurrentSweep(t, concSpec, rounds)
}

func TestRegressConcurrent(t *testing.T) { run.Regress(t, concSpec) }
