// C15: 2-D and 3-D distance functions return the true minimum distance.
package c15

import (
	"fmt"
	"math"
	"math/big"
	"strings"
	"testing"

	geom "github.com/twpayne/go-geom"
	"github.com/twpayne/go-geom/xy"
	"github.com/twpayne/go-geom/xyz"
	"pgregory.net/rapid"

	"verifharness/internal/ev"
	"verifharness/internal/exact"
	"verifharness/internal/run"
)

func TestMain(m *testing.M) { run.Main(m) }

// Case: Fn selects the function; P are integer points (3 ordinates each; 2-D
// functions use the first two); Stride is the stride of the polyline of
// pt-ls2 (extra ordinates are filled with junk).
type Case struct {
	Fn     string     `json:"fn"`
	Class  string     `json:"class"`
	P      [][3]int64 `json:"p"`
	Stride int        `json:"stride,omitempty"`
	// Extra (2-D functions only): 0 = coordinates of two ordinates; 1 = every
	// coordinate carries its own third ordinate; 2 = coordinates of different lengths.
	Extra int `json:"extra,omitempty"`
	// Exp: every ordinate is multiplied by 2^Exp before it is handed to the library
	// (exact), and every distance returned is divided by 2^Exp before it is compared
	// (exact): distances scale with the coordinates, at any magnitude at which the
	// squares (2-D) or fourth powers (3-D) of the coordinates are finite and normal.
	Exp int `json:"exp,omitempty"`
	// Div > 1: every ordinate is divided by Div (in float64) before anything else.
	Div int `json:"div,omitempty"`
	// NegZero: zero ordinates of the odd-numbered points are handed over as -0.
	NegZero bool `json:"negZero,omitempty"`
}

// curExp is Case.Exp of the case being evaluated (one case at a time per process).
var curExp int

func sc(v float64) float64 { return math.Ldexp(v, curExp) }

// curDiv is Case.Div of the case being evaluated.
var curDiv int

func pt(t *rapid.T, lim int64, label string) [3]int64 {
	return [3]int64{rapid.Int64Range(-lim, lim).Draw(t, label+"x"), rapid.Int64Range(-lim, lim).Draw(t, label+"y"), rapid.Int64Range(-lim, lim).Draw(t, label+"z")}
}

func addk(a [3]int64, k int64, v [3]int64) [3]int64 {
	return [3]int64{a[0] + k*v[0], a[1] + k*v[1], a[2] + k*v[2]}
}

func crossv(u, v [3]int64) [3]int64 {
	return [3]int64{u[1]*v[2] - u[2]*v[1], u[2]*v[0] - u[0]*v[2], u[0]*v[1] - u[1]*v[0]}
}

var halves = []int64{-2, -1, 0, 1, 2, 3, 4} // parameter * 2 : -1, -1/2, 0, 1/2, 1, 3/2, 2

func genSegSeg(t *rapid.T, three bool) (string, [][3]int64) {
	class := rapid.SampledFrom([]string{"constructed", "constructed", "small-grid", "big-grid", "parallel", "collinear", "degenerate", "touching", "near-parallel-long", "collinear-decimal", "collinear-decimal", "long-and-short"}).Draw(t, "class")
	k := uint(rapid.IntRange(1, 20).Draw(t, "k"))
	lim := int64(1) << k
	flat := func(p [3]int64) [3]int64 {
		if !three {
			p[2] = 0
		}
		return p
	}
	switch class {
	case "constructed":
		// closest approach of the two lines at chosen parameters (s0, t0)
		a := flat(pt(t, 64, "a"))
		u := flat(pt(t, 6, "u"))
		v := flat(pt(t, 6, "v"))
		if u == ([3]int64{}) {
			u[0] = 1
		}
		if v == ([3]int64{}) {
			v[1] = 1
		}
		u = addk([3]int64{}, 2, u) // even, so that half parameters are lattice points
		v = addk([3]int64{}, 2, v)
		s2 := rapid.SampledFrom(halves).Draw(t, "s2")
		t2 := rapid.SampledFrom(halves).Draw(t, "t2")
		p := addk(a, s2, [3]int64{u[0] / 2, u[1] / 2, u[2] / 2})
		w := crossv(u, v)
		q := p
		if three {
			q = addk(p, rapid.Int64Range(-2, 2).Draw(t, "gap"), w)
		}
		c := addk(q, -t2, [3]int64{v[0] / 2, v[1] / 2, v[2] / 2})
		d := addk(c, 1, v)
		b := addk(a, 1, u)
		return fmt.Sprintf("constructed s=%d/2 t=%d/2", s2, t2), [][3]int64{a, b, c, d}
	case "near-parallel-long":
		// two long segments whose directions differ by a few units over ~2^19: they cross
		// or pass each other at a very shallow angle (not parallel)
		a := flat(pt(t, 1<<10, "a"))
		u := flat(pt(t, 1<<19, "u"))
		if u == ([3]int64{}) {
			u[0] = 1 << 18
		}
		d := flat(pt(t, 3, "du"))
		if d == ([3]int64{}) {
			d[1] = 1
		}
		v := addk(u, 1, d)
		c := addk(a, 1, flat(pt(t, 4, "off")))
		if rapid.Bool().Draw(t, "midcross") {
			// make them cross near the middle: shift c back by half of the direction difference
			c = addk(a, -1, [3]int64{d[0] / 2, d[1] / 2, d[2] / 2})
		}
		return class, [][3]int64{a, addk(a, 1, u), c, addk(c, 1, v)}
	case "small-grid":
		l := int64(rapid.IntRange(1, 3).Draw(t, "side"))
		return class, [][3]int64{flat(pt(t, l, "a")), flat(pt(t, l, "b")), flat(pt(t, l, "c")), flat(pt(t, l, "d"))}
	case "big-grid":
		return class, [][3]int64{flat(pt(t, lim, "a")), flat(pt(t, lim, "b")), flat(pt(t, lim, "c")), flat(pt(t, lim, "d"))}
	case "long-and-short":
		// a segment of 2^27..2^30 units through a point o and a stroke of a few units at o
		// (touching it, crossing it, beside it): their lengths differ by seven to nine
		// orders of magnitude, their squares by twice as many - and the stroke is a
		// segment still, its far end as good as its near one
		o := flat(pt(t, 1<<10, "o"))
		u := flat(pt(t, 3, "u"))
		if u == ([3]int64{}) {
			u[0] = 1
		}
		kk := int64(1) << uint(rapid.IntRange(26, 29).Draw(t, "longk"))
		a, b := addk(o, -kk+rapid.Int64Range(0, 1000).Draw(t, "ja"), u), addk(o, kk, u)
		w1, w2 := flat(pt(t, 4, "w1")), flat(pt(t, 4, "w2"))
		if w1 == w2 {
			w2[1] += 4
		}
		c, d := addk(o, 1, w1), addk(o, 1, w2)
		if rapid.Bool().Draw(t, "shortfirst") {
			return class, [][3]int64{c, d, a, b}
		}
		return class, [][3]int64{a, b, c, d}
	case "collinear-decimal":
		// two pieces of one oblique line near the origin, apart, touching or overlapping;
		// genCase divides every ordinate by ten, three, ... : as decimals the four points
		// are collinear only up to rounding, so the lines are neither parallel nor do they
		// cross anywhere near, and every sign and parameter computed from them is noise
		a := flat(pt(t, 64, "a"))
		u := flat(pt(t, 40, "u"))
		if u == ([3]int64{}) {
			u[0] = 3
		}
		k1 := rapid.Int64Range(1, 12).Draw(t, "k1")
		c := addk(a, rapid.Int64Range(-20, 20).Draw(t, "shift"), u)
		k2 := rapid.Int64Range(1, 12).Draw(t, "k2")
		if rapid.Bool().Draw(t, "k2neg") {
			k2 = -k2
		}
		return class, [][3]int64{a, addk(a, k1, u), c, addk(c, k2, u)}
	case "parallel", "collinear":
		a := flat(pt(t, lim, "a"))
		u := flat(pt(t, 5, "u"))
		if u == ([3]int64{}) {
			u[0] = 1
		}
		k1 := rapid.Int64Range(1, 6).Draw(t, "k1")
		c := addk(a, rapid.Int64Range(-8, 8).Draw(t, "shift"), u)
		if class == "parallel" {
			c = addk(c, 1, flat(pt(t, 4, "off")))
		}
		k2 := rapid.Int64Range(-6, 6).Draw(t, "k2")
		if k2 == 0 {
			k2 = 1
		}
		return class, [][3]int64{a, addk(a, k1, u), c, addk(c, k2, u)}
	case "degenerate":
		a, b, c, d := flat(pt(t, lim, "a")), flat(pt(t, lim, "b")), flat(pt(t, lim, "c")), flat(pt(t, lim, "d"))
		switch rapid.IntRange(0, 3).Draw(t, "which") {
		case 0:
			b = a
			return "degenerate-first", [][3]int64{a, b, c, d}
		case 1:
			d = c
			return "degenerate-second", [][3]int64{a, b, c, d}
		case 2:
			b, d = a, c
			return "degenerate-both", [][3]int64{a, b, c, d}
		default:
			// degenerate second segment lying on the first
			d = c
			u := [3]int64{b[0] - a[0], b[1] - a[1], b[2] - a[2]}
			c = addk(a, rapid.Int64Range(-1, 2).Draw(t, "kk"), u)
			d = c
			return "degenerate-second-on-first", [][3]int64{a, b, c, d}
		}
	default: // touching: an endpoint of one on the other
		a := flat(pt(t, lim, "a"))
		u := flat(pt(t, 8, "u"))
		if u == ([3]int64{}) {
			u[0] = 1
		}
		m := rapid.Int64Range(1, 4).Draw(t, "m")
		b := addk(a, m, u)
		c := addk(a, rapid.Int64Range(0, m).Draw(t, "at"), u)
		d := addk(c, 1, flat(pt(t, 8, "dir")))
		return class, [][3]int64{a, b, c, d}
	}
}

func genCase(t *rapid.T) Case {
	c := genCase0(t)
	lim := 230
	switch c.Fn {
	case "seg-seg2", "pt-seg2", "perp2", "pt-ls2":
		c.Extra = rapid.SampledFrom([]int{0, 0, 1, 2, 3}).Draw(t, "extra")
		lim = 480
	}
	if c.Class == "wide-whole-numbers" {
		lim -= 52
	}
	if c.Class == "long-and-short" {
		lim -= 12 // ordinates of up to 32 bits instead of 20: their products must stay finite
	}
	if c.Class == "hair-segment-far-point" {
		lim -= 62 // ordinates of up to 62 bits: their squares (fourth powers) must stay finite
	}
	// a small configuration far from the origin (exact integer translation): the distance
	// is that of the small shape, the coordinate scale that of the offset
	small := true
	for _, p := range c.P {
		for _, v := range p {
			if v > 256 || v < -256 {
				small = false
			}
		}
	}
	if small && rapid.IntRange(0, 2).Draw(t, "offset") == 0 {
		var o [3]int64
		for d := range o {
			o[d] = rapid.Int64Range(1<<20, 1<<30).Draw(t, "off")
			if rapid.Bool().Draw(t, "offneg") {
				o[d] = -o[d]
			}
		}
		for i := range c.P {
			for d := range o {
				c.P[i][d] += o[d]
			}
		}
		c.Class += "+offset"
	}
	// the configuration flattened into a coordinate plane or onto an axis (one or two
	// ordinates of every point are 0), the zeros of every other point written as -0
	if rapid.IntRange(0, 5).Draw(t, "negzero") == 0 {
		c.NegZero = true
		dims := 3
		switch c.Fn {
		case "seg-seg2", "pt-seg2", "perp2", "pt-ls2":
			dims = 2
		}
		d0 := rapid.IntRange(0, dims-1).Draw(t, "zerodim")
		d1 := d0
		if dims == 3 && rapid.IntRange(0, 3).Draw(t, "twozero") == 0 {
			d1 = (d0 + 1 + rapid.IntRange(0, 1).Draw(t, "zerodim2")) % 3
		}
		for i := range c.P {
			c.P[i][d0], c.P[i][d1] = 0, 0
		}
		if c.Fn == "perp2" && len(c.P) > 2 && c.P[1] == c.P[2] {
			c.P[2][(d0+1)%2]++ // the perpendicular distance needs a line
		}
		c.Class += "+negzero"
	}
	// ordinates that are not short binary fractions (decimals, thirds): sums, differences
	// and parameters that were exact on whole numbers now round
	if rapid.IntRange(0, 3).Draw(t, "div") == 0 || strings.HasPrefix(c.Class, "collinear-decimal") {
		c.Div = rapid.SampledFrom([]int{10, 10, 3, 7, 100, 1000, 60000}).Draw(t, "divby")
		c.Class += "+div"
	}
	if rapid.IntRange(0, 3).Draw(t, "scaled") == 0 {
		c.Exp = rapid.SampledFrom([]int{-lim, lim, -lim / 2, lim / 2, 260, -260, 100, -100, 30, -30}).Draw(t, "exp")
		if c.Exp > lim || c.Exp < -lim || rapid.Bool().Draw(t, "expany") {
			c.Exp = rapid.IntRange(-lim, lim).Draw(t, "expv")
		}
	}
	return c
}

func genCase0(t *rapid.T) Case {
	fn := rapid.SampledFrom([]string{"seg-seg3", "seg-seg3", "seg-seg2", "seg-seg2", "pt-seg3", "pt-seg2", "pt-ls2", "perp2", "dist3"}).Draw(t, "fn")
	switch fn {
	case "seg-seg3":
		cl, p := genSegSeg(t, true)
		return Case{Fn: fn, Class: cl, P: p}
	case "seg-seg2":
		// whole numbers at the widths of machine integers, at an extreme of the range a
		// third of the time: differences need one more bit than the type, their products
		// twice as many
		if rapid.IntRange(0, 7).Draw(t, "wideint") == 3 {
			lim := int64(1) << uint(rapid.SampledFrom([]int{26, 27, 30, 31, 31, 32, 40, 50}).Draw(t, "widek"))
			wp := func(l string) [3]int64 {
				var q [3]int64
				for i := 0; i < 2; i++ {
					switch rapid.IntRange(0, 5).Draw(t, l+"ext") {
					case 0:
						q[i] = lim - 1
					case 1:
						q[i] = -lim
					default:
						q[i] = rapid.Int64Range(-lim, lim-1).Draw(t, l+"v")
					}
				}
				return q
			}
			p := [][3]int64{wp("wa"), wp("wb"), wp("wc"), wp("wd")}
			if rapid.Bool().Draw(t, "diagonals") {
				// the two diagonals of (nearly) the whole square: long, and crossing
				// (of a rectangle of drawn half-sides between a quarter of the range and all of it)
				j := func(l string) int64 { return rapid.Int64Range(0, lim/1024).Draw(t, l) }
				hx, hy := rapid.Int64Range(lim/4, lim-1).Draw(t, "hx"), rapid.Int64Range(lim/4, lim-1).Draw(t, "hy")
				p = [][3]int64{{-hx + j("j1"), -hy + j("j2")}, {hx - j("j3"), hy - j("j4")}, {-hx + j("j5"), hy - j("j6")}, {hx - j("j7"), -hy + j("j8")}}
			}
			if p[0] == p[1] {
				p[1][0]--
			}
			if p[2] == p[3] {
				p[3][1]--
			}
			return Case{Fn: fn, Class: "wide-whole-numbers", P: p}
		}
		cl, p := genSegSeg(t, false)
		return Case{Fn: fn, Class: cl, P: p}
	case "pt-seg3", "pt-seg2", "perp2":
		// a segment of a few units and a point 2^54..2^61 units away: the segment is shorter
		// than the spacing of the doubles at the point's distance, so vectors taken from the
		// point to its two ends round to the same value
		if rapid.IntRange(0, 7).Draw(t, "hair") == 5 {
			sm := func(l string) int64 { return rapid.Int64Range(-3, 3).Draw(t, l) }
			a := [3]int64{sm("hax"), sm("hay"), sm("haz")}
			b := [3]int64{sm("hbx"), sm("hby"), sm("hbz")}
			if fn != "pt-seg3" {
				a[2], b[2] = 0, 0
			}
			if a == b {
				b[0]++
			}
			far := func(l string) int64 {
				v := rapid.Int64Range(1<<53, 1<<54).Draw(t, l) << uint(rapid.IntRange(0, 7).Draw(t, l+"sh"))
				if rapid.Bool().Draw(t, l+"neg") {
					v = -v
				}
				return v
			}
			pnt := [3]int64{far("hpx"), far("hpy"), 0}
			if rapid.Bool().Draw(t, "hponaxis") {
				pnt[1] = sm("hpy0")
			}
			if fn == "pt-seg3" {
				pnt[2] = far("hpz")
			}
			return Case{Fn: fn, Class: "hair-segment-far-point", P: [][3]int64{pnt, a, b}}
		}
		cl, p := genSegSeg(t, fn == "pt-seg3")
		// point = p[2] (endpoint of the other segment: on, before, after, beside the segment)
		if fn == "perp2" && p[0] == p[1] {
			p[1][0]++
		}
		return Case{Fn: fn, Class: cl, P: [][3]int64{p[2], p[0], p[1]}}
	case "dist3":
		k := uint(rapid.IntRange(1, 20).Draw(t, "k"))
		return Case{Fn: fn, Class: "points", P: [][3]int64{pt(t, 1<<k, "a"), pt(t, 1<<k, "b")}}
	default: // pt-ls2
		k := uint(rapid.IntRange(1, 20).Draw(t, "k"))
		n := rapid.IntRange(1, 10).Draw(t, "n")
		class := "polyline"
		if rapid.IntRange(0, 9).Draw(t, "long") == 0 {
			n, class = rapid.IntRange(60, 400).Draw(t, "nlong"), "polyline-long"
		}
		p := [][3]int64{pt(t, 1<<k, "p")}
		for i := 0; i < n; i++ {
			q := pt(t, 1<<k, "v")
			if i > 0 && rapid.IntRange(0, 4).Draw(t, "rep") == 0 {
				q = p[len(p)-1]
			}
			p = append(p, q)
		}
		if rapid.IntRange(0, 3).Draw(t, "on") == 0 {
			p[0] = p[1+rapid.IntRange(0, n-1).Draw(t, "which")]
		}
		return Case{Fn: fn, Class: class, P: p, Stride: rapid.IntRange(2, 5).Draw(t, "stride")}
	}
}

// c2of, c3of: point i of the case as the coordinate handed to the library. With
// NegZero the zero ordinates of the odd-numbered points are written as -0 (the same
// position as 0: two coincident end points may then differ in the sign of a zero).
func c2of(c Case, i int) geom.Coord { return negz(c, i, c2(c.P[i])) }
func c3of(c Case, i int) geom.Coord { return negz(c, i, c3(c.P[i])) }
func negz(c Case, i int, co geom.Coord) geom.Coord {
	if c.NegZero && i%2 == 1 {
		for d := range co {
			if co[d] == 0 {
				co[d] = math.Copysign(0, -1)
			}
		}
	}
	return co
}

// val is ordinate v of the case as a float64: v itself, or v divided by the case's Div
// (a value that is not a short binary fraction: 0.1, 1/3, ...). The exact oracle works
// on the value of that double.
func val(v int64) float64 {
	if curDiv > 1 {
		return float64(v) / float64(curDiv)
	}
	return float64(v)
}

func c2(p [3]int64) geom.Coord { return geom.Coord{sc(val(p[0])), sc(val(p[1]))} }
func c3(p [3]int64) geom.Coord {
	return geom.Coord{sc(val(p[0])), sc(val(p[1])), sc(val(p[2]))}
}
func e2(p [3]int64) exact.P2 { return exact.Pt(val(p[0]), val(p[1])) }
func e3(p [3]int64) exact.P3 { return exact.Pt3(val(p[0]), val(p[1]), val(p[2])) }

func scaleOf(c Case, dims int) float64 {
	s := 0.0
	for _, p := range c.P {
		for d := 0; d < dims; d++ {
			s = math.Max(s, math.Abs(val(p[d])))
		}
	}
	return s
}

func check(what string, got float64, d2 *big.Rat, tol float64, exactZero bool) error {
	// "zero when the sets touch or cross" is checked to the last bit where the arithmetic
	// can deliver it: on whole-number ordinates (every product is exact). On ordinates
	// that are not short binary fractions zero means within the tolerance.
	exactZero = exactZero && curDiv <= 1
	if curExp != 0 {
		what = fmt.Sprintf("%s [all ordinates x 2^%d, result / 2^%d]", what, curExp, curExp)
		got = math.Ldexp(got, -curExp)
	}
	if math.IsNaN(got) {
		return fmt.Errorf("%s = NaN (exact distance^2 %v)", what, exact.Float(d2))
	}
	if exactZero && d2.Sign() == 0 && got != 0 {
		return fmt.Errorf("%s = %v, but the sets touch or cross: want exactly 0", what, got)
	}
	if !exact.WithinSqrt(got, d2, tol) {
		return fmt.Errorf("%s = %v, exact distance %v (tol %v)", what, got, math.Sqrt(exact.Float(d2)), tol)
	}
	if tol > 0 {
		ev.Default.MaxOf("err_over_tol", math.Abs(got-math.Sqrt(exact.Float(d2)))/tol)
	}
	return nil
}

func prop(c Case) error {
	P := c.P
	curExp, curDiv = c.Exp, c.Div
	defer func() { curExp, curDiv = 0, 0 }()
	// cc is point i as the coordinate handed to a 2-D function
	cc := func(i int) geom.Coord {
		out := c2of(c, i)
		switch c.Extra {
		case 1:
			out = append(out, float64(i)+0.25)
		case 2:
			for k := 0; k < (i+1)%3; k++ {
				out = append(out, float64(10*i+k)+0.5)
			}
		case 3: // a Z that is not a number, an M that is infinite (these are distances in x and y)
			out = append(out, math.NaN(), math.Inf(1-2*(i%2)))
		}
		return out
	}
	switch c.Fn {
	case "dist3":
		tol := 1e-12 * scaleOf(c, 3)
		d2 := exact.Dist2_3(e3(P[0]), e3(P[1]))
		if err := check("xyz.Distance(p,q)", xyz.Distance(c3of(c, 0), c3of(c, 1)), d2, tol, true); err != nil {
			return err
		}
		if err := check("xyz.Distance(q,p)", xyz.Distance(c3of(c, 1), c3of(c, 0)), d2, tol, true); err != nil {
			return err
		}
	case "pt-seg2":
		tol := 1e-12 * scaleOf(c, 2)
		d2 := exact.PointSegDist2(e2(P[0]), e2(P[1]), e2(P[2]))
		if err := check("xy.DistanceFromPointToLine(p,a,b)", xy.DistanceFromPointToLine(cc(0), cc(1), cc(2)), d2, tol, true); err != nil {
			return err
		}
		if err := check("xy.DistanceFromPointToLine(p,b,a)", xy.DistanceFromPointToLine(cc(0), cc(2), cc(1)), d2, tol, true); err != nil {
			return err
		}
	case "perp2":
		tol := 1e-12 * scaleOf(c, 2)
		a, b, p := e2(P[1]), e2(P[2]), e2(P[0])
		cr := exact.Cross(a, b, p)
		d2 := exact.Quo(exact.Mul(cr, cr), exact.Dist2(a, b))
		if err := check("xy.PerpendicularDistanceFromPointToLine(p,a,b)", xy.PerpendicularDistanceFromPointToLine(cc(0), cc(1), cc(2)), d2, tol, true); err != nil {
			return err
		}
		if err := check("xy.PerpendicularDistanceFromPointToLine(p,b,a)", xy.PerpendicularDistanceFromPointToLine(cc(0), cc(2), cc(1)), d2, tol, true); err != nil {
			return err
		}
	case "pt-seg3":
		tol := 1e-12 * scaleOf(c, 3)
		d2 := exact.PointSegDist2_3(e3(P[0]), e3(P[1]), e3(P[2]))
		if err := check("xyz.DistancePointToLine(p,a,b)", xyz.DistancePointToLine(c3of(c, 0), c3of(c, 1), c3of(c, 2)), d2, tol, false); err != nil {
			return err
		}
		if err := check("xyz.DistancePointToLine(p,b,a)", xyz.DistancePointToLine(c3of(c, 0), c3of(c, 2), c3of(c, 1)), d2, tol, false); err != nil {
			return err
		}
	case "pt-ls2":
		tol := 1e-12 * scaleOf(c, 2)
		stride := c.Stride
		layout := []geom.Layout{0, 0, geom.XY, geom.XYZ, geom.XYZM, geom.Layout(5)}[stride]
		if stride == 3 && len(P)%2 == 0 {
			layout = geom.XYM
		}
		var line []float64
		for i, p := range P[1:] {
			line = append(line, sc(val(p[0])), sc(val(p[1])))
			for d := 2; d < stride; d++ {
				line = append(line, float64(i*7919+d)*1e6)
			}
		}
		d2 := exact.Dist2(e2(P[0]), e2(P[1]))
		for i := 2; i < len(P); i++ {
			d2 = exact.MinRat(d2, exact.PointSegDist2(e2(P[0]), e2(P[i-1]), e2(P[i])))
		}
		if err := check("xy.DistanceFromPointToLineString", xy.DistanceFromPointToLineString(layout, cc(0), line), d2, tol, true); err != nil {
			return err
		}
		// reversed polyline
		var rev []float64
		for i := len(line) - stride; i >= 0; i -= stride {
			rev = append(rev, line[i:i+stride]...)
		}
		if err := check("xy.DistanceFromPointToLineString(reversed)", xy.DistanceFromPointToLineString(layout, cc(0), rev), d2, tol, true); err != nil {
			return err
		}
		// after the whole line, shorter and shorter beginnings of it (what an earlier,
		// longer call leaves behind must not be measured with a later, shorter line)
		for _, keep := range []int{len(P) - 2, (len(P)-1)*3/4 + 1, (len(P)-1)/2 + 1, 129, 2, 1} {
			if keep < 1 || keep >= len(P)-1 {
				continue
			}
			dk := exact.Dist2(e2(P[0]), e2(P[1]))
			for i := 2; i <= keep; i++ {
				dk = exact.MinRat(dk, exact.PointSegDist2(e2(P[0]), e2(P[i-1]), e2(P[i])))
			}
			if err := check(fmt.Sprintf("xy.DistanceFromPointToLineString(first %d of %d vertices, after the whole line)", keep, len(P)-1), xy.DistanceFromPointToLineString(layout, cc(0), line[:keep*stride]), dk, tol, true); err != nil {
				return err
			}
		}
		// the distance is that of the vertices as they are now: the same slice is asked
		// again, then its interior vertices are moved in place (x and y exchanged; the
		// first and the last vertex stay), then all of them, and it is asked each time
		for rep := 0; rep < 3; rep++ {
			if err := check("xy.DistanceFromPointToLineString(the same slice again)", xy.DistanceFromPointToLineString(layout, cc(0), line), d2, tol, true); err != nil {
				return err
			}
		}
		Q := append([][3]int64{}, P...)
		for pass, rng := range [][2]int{{2, len(P) - 2}, {1, len(P) - 1}} {
			if pass == 1 {
				Q = append([][3]int64{}, P...)
			}
			for i := rng[0]; i <= rng[1]; i++ {
				k := (i - 1) * stride
				if pass == 1 && i >= 2 && i <= len(P)-2 {
					continue // already exchanged in the first pass; now only the ends join them
				}
				line[k], line[k+1] = line[k+1], line[k]
			}
			for i := rng[0]; i <= rng[1]; i++ {
				Q[i][0], Q[i][1] = P[i][1], P[i][0]
			}
			dq := exact.Dist2(e2(Q[0]), e2(Q[1]))
			for i := 2; i < len(Q); i++ {
				dq = exact.MinRat(dq, exact.PointSegDist2(e2(Q[0]), e2(Q[i-1]), e2(Q[i])))
			}
			what := []string{"interior vertices", "all vertices"}[pass]
			if err := check("xy.DistanceFromPointToLineString(the same slice after its "+what+" were moved in place)", xy.DistanceFromPointToLineString(layout, cc(0), line), dq, tol, true); err != nil {
				return err
			}
		}
		return nil
	case "seg-seg2":
		tol := 1e-12 * scaleOf(c, 2)
		d2 := exact.SegSegDist2(e2(P[0]), e2(P[1]), e2(P[2]), e2(P[3]))
		for vi, idx := range variants {
			got := xy.DistanceFromLineToLine(cc(idx[0]), cc(idx[1]), cc(idx[2]), cc(idx[3]))
			if err := check(fmt.Sprintf("xy.DistanceFromLineToLine variant %d %v", vi, idx), got, d2, tol, true); err != nil {
				return err
			}
		}
	case "seg-seg3":
		// (the closest points of two nearly parallel lines are ill-conditioned, and the
		// documented method goes through them: its error grows like 1/sin(angle) until the
		// end-point candidates bound it, at worst about sqrt(eps) x scale. 1e-9 x scale is
		// the tolerance this check started with; the other functions are held to 1e-12.)
		tol := 1e-9 * scaleOf(c, 3)
		if curDiv > 1 {
			// With ordinates that are not short binary fractions the dot products the method
			// starts from are rounded, and the parameters of the closest points of two lines
			// at an angle t are then off by about eps/sin^2(t) of a segment length L - at
			// most by all of it, the parameters being clamped - which moves the distance by
			// min(L sin t, k eps L / sin t): that much is "within rounding" of the documented
			// method (thorough seed 2: two segments of 54 000 units crossing at 6e-8 rad, found
			// 7.6e-5 apart). On whole numbers every product is exact and 1e-9 stays.
			a, b := c3of(c, 0), c3of(c, 1)
			p, q := c3of(c, 2), c3of(c, 3)
			u := [3]float64{b[0] - a[0], b[1] - a[1], b[2] - a[2]}
			v := [3]float64{q[0] - p[0], q[1] - p[1], q[2] - p[2]}
			cr := [3]float64{u[1]*v[2] - u[2]*v[1], u[2]*v[0] - u[0]*v[2], u[0]*v[1] - u[1]*v[0]}
			nu, nv, nc := math.Sqrt(u[0]*u[0]+u[1]*u[1]+u[2]*u[2]), math.Sqrt(v[0]*v[0]+v[1]*v[1]+v[2]*v[2]), math.Sqrt(cr[0]*cr[0]+cr[1]*cr[1]+cr[2]*cr[2])
			if nu > 0 && nv > 0 && nc > 0 {
				sin := nc / (nu * nv)
				l := math.Max(nu, nv)
				ill := math.Min(l*sin, 32*0x1p-53*l/sin)
				ev.Default.MaxOf("segseg3_conditioned_tolerance_over_plain", ill/tol)
				tol = math.Max(tol, ill)
			}
		}
		d2 := exact.SegSegDist2_3(e3(P[0]), e3(P[1]), e3(P[2]), e3(P[3]))
		for vi, idx := range variants {
			got := xyz.DistanceLineToLine(c3of(c, idx[0]), c3of(c, idx[1]), c3of(c, idx[2]), c3of(c, idx[3]))
			if err := check(fmt.Sprintf("xyz.DistanceLineToLine variant %d %v", vi, idx), got, d2, tol, false); err != nil {
				return err
			}
		}
	default:
		return fmt.Errorf("unknown fn %q", c.Fn)
	}
	return windows(c, cc)
}

// windows hands the 2-D and 3-D point and segment functions their arguments as windows
// of one flat array (what Coord(i) and slicing FlatCoords give: every window's capacity
// runs on over its neighbours), laid out in a rotated order: the result is bit for bit
// the one for separate slices and the array is left as it was.
func windows(c Case, cc func(int) geom.Coord) error {
	var args []geom.Coord
	var call func(a []geom.Coord) float64
	switch c.Fn {
	case "dist3":
		args = []geom.Coord{c3of(c, 0), c3of(c, 1)}
		call = func(a []geom.Coord) float64 { return xyz.Distance(a[0], a[1]) }
	case "pt-seg2":
		args = []geom.Coord{cc(0), cc(1), cc(2)}
		call = func(a []geom.Coord) float64 { return xy.DistanceFromPointToLine(a[0], a[1], a[2]) }
	case "perp2":
		args = []geom.Coord{cc(0), cc(1), cc(2)}
		call = func(a []geom.Coord) float64 { return xy.PerpendicularDistanceFromPointToLine(a[0], a[1], a[2]) }
	case "pt-seg3":
		args = []geom.Coord{c3of(c, 0), c3of(c, 1), c3of(c, 2)}
		call = func(a []geom.Coord) float64 { return xyz.DistancePointToLine(a[0], a[1], a[2]) }
	case "seg-seg2":
		args = []geom.Coord{cc(0), cc(1), cc(2), cc(3)}
		call = func(a []geom.Coord) float64 { return xy.DistanceFromLineToLine(a[0], a[1], a[2], a[3]) }
	case "seg-seg3":
		args = []geom.Coord{c3of(c, 0), c3of(c, 1), c3of(c, 2), c3of(c, 3)}
		call = func(a []geom.Coord) float64 { return xyz.DistanceLineToLine(a[0], a[1], a[2], a[3]) }
	default:
		return nil
	}
	want := call(args)
	n := len(args)
	for rot := 1; rot <= 2; rot++ {
		var flat []float64
		off := make([]int, n)
		for r := 0; r < n; r++ {
			k := (r + rot) % n
			off[k] = len(flat)
			flat = append(flat, args[k]...)
		}
		flat = append(flat, 7, 7, 7)[:len(flat)]
		before := append([]float64{}, flat[:cap(flat)]...)
		w := make([]geom.Coord, n)
		for k := range w {
			w[k] = geom.Coord(flat[off[k] : off[k]+len(args[k])])
		}
		if got := call(w); math.Float64bits(got) != math.Float64bits(want) && !(got != got && want != want) {
			return fmt.Errorf("%s with its arguments as windows of one array (rotated by %d) = %v, %v with separate slices", c.Fn, rot, got, want)
		}
		now := flat[:cap(flat)]
		for i := range before {
			if math.Float64bits(before[i]) != math.Float64bits(now[i]) {
				return fmt.Errorf("%s with its arguments as windows of one array changed element %d from %v to %v", c.Fn, i, before[i], now[i])
			}
		}
	}
	return nil
}

// the 8 argument-order / direction variants of a pair of segments
var variants = [][4]int{{0, 1, 2, 3}, {1, 0, 2, 3}, {0, 1, 3, 2}, {1, 0, 3, 2}, {2, 3, 0, 1}, {3, 2, 0, 1}, {2, 3, 1, 0}, {3, 2, 1, 0}}

func region(v *big.Rat) string {
	one := big.NewRat(1, 1)
	switch {
	case v.Sign() < 0:
		return "<0"
	case v.Sign() == 0:
		return "=0"
	case v.Cmp(one) < 0:
		return "in"
	case v.Cmp(one) == 0:
		return "=1"
	}
	return ">1"
}

func classify(c Case) ([]string, bool) {
	cl := []string{"fn:" + c.Fn}
	if strings.Contains(c.Class, "wide-whole") || strings.Contains(c.Class, "hair-segment") || strings.Contains(c.Class, "+div") || strings.Contains(c.Class, "+negzero") {
		cl = append(cl, "class:"+c.Class)
	}
	nt := true
	switch c.Fn {
	case "seg-seg3", "seg-seg2":
		P := c.P
		deg := P[0] == P[1] || P[2] == P[3]
		if deg {
			cl = append(cl, c.Fn+":degenerate")
		} else if s, t, ok := exact.SegSegParams3(e3(P[0]), e3(P[1]), e3(P[2]), e3(P[3])); ok {
			rs, rt := region(s), region(t)
			cl = append(cl, fmt.Sprintf("%s:s%s,t%s", c.Fn, rs, rt))
			if rs == "in" && rt == "in" && c.Fn == "seg-seg3" {
				nt = false // generic skew with interior optimum
			}
		} else {
			cl = append(cl, c.Fn+":parallel")
		}
		var d2 *big.Rat
		if c.Fn == "seg-seg3" {
			d2 = exact.SegSegDist2_3(e3(P[0]), e3(P[1]), e3(P[2]), e3(P[3]))
		} else {
			d2 = exact.SegSegDist2(e2(P[0]), e2(P[1]), e2(P[2]), e2(P[3]))
		}
		if d2.Sign() == 0 {
			cl = append(cl, c.Fn+":touch-or-cross")
			nt = true
		}
	}
	return cl, nt
}

var spec = run.Spec[Case]{ID: "C15", Name: "dist", Gen: genCase, Prop: prop, Classify: classify}

func TestPropDist(t *testing.T) { run.Generated(t, spec) }
func TestRegress(t *testing.T)  { run.Regress(t, spec) }
func TestReplay(t *testing.T) {
	run.ReplayOne(t, spec)
	run.ReplayOne(t, bigSpec)
}
