package c15

import (
	"fmt"
	"math"
	"sort"
	"testing"

	geom "github.com/twpayne/go-geom"
	"github.com/twpayne/go-geom/xy"

	"verifharness/internal/ev"
	"verifharness/internal/exact"
	"verifharness/internal/run"
)

// BigCase is a polyline too long to carry in a case file: vertex i of N lies at
// (10*i, 6*(i%2)) (a zig-zag), extra ordinates are junk; the query point sits one
// unit beside the middle of segment K, so that the nearest point of the whole line
// is interior to that one segment (its end points are more than five units away).
type BigCase struct {
	N      int `json:"n"`
	K      int `json:"k"`
	Stride int `json:"stride"`
}

func propBig(c BigCase) error {
	layout := []geom.Layout{0, 0, geom.XY, geom.XYZ, geom.XYZM, geom.Layout(5)}[c.Stride]
	line := make([]float64, 0, c.N*c.Stride)
	for i := 0; i < c.N; i++ {
		line = append(line, float64(10*i), float64(6*(i%2)))
		for d := 2; d < c.Stride; d++ {
			line = append(line, float64(i%977)*1e7)
		}
	}
	ax, ay := float64(10*c.K), float64(6*(c.K%2))
	bx, by := float64(10*(c.K+1)), float64(6*((c.K+1)%2))
	q := geom.Coord{(ax+bx)/2 + 0.5, (ay+by)/2 + 1}
	// exact distance to the segments around K (every other segment is farther away)
	d2 := exact.PointSegDist2(exact.Pt(q[0], q[1]), exact.Pt(ax, ay), exact.Pt(bx, by))
	for j := c.K - 2; j <= c.K+2; j++ {
		if j < 0 || j+1 >= c.N || j == c.K {
			continue
		}
		d2 = exact.MinRat(d2, exact.PointSegDist2(exact.Pt(q[0], q[1]), exact.Pt(float64(10*j), float64(6*(j%2))), exact.Pt(float64(10*(j+1)), float64(6*((j+1)%2)))))
	}
	got := xy.DistanceFromPointToLineString(layout, q, line)
	tol := 1e-12 * float64(10*c.N)
	if math.IsNaN(got) || !exact.WithinSqrt(got, d2, tol) {
		return fmt.Errorf("DistanceFromPointToLineString(point beside segment %d of a %d-vertex zig-zag, stride %d) = %v, exact %v", c.K, c.N, c.Stride, got, math.Sqrt(exact.Float(d2)))
	}
	return nil
}

var bigSpec = run.Spec[BigCase]{ID: "C15", Name: "bigline", Prop: propBig, Classify: func(c BigCase) ([]string, bool) {
	return []string{"big-polyline"}, true
}}

// TestExhaustiveBig measures the distance to polylines of 2^12 ... 10^5 vertices with
// the nearest point inside a segment at, just before and just after every index that
// is a multiple of a power of two or of a power of ten (where a chunked or parallel
// scan would have its seams).
func TestExhaustiveBig(t *testing.T) {
	shard, shards := run.Shard()
	sizes := []int{4097, 40000, 65537}
	if run.Thorough() {
		sizes = append(sizes, 39999, 40001, 100003, 262145)
	}
	n := 0
	for si, size := range sizes {
		ks := map[int]bool{}
		for _, base := range []int{256, 1000, 1024, 4096, 8192, 10000, 16384, 32768, 65536, 100000} {
			for m := base; m < size; m += base {
				for d := -1; d <= 0; d++ {
					if m+d >= 0 && m+d+1 < size {
						ks[m+d] = true
					}
				}
				if len(ks) > 400 {
					break
				}
			}
		}
		ks[0], ks[size-2], ks[size/2] = true, true, true
		keys := make([]int, 0, len(ks))
		for k := range ks {
			keys = append(keys, k)
		}
		sort.Ints(keys)
		for _, k := range keys {
			n++
			if n%shards != shard {
				continue
			}
			c := BigCase{N: size, K: k, Stride: 2 + (si+k)%4}
			ev.Default.CaseHash(uint64(size)<<32|uint64(k), "bigline", true, func() any { return c })
			if !run.One(t, bigSpec, c) {
				return
			}
		}
	}
}

func TestRegressBig(t *testing.T) { run.Regress(t, bigSpec) }

// TestExhaustiveSizes measures the distance to zig-zag polylines of every number of
// vertices from 2 to 3 000 (thorough: 12 000), the nearest point inside the first, a
// middle and the last segment: whatever length an implementation changes its ways at
// (a block, a pooled buffer, a worker's share), it is in the range.
func TestExhaustiveSizes(t *testing.T) {
	shard, shards := run.Shard()
	hi := 3000
	if run.Thorough() {
		hi = 12000
	}
	for n := 2; n <= hi; n++ {
		if n%shards != shard {
			continue
		}
		for _, k := range []int{0, n / 2, n - 2} {
			if k < 0 || k+1 >= n {
				continue
			}
			c := BigCase{N: n, K: k, Stride: 2 + (n+k)%4}
			ev.Default.CaseHash(uint64(n)<<32|uint64(k)|1<<62, "size-sweep", true, func() any { return c })
			if !run.One(t, bigSpec, c) {
				return
			}
		}
	}
}
