// C18: decimal-digit limits round correctly and keep the output well formed.
package c18

import (
	"bytes"
	"encoding/json"
	"fmt"
	"math"
	"math/big"
	"strconv"
	"strings"
	"testing"

	geom "github.com/twpayne/go-geom"
	"github.com/twpayne/go-geom/encoding/geojson"
	"github.com/twpayne/go-geom/encoding/wkt"
	"pgregory.net/rapid"

	"verifharness/internal/exact"
	"verifharness/internal/gen"
	"verifharness/internal/model"
	"verifharness/internal/refjson"
	"verifharness/internal/refwkt"
	"verifharness/internal/run"
)

func TestMain(m *testing.M) { run.Main(m) }

// Case is a geometry, a format, a digit limit and the GeoJSON option layout.
type Case struct {
	Format    string  `json:"format"` // wkt | geojson
	D         int     `json:"d"`
	G         model.G `json:"g"`
	BBox      bool    `json:"bbox,omitempty"`
	BBoxFirst bool    `json:"bboxFirst,omitempty"`
}

func nudge(v float64, k int) float64 {
	for ; k > 0; k-- {
		v = math.Nextafter(v, math.Inf(1))
	}
	for ; k < 0; k++ {
		v = math.Nextafter(v, math.Inf(-1))
	}
	return v
}

// boundary draws a value at or next to a rounding boundary of d digits.
func boundary(t *rapid.T, d int) float64 {
	p := math.Pow10(d)
	var v float64
	switch rapid.IntRange(0, 7).Draw(t, "bclass") {
	case 0: // k * 10^-d
		v = float64(rapid.Int64Range(-100000, 100000).Draw(t, "k")) / p
	case 1: // (k + 1/2) * 10^-d
		v = (float64(rapid.Int64Range(-100000, 100000).Draw(t, "k")) + 0.5) / p
	case 2: // 0.99...9 and 9.99..95
		n := rapid.IntRange(1, 17).Draw(t, "nines")
		v = 1 - math.Pow10(-n)
		if rapid.Bool().Draw(t, "tens") {
			v *= math.Pow10(rapid.IntRange(0, 6).Draw(t, "pow"))
		}
	case 3: // powers of ten
		v = math.Pow10(rapid.IntRange(-20, 22).Draw(t, "pow"))
	case 4: // tiny values that round to zero, incl. negative
		v = rapid.Float64Range(-1, 1).Draw(t, "tiny") / p * rapid.SampledFrom([]float64{0.49, 0.5, 0.51, 1e-3, 1e-9}).Draw(t, "scale")
	case 5: // huge
		v = rapid.SampledFrom([]float64{1e300, -1e300, 1.7976931348623157e308, 123456789012345678, 1e21, 1e22, 99999999999999.99}).Draw(t, "huge")
	case 6: // -0 and denormals
		v = rapid.SampledFrom([]float64{math.Copysign(0, -1), 0, 5e-324, -5e-324, 2.2250738585072014e-308}).Draw(t, "special")
	default: // trailing-zero shapes: x.y000z
		v = float64(rapid.Int64Range(-1000, 1000).Draw(t, "i")) + float64(rapid.IntRange(0, 9).Draw(t, "t"))/10 + float64(rapid.IntRange(0, 9).Draw(t, "z"))*math.Pow10(-rapid.IntRange(2, 14).Draw(t, "zp"))
	}
	v = nudge(v, rapid.IntRange(-2, 2).Draw(t, "ulps"))
	if rapid.IntRange(0, 3).Draw(t, "neg") == 0 {
		v = -v
	}
	if math.IsInf(v, 0) || math.IsNaN(v) {
		v = math.Copysign(math.MaxFloat64, v)
	}
	return v
}

func genCase(t *rapid.T) Case {
	c := Case{
		Format: rapid.SampledFrom([]string{"wkt", "geojson"}).Draw(t, "format"),
		D:      rapid.SampledFrom([]int{0, 1, 2, 3, 3, 5, 6, 7, 8, 9, 12, 15, 4, 10, 11, 13, 14, 16, 17, 18, 19, 20, 24, 30, 50, 100, 340}).Draw(t, "d"),
	}
	layouts := gen.Layouts4
	if c.Format == "geojson" {
		// (GeoJSON positions may have any number of ordinates: five and six as well)
		layouts = []geom.Layout{geom.XY, geom.XYZ, geom.XYZM, geom.XY, geom.XYZ, geom.XYZM, geom.Layout(5), geom.Layout(6)}
	}
	g := gen.Tree(t, gen.TreeOpts{
		Layouts: layouts, Floats: gen.SmallInt, MaxDepth: 2, MaxParts: 3, MaxPts: 4,
		Valid: true, FixEmptyCollections: true, FixedCollectionPct: 30, PEmpty: 15, LongPct: 1, LongMax: 200, SRID: gen.SRIDs,
	})
	// replace the ordinates: boundary values and general finite values
	repl := func(cs []model.F) {
		for i := range cs {
			if rapid.IntRange(0, 2).Draw(t, "general") == 0 {
				cs[i] = gen.Float(t, gen.Finite)
			} else {
				cs[i] = model.Of(boundary(t, c.D))
			}
		}
	}
	g.Walk(func(x *model.G) {
		repl(x.C0)
		for _, co := range x.C1 {
			repl(co)
		}
		fixRing := func(r [][]model.F) {
			for _, co := range r {
				repl(co)
			}
			if len(r) >= 4 && (x.Kind == model.Polygon || x.Kind == model.MultiPolygon) {
				// closed the way WKT demands (x, y and, where the layout has one, z); an M
				// - and, for GeoJSON, which has no closure rule, a third or fourth ordinate -
				// stays the closing vertex's own half of the time
				n := len(r[0])
				if rapid.Bool().Draw(t, "ownclosing") {
					n = 2
					if c.Format == "wkt" && x.Lay().ZIndex() >= 0 {
						n = 3
					}
				}
				copy(r[len(r)-1][:n], r[0][:n])
			}
		}
		for _, r := range x.C2 {
			fixRing(r)
		}
		for _, p := range x.C3 {
			for _, r := range p {
				fixRing(r)
			}
		}
	})
	c.G = *g
	if c.Format == "geojson" {
		c.BBox = rapid.Bool().Draw(t, "bbox")
		c.BBoxFirst = rapid.Bool().Draw(t, "bboxFirst")
		if g.ReportedLayout().Stride() > 4 {
			c.BBox = false // the library has no bounding box for more than four ordinates (it says so)
		}
	}
	return c
}

var half = big.NewRat(1, 2)

// checkLiteral verifies the shape of one number literal and its distance to x.
func checkLiteral(lit string, x float64, d int, what string) error {
	s := lit
	if strings.ContainsAny(s, "eE") {
		return fmt.Errorf("%s: literal %q uses an exponent", what, lit)
	}
	s = strings.TrimPrefix(s, "-")
	if s == "" || strings.HasPrefix(s, "+") {
		return fmt.Errorf("%s: malformed literal %q", what, lit)
	}
	intPart, frac, hasPoint := strings.Cut(s, ".")
	if intPart == "" {
		return fmt.Errorf("%s: literal %q has no integer part", what, lit)
	}
	if hasPoint {
		if frac == "" {
			return fmt.Errorf("%s: literal %q ends with a dangling decimal point", what, lit)
		}
		if len(frac) > d {
			return fmt.Errorf("%s: literal %q has %d fractional digits, limit %d", what, lit, len(frac), d)
		}
		if strings.HasSuffix(frac, "0") {
			return fmt.Errorf("%s: literal %q has a trailing zero after the decimal point", what, lit)
		}
	}
	for _, r := range intPart + frac {
		if r < '0' || r > '9' {
			return fmt.Errorf("%s: literal %q has a non-digit", what, lit)
		}
	}
	v, ok := new(big.Rat).SetString(lit)
	if !ok {
		return fmt.Errorf("%s: literal %q is not a decimal number", what, lit)
	}
	tol := new(big.Rat).Mul(half, new(big.Rat).SetFrac(big.NewInt(1), new(big.Int).Exp(big.NewInt(10), big.NewInt(int64(d)), nil)))
	diff := exact.Abs(exact.Sub(v, exact.R(x)))
	if diff.Cmp(tol) > 0 {
		return fmt.Errorf("%s: literal %q is %.3g away from the ordinate %v (limit half a unit of 10^-%d)", what, lit, exact.Float(diff), x, d)
	}
	return nil
}

// shape renders only the structure of a model (kinds and counts) for comparison.
func shape(g *model.G) string {
	var sb strings.Builder
	var rec func(x *model.G)
	rec = func(x *model.G) {
		sb.WriteString(x.Kind)
		switch x.Kind {
		case model.Point:
			fmt.Fprintf(&sb, "[%d]", len(x.C0))
		case model.LineString, model.MultiPoint:
			sb.WriteString("[")
			for _, c := range x.C1 {
				fmt.Fprintf(&sb, "%d,", len(c))
			}
			sb.WriteString("]")
		case model.Polygon, model.MultiLineString:
			sb.WriteString("[")
			for _, r := range x.C2 {
				sb.WriteString("[")
				for _, c := range r {
					fmt.Fprintf(&sb, "%d,", len(c))
				}
				sb.WriteString("]")
			}
			sb.WriteString("]")
		case model.MultiPolygon:
			sb.WriteString("[")
			for _, p := range x.C3 {
				sb.WriteString("[")
				for _, r := range p {
					sb.WriteString("[")
					for _, c := range r {
						fmt.Fprintf(&sb, "%d,", len(c))
					}
					sb.WriteString("]")
				}
				sb.WriteString("]")
			}
			sb.WriteString("]")
		case model.GeometryCollection:
			sb.WriteString("(")
			for i := range x.Members {
				rec(&x.Members[i])
				sb.WriteString(";")
			}
			sb.WriteString(")")
		}
	}
	rec(g)
	return sb.String()
}

func ordinates(g *model.G) []float64 {
	var out []float64
	g.EachOrdinate(func(_ int, v model.F) { out = append(out, v.V()) })
	return out
}

func prop(c Case) error {
	g := &c.G
	t, err := model.Build(g, model.RouteSetCoords)
	if err != nil {
		return fmt.Errorf("build: %v", err)
	}
	xs := ordinates(g)
	// two times in three, calls that fail half-way come first (a collection that holds the
	// geometry and then a member no format can express): they leave nothing behind
	if (c.D+len(xs))%3 != 0 {
		bad := geom.NewGeometryCollection()
		if err := bad.Push(t, geom.NewPoint(geom.NoLayout)); err != nil {
			return fmt.Errorf("harness: cannot build the unencodable collection: %v", err)
		}
		_ = run.Safe(func() error {
			if txt, err := wkt.Marshal(bad, wkt.EncodeOptionWithMaxDecimalDigits(c.D)); err == nil && c.Format == "wkt" {
				return fmt.Errorf("wkt.Marshal of a collection with a NoLayout member succeeded: %q", clip(txt))
			}
			_, _ = wkt.NewEncoder(wkt.EncodeOptionWithMaxDecimalDigits((c.D + 3) % 16)).Encode(bad)
			_, _ = geojson.Marshal(bad, geojson.EncodeGeometryWithMaxDecimalDigits(c.D), geojson.EncodeGeometryWithBBox())
			_, _ = geojson.Marshal(geom.NewLinearRingFlat(geom.XY, []float64{0.123456789, 1, 2, 3, 4, 5, 0.123456789, 1}), geojson.EncodeGeometryWithMaxDecimalDigits(c.D))
			return nil
		})
	}
	if c.Format == "wkt" {
		// one option slice, used for two calls (callers keep their options around)
		wopts := []wkt.EncodeOption{wkt.EncodeOptionWithMaxDecimalDigits(c.D)}
		first, err := wkt.Marshal(t, wopts...)
		if err != nil {
			return fmt.Errorf("wkt.Marshal: %v", err)
		}
		text, err := wkt.Marshal(t, wopts...)
		if err != nil || text != first {
			return fmt.Errorf("wkt.Marshal with the same option slice a second time: %q, %v; the first time %q", clip(text), err, clip(first))
		}
		// the digit limit is the encoder's current one, however it got there: given to
		// NewEncoder, applied to an encoder that exists already (an EncodeOption is a
		// function of the encoder), applied over another limit, applied to the zero value
		opt := wkt.EncodeOptionWithMaxDecimalDigits(c.D)
		other := -1
		if (c.D+len(xs))%2 == 0 {
			other = (c.D + 7) % 19
		}
		e1 := wkt.NewEncoder(wopts...)
		e2 := wkt.NewEncoder()
		opt(e2)
		e3 := wkt.NewEncoder(wkt.EncodeOptionWithMaxDecimalDigits(other))
		if _, err := e3.Encode(t); err != nil {
			return fmt.Errorf("Encode with limit %d: %v", other, err)
		}
		opt(e3)
		var e4 wkt.Encoder
		opt(&e4)
		for i, e := range []*wkt.Encoder{e1, e2, e3, &e4} {
			how := []string{"NewEncoder(option)", "NewEncoder() with the option applied afterwards", fmt.Sprintf("an encoder that had the limit %d and encoded with it, with the option applied afterwards", other), "the zero Encoder with the option applied"}[i]
			got, err := e.Encode(t)
			if err != nil || got != text {
				return fmt.Errorf("%s, limit %d: %q, %v; wkt.Marshal with the option gives %q", how, c.D, clip(got), err, clip(text))
			}
			// the text returned stays what it is when the same encoder writes another one
			was := strings.Clone(got)
			if _, err := e.Encode(geom.NewPointFlat(geom.XY, []float64{0.123456789, -2})); err != nil {
				return fmt.Errorf("%s: Encode of a plain point: %v", how, err)
			}
			if got != was {
				return fmt.Errorf("%s: the text returned changed when the same encoder encoded a point afterwards: now %q, was %q", how, clip(got), clip(was))
			}
		}
		// the caller moves the geometry in place (every ordinate v becomes v/2 + 0.125, as a
		// transform applied to FlatCoords does) and encodes it again with the same limit:
		// the text is the one a geometry built anew from the moved coordinates gets
		{
			move := func(v float64) float64 { return v/2 + 0.125 }
			if before, err := wkt.Marshal(t, wopts...); err != nil || before != text {
				return fmt.Errorf("wkt.Marshal, limit %d, once more: %q, %v; before %q", c.D, clip(before), err, clip(text))
			}
			for _, lf := range model.Leaves(t) {
				for i := range lf.Flat {
					lf.Flat[i] = move(lf.Flat[i])
				}
			}
			fresh, err := model.Build(g.Mapped(move), model.RouteSetCoords)
			if err != nil {
				return fmt.Errorf("build of the moved geometry: %v", err)
			}
			wantMoved, err := wkt.NewEncoder(wkt.EncodeOptionWithMaxDecimalDigits(c.D)).Encode(fresh)
			if err != nil {
				return fmt.Errorf("Encode of the moved geometry built anew: %v", err)
			}
			if got, err := wkt.Marshal(t, wopts...); err != nil || got != wantMoved {
				return fmt.Errorf("wkt.Marshal, limit %d, after the geometry was moved in place: %q, %v; the same coordinates built anew give %q", c.D, clip(got), err, clip(wantMoved))
			}
			if got, err := e1.Encode(t); err != nil || got != wantMoved {
				return fmt.Errorf("an encoder that wrote the geometry before, limit %d, after the geometry was moved in place: %q, %v; the same coordinates built anew give %q", c.D, clip(got), err, clip(wantMoved))
			}
			// and back (the steps below look at the geometry as it was)
			back := model.Leaves(t)
			orig, err := model.Build(g, model.RouteSetCoords)
			if err != nil {
				return fmt.Errorf("build: %v", err)
			}
			for k, lf := range model.Leaves(orig) {
				copy(back[k].Flat, lf.Flat)
			}
		}
		// after all that, no option given means no limit: Marshal without options and a new
		// encoder without options write the same text (and it says the ordinates exactly)
		plain, err := wkt.Marshal(t)
		if err != nil {
			return fmt.Errorf("wkt.Marshal without options: %v", err)
		}
		if fresh, err := wkt.NewEncoder().Encode(t); err != nil || fresh != plain {
			return fmt.Errorf("wkt.Marshal without options after calls with a limit of %d: %q; a new encoder without options: %q, %v", c.D, clip(plain), clip(fresh), err)
		}
		if ptoks, err := refwkt.Tokens(plain); err == nil {
			i := 0
			for _, tk := range ptoks {
				if tk.Kind != refwkt.TNum {
					continue
				}
				if v, err := strconv.ParseFloat(tk.Text, 64); i < len(xs) && (err != nil || v != xs[i]) {
					return fmt.Errorf("wkt.Marshal without options after calls with a limit of %d: number %d is %q, the ordinate %v", c.D, i, tk.Text, xs[i])
				}
				i++
			}
		}
		toks, err := refwkt.Tokens(text)
		if err != nil {
			return fmt.Errorf("output is not tokenisable WKT: %v\n%s", err, clip(text))
		}
		i := 0
		for _, tk := range toks {
			if tk.Kind != refwkt.TNum {
				continue
			}
			if i >= len(xs) {
				return fmt.Errorf("more numbers in the output than ordinates in the input\n%s", clip(text))
			}
			if err := checkLiteral(tk.Text, xs[i], c.D, fmt.Sprintf("ordinate %d", i)); err != nil {
				return fmt.Errorf("%v\n%s", err, clip(text))
			}
			i++
		}
		if i != len(xs) {
			return fmt.Errorf("%d numbers in the output, %d ordinates in the input\n%s", i, len(xs), clip(text))
		}
		rm, err := refwkt.Read(text)
		if err != nil {
			return fmt.Errorf("reference reader rejects the output: %v\n%s", err, clip(text))
		}
		if shape(rm) != shape(g) || rm.ReportedLayout() != g.ReportedLayout() {
			return fmt.Errorf("structure changed: %s (%v) vs input %s (%v)\n%s", shape(rm), rm.ReportedLayout(), shape(g), g.ReportedLayout(), clip(text))
		}
		back, err := wkt.Unmarshal(text)
		if err != nil {
			return fmt.Errorf("the library's parser rejects the output: %v\n%s", err, clip(text))
		}
		bm, err := model.FromGeom(back)
		if err != nil {
			return err
		}
		if shape(bm) != shape(g) {
			return fmt.Errorf("structure changed after re-parsing: %s vs %s", shape(bm), shape(g))
		}
		return nil
	}
	// geojson
	opts := []geojson.EncodeGeometryOption{geojson.EncodeGeometryWithMaxDecimalDigits(c.D)}
	withBBox := c.BBox && bboxFinite(g)
	if withBBox {
		if c.BBoxFirst {
			opts = append([]geojson.EncodeGeometryOption{geojson.EncodeGeometryWithBBox()}, opts...)
		} else {
			opts = append(opts, geojson.EncodeGeometryWithBBox())
		}
	}
	first, err := geojson.Marshal(t, opts...)
	if err != nil {
		return fmt.Errorf("geojson.Marshal: %v", err)
	}
	// the same option slice a second time (callers keep their options around)
	data, err := geojson.Marshal(t, opts...)
	if err != nil || !bytes.Equal(data, first) {
		return fmt.Errorf("geojson.Marshal with the same option slice a second time: %s, %v; the first time %s", clip(string(data)), err, clip(string(first)))
	}
	// the intermediate object kept across another digit-limited encoding of another
	// geometry: what Encode returned must not change afterwards
	kept, err := geojson.Encode(t, opts...)
	if err != nil {
		return fmt.Errorf("geojson.Encode: %v", err)
	}
	other := geom.NewLineStringFlat(geom.XY, []float64{123456.789, -98765.4321, 0.5, 1e-7, -2.25, 77})
	if _, err := geojson.Marshal(other, geojson.EncodeGeometryWithMaxDecimalDigits(c.D), geojson.EncodeGeometryWithBBox()); err != nil {
		return fmt.Errorf("geojson.Marshal of an ordinary line string: %v", err)
	}
	if keptData, err := json.Marshal(kept); err != nil || !bytes.Equal(keptData, first) {
		return fmt.Errorf("the *Geometry returned by geojson.Encode, marshalled after another encoding: %s, %v; Marshal gave %s", clip(string(keptData)), err, clip(string(first)))
	}
	if !json.Valid(data) {
		return fmt.Errorf("invalid JSON: %s", clip(string(data)))
	}
	rg, err := refjson.Parse(data)
	if err != nil {
		return fmt.Errorf("reference reader rejects the output: %v\n%s", err, clip(string(data)))
	}
	nums := rg.Numbers()
	if len(nums) != len(xs) {
		return fmt.Errorf("%d numbers in the output, %d ordinates in the input\n%s", len(nums), len(xs), clip(string(data)))
	}
	for i, n := range nums {
		if err := checkLiteral(string(n), xs[i], c.D, fmt.Sprintf("ordinate %d", i)); err != nil {
			return fmt.Errorf("%v\n%s", err, clip(string(data)))
		}
	}
	rm, err := rg.Model()
	if err != nil {
		return fmt.Errorf("reference reader cannot interpret the output: %v\n%s", err, clip(string(data)))
	}
	if shapeJSON(rm) != shapeJSON(g) {
		return fmt.Errorf("structure changed: %s vs input %s\n%s", shapeJSON(rm), shapeJSON(g), clip(string(data)))
	}
	if withBBox {
		if !rg.HasBBox {
			return fmt.Errorf("bbox requested but missing\n%s", clip(string(data)))
		}
		lo, hi := bboxOf(g)
		want := append(lo, hi...)
		if len(rg.BBox) != len(want) {
			return fmt.Errorf("bbox has %d numbers, want %d\n%s", len(rg.BBox), len(want), clip(string(data)))
		}
		for i, n := range rg.BBox {
			if err := checkLiteral(string(n), want[i], c.D, fmt.Sprintf("bbox[%d]", i)); err != nil {
				return fmt.Errorf("%v\n%s", err, clip(string(data)))
			}
		}
	} else if rg.HasBBox {
		return fmt.Errorf("bbox present but not requested")
	}
	return nil
}

// shapeJSON is shape with empty multipoint members normalised (null or []).
func shapeJSON(g *model.G) string {
	c := g.Clone()
	c.Walk(func(x *model.G) {
		if x.Kind == model.MultiPoint {
			for i, m := range x.C1 {
				if len(m) == 0 {
					x.C1[i] = nil
				}
			}
		}
	})
	return shape(c)
}

func bboxOf(g *model.G) (lo, hi []float64) {
	l := g.ReportedLayout()
	n := 2
	if l.ZIndex() >= 0 {
		n = 3
	}
	lo, hi = make([]float64, n), make([]float64, n)
	for i := range lo {
		lo[i], hi[i] = math.Inf(1), math.Inf(-1)
	}
	g.Walk(func(x *model.G) {
		if x.IsCollection() {
			return
		}
		zi := x.Lay().ZIndex()
		x.EachOrdinate(func(d int, v model.F) {
			k := -1
			switch {
			case d < 2:
				k = d
			case d == zi && n == 3:
				k = 2
			}
			if k >= 0 {
				lo[k] = math.Min(lo[k], v.V())
				hi[k] = math.Max(hi[k], v.V())
			}
		})
	})
	return
}

func bboxFinite(g *model.G) bool {
	if g.Empty() {
		return false
	}
	lo, hi := bboxOf(g)
	for i := range lo {
		if hi[i] < lo[i] {
			return false
		}
	}
	return true
}

func clip(s string) string {
	if len(s) > 700 {
		return s[:700] + "..."
	}
	return s
}

func classify(c Case) ([]string, bool) {
	cl := []string{"format:" + c.Format, fmt.Sprintf("d=%d", c.D)}
	nt := false
	p := new(big.Int).Exp(big.NewInt(10), big.NewInt(int64(c.D)), nil)
	for _, x := range ordinates(&c.G) {
		r := new(big.Rat).Mul(exact.R(x), new(big.Rat).SetInt(p))
		if !r.IsInt() {
			nt = true
			break
		}
	}
	if c.BBox && bboxFinite(&c.G) {
		cl = append(cl, "with-bbox")
	}
	if c.G.IsCollection() {
		cl = append(cl, "collection")
	}
	return cl, nt
}

var spec = run.Spec[Case]{ID: "C18", Name: "digits", Gen: genCase, Prop: prop, Classify: classify}

func TestPropDigits(t *testing.T) { run.Generated(t, spec) }
func TestRegress(t *testing.T)    { run.Regress(t, spec) }
func TestReplay(t *testing.T) {
	run.ReplayOne(t, spec)
	run.ReplayOne(t, concSpec)
}
