// C13: the convex hull is the exact convex hull of the input points.
package c13

import (
	"fmt"
	"github.com/twpayne/go-geom/bigxy"
	"math"
	"sort"
	"strconv"
	"strings"
	"testing"

	geom "github.com/twpayne/go-geom"
	"github.com/twpayne/go-geom/xy"
	"pgregory.net/rapid"

	"verifharness/internal/ev"
	"verifharness/internal/exact"
	"verifharness/internal/model"
	"verifharness/internal/run"
)

func TestMain(m *testing.M) { run.Main(m) }

// Case is a list of integer points, a layout and the entry point used.
type Case struct {
	Shape  string     `json:"shape"`
	Layout int        `json:"layout"`
	Via    string     `json:"via"` // flat | multipoint | linestring | polygon
	Pts    [][2]int64 `json:"pts"`
	// Extra selects the extra ordinates (Z, M): "" = distinct per input point
	// (provenance observable), "const:k" = the small integer k for every point,
	// "x" / "y" = a copy of the point's own x / y, "mix" = small integers derived
	// from the index; the last three put values of the same range as x,y next to them.
	Extra string `json:"extra,omitempty"`
	// PtsF, when present, replaces Pts: points with arbitrary finite float64 ordinates.
	PtsF [][2]model.F `json:"ptsf,omitempty"`
	// NegZero: a zero x or y of every other point is written as -0 (the same position
	// as 0: the two are one point of the set, whichever sign the input carries).
	NegZero bool `json:"negZero,omitempty"`
	// Order records how the generated set was put in order ("" = as drawn); the
	// points themselves are already in that order.
	Order string `json:"order,omitempty"`
}

// the first four are used round-robin by the exhaustive loop; the wider ones are drawn
var layouts = []geom.Layout{geom.XY, geom.XYZ, geom.XYM, geom.XYZM, geom.Layout(5), geom.Layout(6)}

func genPts(t *rapid.T) (string, [][2]int64) {
	shape := rapid.SampledFrom([]string{"lattice", "uniform", "circle", "collinear", "dups", "lattice", "two-lines", "dense", "dense", "bezout-strip"}).Draw(t, "shape")
	var n int
	switch rapid.IntRange(0, 5).Draw(t, "sizeclass") {
	case 0:
		n = rapid.IntRange(1, 3).Draw(t, "n")
	case 1:
		n = rapid.IntRange(4, 12).Draw(t, "n")
	case 2:
		n = rapid.IntRange(48, 53).Draw(t, "n")
	case 3:
		n = rapid.IntRange(51, 90).Draw(t, "n")
	case 4:
		n = rapid.IntRange(100, 200).Draw(t, "n")
	default:
		n = rapid.IntRange(13, 47).Draw(t, "n")
	}
	offx := rapid.Int64Range(-1<<20, 1<<20).Draw(t, "offx")
	offy := rapid.Int64Range(-1<<20, 1<<20).Draw(t, "offy")
	if rapid.Bool().Draw(t, "nooffset") {
		offx, offy = 0, 0
	}
	pts := make([][2]int64, 0, n)
	switch shape {
	case "lattice":
		side := rapid.SampledFrom([]int64{3, 3, 4, 5, 8, 16}).Draw(t, "side")
		for i := 0; i < n; i++ {
			pts = append(pts, [2]int64{offx + rapid.Int64Range(0, side-1).Draw(t, "x"), offy + rapid.Int64Range(0, side-1).Draw(t, "y")})
		}
	case "dense":
		// more than 50 distinct points with small coordinates: the reduction path on
		// inputs where ordinates of different dimensions easily coincide
		a := rapid.Int64Range(5, 9).Draw(t, "a")
		b := rapid.Int64Range(7, 40).Draw(t, "b")
		if n < 60 {
			n = 60 + n
		}
		offx, offy = 0, 0
		for i := 0; i < n; i++ {
			x, y := rapid.Int64Range(0, a).Draw(t, "x"), rapid.Int64Range(0, b).Draw(t, "y")
			if rapid.Bool().Draw(t, "swapxy") && i == 0 {
				a, b = b, a
			}
			pts = append(pts, [2]int64{x, y})
		}
	case "bezout-strip":
		// points a + m*(dx,dy) + s*(u,v), s in {-1,0,1}, where dx, dy are coprime whole
		// numbers of a drawn width (8..30 bits) and dx*v - dy*u = 1: a strip one lattice
		// step wide along a long direction. Every turn has a determinant of a few units
		// made of products of twice the width, which a float64 determinant rounds from 27
		// bits on; the extreme points are decided by those signs.
		k := uint(rapid.SampledFrom([]int{8, 16, 24, 25, 26, 27, 28, 29, 30}).Draw(t, "bk"))
		lo, hi := int64(1)<<(k-1), int64(1)<<k-1
		dx, dy := rapid.Int64Range(lo, hi).Draw(t, "bdx"), rapid.Int64Range(lo, hi).Draw(t, "bdy")
		x0, y0, x1, y1, r0, r1 := int64(1), int64(0), int64(0), int64(1), dx, dy
		for r1 != 0 {
			q := r0 / r1
			r0, r1 = r1, r0-q*r1
			x0, x1 = x1, x0-q*x1
			y0, y1 = y1, y0-q*y1
		}
		dx, dy = dx/r0, dy/r0
		u, v := -y0, x0
		if rapid.Bool().Draw(t, "bneg") {
			dx, u = -dx, -u
		}
		offx, offy = -dx/2, -dy/2 // around the origin: every ordinate within the width
		if n > 12 {
			n = 4 + n%9
		}
		for i := 0; i < n; i++ {
			m := rapid.Int64Range(0, 1).Draw(t, "bm")
			sdet := rapid.Int64Range(-1, 1).Draw(t, "bs")
			pts = append(pts, [2]int64{offx + m*dx + sdet*u, offy + m*dy + sdet*v})
		}
	case "uniform":
		k := uint(rapid.IntRange(2, 20).Draw(t, "k"))
		for i := 0; i < n; i++ {
			pts = append(pts, [2]int64{offx + rapid.Int64Range(0, 1<<k).Draw(t, "x"), offy + rapid.Int64Range(0, 1<<k).Draw(t, "y")})
		}
	case "circle":
		r := float64(rapid.Int64Range(5, 1<<19).Draw(t, "r"))
		ph := rapid.Float64Range(0, 7).Draw(t, "phase")
		for i := 0; i < n; i++ {
			th := ph + 2*math.Pi*float64(i)/float64(n)
			if rapid.IntRange(0, 9).Draw(t, "jit") == 0 {
				th = rapid.Float64Range(0, 7).Draw(t, "theta")
			}
			rr := r
			if rapid.IntRange(0, 5).Draw(t, "inner") == 0 {
				rr = r * rapid.Float64Range(0, 1).Draw(t, "rfrac")
			}
			pts = append(pts, [2]int64{offx + int64(math.Round(rr*math.Cos(th))), offy + int64(math.Round(rr*math.Sin(th)))})
		}
	case "collinear":
		dx := rapid.Int64Range(-3, 3).Draw(t, "dx")
		dy := rapid.Int64Range(-3, 3).Draw(t, "dy")
		if dx == 0 && dy == 0 {
			dy = 1
		}
		span := int64(rapid.SampledFrom([]int{2, 5, 60, 300}).Draw(t, "span"))
		for i := 0; i < n; i++ {
			k := rapid.Int64Range(-span, span).Draw(t, "k")
			pts = append(pts, [2]int64{offx + k*dx, offy + k*dy})
		}
		// optionally one point off the line
		if n >= 3 && rapid.IntRange(0, 3).Draw(t, "offline") == 0 {
			i := rapid.IntRange(0, n-1).Draw(t, "which")
			pts[i][0] += rapid.Int64Range(-2, 2).Draw(t, "ox")
			pts[i][1] += rapid.Int64Range(-2, 2).Draw(t, "oy")
		}
		// first point extreme or interior by a draw
		if rapid.Bool().Draw(t, "firstExtreme") {
			sort.Slice(pts, func(i, j int) bool {
				if pts[i][1] != pts[j][1] {
					return pts[i][1] > pts[j][1]
				}
				return pts[i][0] > pts[j][0]
			})
			if rapid.Bool().Draw(t, "rev") {
				for i, j := 0, len(pts)-1; i < j; i, j = i+1, j-1 {
					pts[i], pts[j] = pts[j], pts[i]
				}
			}
		}
	case "dups":
		m := rapid.IntRange(1, 4).Draw(t, "distinct")
		base := make([][2]int64, m)
		for i := range base {
			base[i] = [2]int64{offx + rapid.Int64Range(-4, 4).Draw(t, "x"), offy + rapid.Int64Range(-4, 4).Draw(t, "y")}
		}
		for i := 0; i < n; i++ {
			pts = append(pts, base[rapid.IntRange(0, m-1).Draw(t, "pick")])
		}
	case "two-lines":
		// points on two crossing lines: many collinear runs on the hull boundary
		for i := 0; i < n; i++ {
			k := rapid.Int64Range(-20, 20).Draw(t, "k")
			if rapid.Bool().Draw(t, "line") {
				pts = append(pts, [2]int64{offx + k, offy})
			} else {
				pts = append(pts, [2]int64{offx + k, offy + k})
			}
		}
	}
	return shape, pts
}

// genPtsF: point sets with float ordinates. Nearly collinear runs (points a few
// ulps off a segment), circles, uniform clouds, a small shape at a large offset,
// and sets at the two ends of the float64 range.
func genPtsF(t *rapid.T) (string, [][2]model.F) {
	shape := rapid.SampledFrom([]string{"f-near-collinear", "f-near-collinear", "f-circle", "f-uniform", "f-offset", "f-tiny", "f-huge", "f-two-near-lines", "f-lattice-scaled"}).Draw(t, "fshape")
	var n int
	switch rapid.IntRange(0, 4).Draw(t, "sizeclass") {
	case 0:
		n = rapid.IntRange(1, 4).Draw(t, "n")
	case 1:
		n = rapid.IntRange(5, 20).Draw(t, "n")
	case 2:
		n = rapid.IntRange(48, 53).Draw(t, "n")
	case 3:
		n = rapid.IntRange(54, 130).Draw(t, "n")
	default:
		n = rapid.IntRange(21, 47).Draw(t, "n")
	}
	fin := func(v float64) float64 {
		switch {
		case math.IsNaN(v):
			return 0
		case math.IsInf(v, 0):
			return math.Copysign(math.MaxFloat64, v)
		}
		return v
	}
	nudge := func(v float64, l string) float64 {
		k := rapid.IntRange(-2, 2).Draw(t, l)
		for ; k > 0; k-- {
			v = math.Nextafter(v, math.Inf(1))
		}
		for ; k < 0; k++ {
			v = math.Nextafter(v, math.Inf(-1))
		}
		return fin(v)
	}
	scale := 1.0
	switch shape {
	case "f-tiny":
		scale = math.Ldexp(1, rapid.SampledFrom([]int{-1070, -1040, -1022, -1000, -600, -530}).Draw(t, "se"))
	case "f-huge":
		scale = math.Ldexp(1, rapid.SampledFrom([]int{500, 511, 530, 1000, 1018}).Draw(t, "se"))
	}
	ox, oy := 0.0, 0.0
	if shape == "f-offset" {
		ox = math.Ldexp(float64(rapid.IntRange(-999, 999).Draw(t, "ox")), rapid.IntRange(10, 40).Draw(t, "oxe"))
		oy = math.Ldexp(float64(rapid.IntRange(-999, 999).Draw(t, "oy")), rapid.IntRange(10, 40).Draw(t, "oye"))
	}
	u := func(l string) float64 { return rapid.Float64Range(-8, 8).Draw(t, l) }
	var pts [][2]model.F
	add := func(x, y float64) { pts = append(pts, [2]model.F{model.Of(fin(x)), model.Of(fin(y))}) }
	switch shape {
	case "f-near-collinear", "f-two-near-lines":
		lines := 1
		if shape == "f-two-near-lines" {
			lines = 2
		}
		type seg struct{ ax, ay, bx, by float64 }
		var segs []seg
		for i := 0; i < lines; i++ {
			segs = append(segs, seg{u("ax"), u("ay"), u("bx"), u("by")})
		}
		for i := 0; i < n; i++ {
			sg := segs[i%lines]
			tt := rapid.SampledFrom([]float64{0, 1, 0.5, 0.25, 0.75}).Draw(t, "t")
			if rapid.Bool().Draw(t, "trand") {
				tt = rapid.Float64Range(0, 1).Draw(t, "tv")
			}
			add(nudge(sg.ax+tt*(sg.bx-sg.ax), "nx"), nudge(sg.ay+tt*(sg.by-sg.ay), "ny"))
		}
		if n >= 3 && rapid.IntRange(0, 2).Draw(t, "offline") == 0 {
			add(u("px"), u("py"))
		}
	case "f-lattice-scaled":
		// a small integer lattice (many exactly collinear and coincident points) times an
		// exact power of two at either end of the float64 range
		k := rapid.SampledFrom([]int{-1074, -1073, -1060, -1022, -1000, -540, -500, 0, 500, 511, 540, 1000, 1019}).Draw(t, "lk")
		side := rapid.SampledFrom([]int{3, 3, 4, 5, 8}).Draw(t, "lside")
		for i := 0; i < n; i++ {
			add(math.Ldexp(float64(rapid.IntRange(-side, side).Draw(t, "lx")), k), math.Ldexp(float64(rapid.IntRange(-side, side).Draw(t, "ly")), k))
		}
	case "f-circle":
		r := rapid.Float64Range(0.5, 1000).Draw(t, "r")
		for i := 0; i < n; i++ {
			th := 2 * math.Pi * float64(i) / float64(n)
			if rapid.IntRange(0, 7).Draw(t, "jit") == 0 {
				th = rapid.Float64Range(0, 7).Draw(t, "theta")
			}
			add(r*math.Cos(th), r*math.Sin(th))
		}
	default:
		for i := 0; i < n; i++ {
			x, y := u("x"), u("y")
			if i > 0 && rapid.IntRange(0, 5).Draw(t, "dup") == 0 {
				q := pts[rapid.IntRange(0, i-1).Draw(t, "dupof")]
				add(q[0].V(), q[1].V())
				continue
			}
			add(ox+x*scale, oy+y*scale)
		}
	}
	return shape, pts
}

// reorder puts a point set in an order a caller's data often already has: sorted by
// (x,y) or (y,x), ascending or descending, optionally without duplicates. less
// compares points i and j by (first, second) ordinate; swap and trunc edit the set.
func reorder(t *rapid.T, n int, key func(i, d int) float64, swap func(i, j int), trunc func(n int)) string {
	how := rapid.SampledFrom([]string{"", "", "", "", "asc-xy", "asc-xy-distinct", "asc-yx", "desc-xy", "desc-yx-distinct"}).Draw(t, "order")
	if how == "" || n < 2 {
		return ""
	}
	d0, d1 := 0, 1
	if strings.Contains(how, "yx") {
		d0, d1 = 1, 0
	}
	sgn := 1.0
	if strings.HasPrefix(how, "desc") {
		sgn = -1
	}
	cmp := func(i, j int) float64 {
		if a, b := key(i, d0), key(j, d0); a != b {
			return sgn * (a - b)
		}
		a, b := key(i, d1), key(j, d1)
		if a == b {
			return 0
		}
		if a < b {
			return -sgn
		}
		return sgn
	}
	// insertion sort through swap (n <= a few hundred)
	for i := 1; i < n; i++ {
		for j := i; j > 0 && cmp(j-1, j) > 0; j-- {
			swap(j-1, j)
		}
	}
	if strings.HasSuffix(how, "distinct") {
		w := 1
		for i := 1; i < n; i++ {
			if cmp(w-1, i) != 0 {
				swap(w, i)
				w++
			}
		}
		trunc(w)
	}
	return how
}

func genCase(t *rapid.T) Case {
	c := genCase0(t)
	if c.PtsF != nil {
		pts := c.PtsF
		c.Order = reorder(t, len(pts), func(i, d int) float64 { return pts[i][d].V() }, func(i, j int) { pts[i], pts[j] = pts[j], pts[i] }, func(n int) { c.PtsF = pts[:n] })
	} else {
		pts := c.Pts
		c.Order = reorder(t, len(pts), func(i, d int) float64 { return float64(pts[i][d]) }, func(i, j int) { pts[i], pts[j] = pts[j], pts[i] }, func(n int) { c.Pts = pts[:n] })
	}
	return c
}

func genCase0(t *rapid.T) Case {
	if rapid.IntRange(0, 3).Draw(t, "floatmode") == 0 {
		shape, pts := genPtsF(t)
		return Case{
			Shape:  shape,
			Layout: int(rapid.SampledFrom(layouts).Draw(t, "layout")),
			Via:    rapid.SampledFrom([]string{"flat", "flat", "multipoint", "linestring", "polygon", "polygon-rings", "multilinestring", "multipolygon"}).Draw(t, "via"),
			PtsF:   pts,
			Extra:  rapid.SampledFrom([]string{"", "", "const:0", "const:1", "mix", "nan"}).Draw(t, "extra"),
		}
	}
	shape, pts := genPts(t)
	return Case{
		Shape:   shape,
		Layout:  int(rapid.SampledFrom(layouts).Draw(t, "layout")),
		Via:     rapid.SampledFrom([]string{"flat", "flat", "multipoint", "linestring", "polygon", "polygon-rings", "multilinestring", "multipolygon"}).Draw(t, "via"),
		Pts:     pts,
		Extra:   rapid.SampledFrom([]string{"", "", "const:0", "const:1", "const:3", "const:5", "x", "y", "mix", "nan", "nan"}).Draw(t, "extra"),
		NegZero: rapid.IntRange(0, 3).Draw(t, "negzero") == 0,
	}
}

func cross(o, a, b [2]int64) int64 {
	return (a[0]-o[0])*(b[1]-o[1]) - (a[1]-o[1])*(b[0]-o[0])
}

// hullInt is Andrew's monotone chain with strict turns in exact int64
// arithmetic (|coordinates| < 2^29): the extreme points in counter-clockwise order.
func hullInt(pts [][2]int64) [][2]int64 {
	u := append([][2]int64{}, pts...)
	sort.Slice(u, func(i, j int) bool {
		if u[i][0] != u[j][0] {
			return u[i][0] < u[j][0]
		}
		return u[i][1] < u[j][1]
	})
	w := u[:0]
	for _, p := range u {
		if len(w) == 0 || w[len(w)-1] != p {
			w = append(w, p)
		}
	}
	u = w
	if len(u) <= 2 {
		return u
	}
	build := func(order [][2]int64) [][2]int64 {
		var h [][2]int64
		for _, p := range order {
			for len(h) >= 2 && cross(h[len(h)-2], h[len(h)-1], p) <= 0 {
				h = h[:len(h)-1]
			}
			h = append(h, p)
		}
		return h
	}
	lower := build(u)
	rev := make([][2]int64, len(u))
	for i := range u {
		rev[i] = u[len(u)-1-i]
	}
	upper := build(rev)
	return append(lower[:len(lower)-1], upper[:len(upper)-1]...)
}

// xyOf returns the case's points as float64 pairs (integer or float mode).
func xyOf(c Case) [][2]float64 {
	if len(c.PtsF) > 0 {
		out := make([][2]float64, len(c.PtsF))
		for i, p := range c.PtsF {
			out[i] = [2]float64{p[0].V(), p[1].V()}
		}
		return out
	}
	out := make([][2]float64, len(c.Pts))
	for i, p := range c.Pts {
		out[i] = [2]float64{float64(p[0]), float64(p[1])}
	}
	return out
}

func flatOf(c Case) []float64 {
	stride := geom.Layout(c.Layout).Stride()
	xs := xyOf(c)
	flat := make([]float64, 0, len(xs)*stride)
	for i, q := range xs {
		p := [2]int64{int64(i), int64(i + 1)}
		if len(c.Pts) > 0 {
			p = c.Pts[i]
		}
		if c.NegZero && i%2 == 1 {
			for d := 0; d < 2; d++ {
				if q[d] == 0 {
					q[d] = math.Copysign(0, -1)
				}
			}
		}
		flat = append(flat, q[0], q[1])
		for d := 2; d < stride; d++ {
			switch {
			case strings.HasPrefix(c.Extra, "const:"):
				k, _ := strconv.Atoi(strings.TrimPrefix(c.Extra, "const:"))
				flat = append(flat, float64(k))
			case c.Extra == "x":
				flat = append(flat, float64(p[d%2]))
			case c.Extra == "y":
				flat = append(flat, float64(p[(d+1)%2]))
			case c.Extra == "mix":
				flat = append(flat, float64((i*7+d*3)%9))
			case c.Extra == "nan":
				// a Z or M is often "no value": NaN for a third of the points, an infinity
				// for another third (the hull is a matter of x and y)
				switch (i + d) % 3 {
				case 0:
					flat = append(flat, math.NaN())
				case 1:
					flat = append(flat, math.Inf(1-2*(i%2)))
				default:
					flat = append(flat, float64(1000*d+i)+0.5)
				}
			default:
				// distinct extra ordinates per input point: provenance is observable
				flat = append(flat, float64(1000*d+i)+0.5)
			}
		}
	}
	return flat
}

func prop(c Case) error {
	// the exact-arithmetic package's other exported function runs first (whatever it
	// returns or panics with): it shares nothing with what is measured here
	_ = run.Safe(func() error {
		_ = bigxy.Intersection(geom.Coord{0.1, 0.7}, geom.Coord{3.3, -1.9}, geom.Coord{-2.5, 0.3}, geom.Coord{4.7, 1.1})
		return nil
	})
	return propMain(c)
}

func propMain(c Case) error {
	buf := flatOf(c)
	if err := hullOf(c, buf); err != nil {
		return err
	}
	if len(c.PtsF) > 0 {
		return nil
	}
	// the same array refilled with other points (the set reflected through the origin
	// and shifted) and handed over again: nothing may be remembered about the array
	// (first handed over twice more as it is - what is remembered may only be used from
	// the second or third time on - then refilled keeping its first and last point, then
	// refilled entirely)
	for i := 0; i < 2; i++ {
		_ = xy.ConvexHullFlat(geom.Layout(c.Layout), buf)
	}
	c1 := c
	c1.Pts = make([][2]int64, len(c.Pts))
	for i, p := range c.Pts {
		c1.Pts[i] = [2]int64{3 - p[0], -7 - p[1]}
		if i == 0 || i == len(c.Pts)-1 {
			c1.Pts[i] = p
		}
	}
	copy(buf, flatOf(c1))
	if err := hullOf(c1, buf); err != nil {
		return fmt.Errorf("the input array refilled with all but the first and last point reflected and handed over again: %v", err)
	}
	c2 := c
	c2.Pts = make([][2]int64, len(c.Pts))
	for i, p := range c.Pts {
		c2.Pts[i] = [2]int64{3 - p[0], -7 - p[1]}
	}
	copy(buf, flatOf(c2))
	if err := hullOf(c2, buf); err != nil {
		return fmt.Errorf("the input array refilled with the reflected points and handed over again: %v", err)
	}
	return nil
}

// hullOf checks the hull of the case's points, laid out in flat.
func hullOf(c Case, flat []float64) error {
	layout := geom.Layout(c.Layout)
	stride := layout.Stride()
	before := append([]float64{}, flat...)
	var res geom.T
	switch c.Via {
	case "flat":
		res = xy.ConvexHullFlat(layout, flat)
	case "multipoint":
		res = xy.ConvexHull(geom.NewMultiPointFlat(layout, flat))
	case "linestring":
		res = xy.ConvexHull(geom.NewLineStringFlat(layout, flat))
	case "polygon":
		res = xy.ConvexHull(geom.NewPolygonFlat(layout, flat, []int{len(flat)}))
	case "polygon-rings", "multilinestring", "multipolygon":
		// the points spread over several parts (cut after a third and after two thirds of
		// them, plus an empty part): every coordinate of the geometry is an input point,
		// whichever ring, line or polygon it sits in
		n := len(flat) / stride
		e1, e2 := (n/3)*stride, (2*n/3)*stride
		switch c.Via {
		case "polygon-rings":
			res = xy.ConvexHull(geom.NewPolygonFlat(layout, flat, []int{e1, e1, e2, len(flat)}))
		case "multilinestring":
			res = xy.ConvexHull(geom.NewMultiLineStringFlat(layout, flat, []int{e1, e2, e2, len(flat)}))
		default:
			res = xy.ConvexHull(geom.NewMultiPolygonFlat(layout, flat, [][]int{{e1}, {}, {e2, len(flat)}}))
		}
	default:
		return fmt.Errorf("bad via %q", c.Via)
	}
	for i := range flat {
		if math.Float64bits(flat[i]) != math.Float64bits(before[i]) {
			return fmt.Errorf("input modified: ordinate %d (point %d) was %v now %v", i, i/stride, before[i], flat[i])
		}
	}
	if res == nil {
		return fmt.Errorf("nil hull for %d points", len(c.Pts))
	}
	if res.Layout() != layout {
		return fmt.Errorf("hull layout %v, want %v", res.Layout(), layout)
	}
	pts := xyOf(c)
	floatMode := len(c.PtsF) > 0
	var E [][2]float64
	if floatMode {
		ps := make([]exact.P2, len(pts))
		for i, q := range pts {
			ps[i] = exact.Pt(q[0], q[1])
		}
		for _, i := range exact.Hull(ps) {
			E = append(E, pts[i])
		}
	} else {
		for _, q := range hullInt(c.Pts) {
			E = append(E, [2]float64{float64(q[0]), float64(q[1])})
		}
	}
	orient := func(a, b, d [2]float64) int {
		if floatMode {
			return exact.Orient(exact.Pt(a[0], a[1]), exact.Pt(b[0], b[1]), exact.Pt(d[0], d[1]))
		}
		cr := cross([2]int64{int64(a[0]), int64(a[1])}, [2]int64{int64(b[0]), int64(b[1])}, [2]int64{int64(d[0]), int64(d[1])})
		switch {
		case cr > 0:
			return 1
		case cr < 0:
			return -1
		}
		return 0
	}
	out := res.FlatCoords()
	if len(out)%stride != 0 {
		return fmt.Errorf("hull has %d ordinates, stride %d", len(out), stride)
	}
	// provenance: every output coordinate is bit-identical to an input coordinate
	keyOf := func(v []float64) string {
		b := make([]byte, 0, 8*len(v))
		for _, x := range v {
			u := math.Float64bits(x)
			for k := 0; k < 8; k++ {
				b = append(b, byte(u>>(8*k)))
			}
		}
		return string(b)
	}
	in := map[string]bool{}
	for i := 0; i < len(flat); i += stride {
		in[keyOf(flat[i:i+stride])] = true
	}
	var verts [][2]float64
	for i := 0; i < len(out); i += stride {
		if !in[keyOf(out[i:i+stride])] {
			return fmt.Errorf("hull vertex %v is not an input coordinate (hull %v)", out[i:i+stride], out)
		}
		verts = append(verts, [2]float64{out[i] + 0, out[i+1] + 0}) // +0: -0 and 0 are the same position
	}
	for i := range E {
		E[i] = [2]float64{E[i][0] + 0, E[i][1] + 0}
	}
	sameSet := func(a, b [][2]float64) bool {
		if len(a) != len(b) {
			return false
		}
		m := map[[2]float64]int{}
		for _, p := range a {
			m[p]++
		}
		for _, p := range b {
			m[p]--
		}
		for _, v := range m {
			if v != 0 {
				return false
			}
		}
		return true
	}
	switch len(E) {
	case 1:
		p, ok := res.(*geom.Point)
		if !ok {
			return fmt.Errorf("all %d points coincide at %v but hull is %T %v", len(pts), E[0], res, out)
		}
		if len(verts) != 1 || verts[0] != E[0] {
			return fmt.Errorf("hull point %v, want %v", p.FlatCoords(), E[0])
		}
	case 2:
		if _, ok := res.(*geom.LineString); !ok {
			return fmt.Errorf("points are collinear (extremes %v) but hull is %T %v", E, res, out)
		}
		if len(verts) != 2 || !sameSet(verts, E) {
			return fmt.Errorf("collinear hull line %v, want the two extremes %v", verts, E)
		}
	default:
		pg, ok := res.(*geom.Polygon)
		if !ok {
			return fmt.Errorf("hull has %d extreme points %v but result is %T %v", len(E), E, res, out)
		}
		if pg.NumLinearRings() != 1 || len(pg.Ends()) != 1 || pg.Ends()[0] != len(out) {
			return fmt.Errorf("hull polygon has ends %v for %d ordinates", pg.Ends(), len(out))
		}
		if len(verts) < 4 || verts[0] != verts[len(verts)-1] {
			return fmt.Errorf("hull ring not closed: %v", verts)
		}
		ring := verts[:len(verts)-1]
		if !sameSet(ring, E) {
			return fmt.Errorf("hull ring vertices %v, exact extreme points %v", ring, E)
		}
		sign := 0
		for i := range ring {
			s := orient(ring[i], ring[(i+1)%len(ring)], ring[(i+2)%len(ring)])
			if s == 0 {
				return fmt.Errorf("hull ring has a collinear vertex at %v: %v", ring[(i+1)%len(ring)], ring)
			}
			if sign == 0 {
				sign = s
			} else if s != sign {
				return fmt.Errorf("hull ring not consistently oriented: %v", ring)
			}
		}
	}
	return nil
}

func classify(c Case) ([]string, bool) {
	if len(c.PtsF) > 0 {
		cl := []string{"shape:" + c.Shape, "via:" + c.Via, "float-ordinates"}
		if len(c.PtsF) > 50 {
			cl = append(cl, "n>50")
		}
		if geom.Layout(c.Layout).Stride() > 4 {
			cl = append(cl, "stride>4")
		}
		if c.Order != "" {
			cl = append(cl, "order:"+c.Order)
			if len(c.PtsF) >= 32 {
				cl = append(cl, "ordered>=32")
			}
		}
		return cl, len(c.PtsF) >= 3
	}
	n := len(c.Pts)
	E := hullInt(c.Pts)
	distinct := map[[2]int64]bool{}
	for _, p := range c.Pts {
		distinct[p] = true
	}
	cl := []string{"shape:" + c.Shape, "via:" + c.Via}
	dups := len(distinct) < n
	coll3 := false
	if len(E) == 2 && len(distinct) >= 3 {
		coll3 = true
	}
	if len(E) >= 3 && len(distinct) > len(E) {
		// some non-extreme point on the boundary?
		for p := range distinct {
			for i := range E {
				a, b := E[i], E[(i+1)%len(E)]
				if p != a && p != b && cross(a, b, p) == 0 {
					coll3 = true
				}
			}
		}
	}
	if dups {
		cl = append(cl, "duplicates")
	}
	if coll3 {
		cl = append(cl, "collinear-run")
	}
	if n > 50 {
		cl = append(cl, "n>50")
	}
	if c.Order != "" {
		cl = append(cl, "order:"+c.Order)
		if n >= 32 {
			cl = append(cl, "ordered>=32")
		}
	}
	if len(distinct) > 50 {
		cl = append(cl, "distinct>50")
	}
	if len(distinct) < 3 {
		cl = append(cl, "lt3-distinct")
	}
	switch len(E) {
	case 1:
		cl = append(cl, "result:point")
	case 2:
		cl = append(cl, "result:line")
	default:
		cl = append(cl, "result:polygon")
	}
	return cl, n >= 3 && (dups || coll3 || n > 50 || len(distinct) < 3)
}

var spec = run.Spec[Case]{ID: "C13", Name: "hull", Gen: genCase, Prop: prop, Classify: classify}

func TestPropHull(t *testing.T) { run.Generated(t, spec) }
func TestRegress(t *testing.T)  { run.Regress(t, spec) }
func TestReplay(t *testing.T) {
	run.ReplayOne(t, spec)
	run.ReplayOne(t, bigSpec)
	run.ReplayOne(t, sizeSpec)
	run.ReplayOne(t, concSpec)
}

// TestExhaustive3x3 enumerates every ordered list of 1..5 points of the 3x3
// grid (66 429 inputs), alternating layouts and entry points.
func TestExhaustive3x3(t *testing.T) {
	shard, shards := run.Shard()
	total := 0
	vias := []string{"flat", "multipoint", "linestring", "polygon"}
	for n := 1; n <= 5; n++ {
		lim := 1
		for i := 0; i < n; i++ {
			lim *= 9
		}
		for code := 0; code < lim; code++ {
			if code%shards != shard {
				continue
			}
			pts := make([][2]int64, n)
			x := code
			for i := 0; i < n; i++ {
				pts[i] = [2]int64{int64(x % 9 % 3), int64(x % 9 / 3)}
				x /= 9
			}
			c := Case{Shape: "grid3x3", Layout: int(layouts[(code+n)%4]), Via: vias[(code/7)%4], Pts: pts}
			_, nt := classify(c)
			total++
			ev.Default.CaseHash(uint64(n)<<32|uint64(code), "grid3x3", nt, func() any { return c })
			if !run.One(t, spec, c) {
				return
			}
		}
	}
	ev.Default.ExhaustiveSpace("all ordered lists of 1..5 points of the 3x3 grid (this shard's share)", int64(total))
}
