package c13

import (
	"fmt"
	"testing"

	geom "github.com/twpayne/go-geom"

	"verifharness/internal/ev"
	"verifharness/internal/run"
)

// BigCase is a point set larger than a case file should carry: N points, of which
// every Inner-th lies strictly inside the hull of the others, on and above the parabola
// y = x^2 (every point on the parabola is an extreme point), in a fixed pseudo-random
// order. Sizes sit around the powers of two at which an implementation may switch to
// block-wise or concurrent processing.
type BigCase struct {
	N      int    `json:"n"`
	Inner  int    `json:"inner"`
	Via    string `json:"via"`
	Layout int    `json:"layout"`
}

func expandBig(b BigCase) Case {
	pts := make([][2]int64, 0, b.N)
	half := int64(b.N / 2)
	for i := 0; i < b.N; i++ {
		x := int64(i) - half
		y := x * x
		if b.Inner > 0 && i%b.Inner == b.Inner-1 && i > 0 && i < b.N-1 {
			y += 1 + int64(i%7) // strictly above the parabola, below the closing chord: inside
		}
		pts = append(pts, [2]int64{x, y})
	}
	// a fixed permutation (multiplicative congruential walk over the indexes)
	out := make([][2]int64, 0, b.N)
	step := 7919
	for gcd(step, b.N) != 1 {
		step++
	}
	for i, j := 0, 17%b.N; i < b.N; i, j = i+1, (j+step)%b.N {
		out = append(out, pts[j])
	}
	return Case{Shape: "big-parabola", Layout: b.Layout, Via: b.Via, Pts: out}
}

func gcd(a, b int) int {
	for b != 0 {
		a, b = b, a%b
	}
	return a
}

func propBig(b BigCase) error {
	c := expandBig(b)
	if err := hullOf(c, flatOf(c)); err != nil {
		return fmt.Errorf("%d points (every %d-th inside) via %s: %v", b.N, b.Inner, b.Via, err)
	}
	return nil
}

var bigSpec = run.Spec[BigCase]{ID: "C13", Name: "big", Prop: propBig, Classify: func(b BigCase) ([]string, bool) {
	return []string{"big-set"}, true
}}

func TestExhaustiveBig(t *testing.T) {
	shard, shards := run.Shard()
	sizes := []int{4095, 4097, 16383, 16384, 16385, 16411}
	if run.Thorough() {
		sizes = append(sizes, 8191, 8193, 32767, 32771, 65535, 65537, 131101)
	}
	k := 0
	for si, n := range sizes {
		for _, inner := range []int{0, 3} {
			k++
			if k%shards != shard {
				continue
			}
			b := BigCase{N: n, Inner: inner, Via: []string{"flat", "multipoint", "linestring"}[(si+inner)%3], Layout: int([]geom.Layout{geom.XY, geom.XYZ, geom.XYZM}[si%3])}
			ev.Default.CaseHash(uint64(n)<<4|uint64(inner), "big-set", true, func() any { return b })
			if !run.One(t, bigSpec, b) {
				return
			}
		}
	}
}

func TestRegressBig(t *testing.T) { run.Regress(t, bigSpec) }
