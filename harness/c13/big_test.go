package c13

import (
	"fmt"
	"testing"

	geom "github.com/twpayne/go-geom"
	"github.com/twpayne/go-geom/xy"

	"verifharness/internal/ev"
	"verifharness/internal/run"
)

// BigCase is a point set larger than a case file should carry: N points, of which
// every Inner-th lies strictly inside the hull of the others, on and above the parabola
// y = x^2 (every point on the parabola is an extreme point), in a fixed pseudo-random
// order. Sizes sit around the powers of two at which an implementation may switch to
// block-wise or concurrent processing.
type BigCase struct {
	N      int    `json:"n"`
	Inner  int    `json:"inner"`
	Via    string `json:"via"`
	Layout int    `json:"layout"`
}

func expandBig(b BigCase) Case {
	pts := make([][2]int64, 0, b.N)
	half := int64(b.N / 2)
	for i := 0; i < b.N; i++ {
		x := int64(i) - half
		y := x * x
		if b.Inner > 0 && i%b.Inner == b.Inner-1 && i > 0 && i < b.N-1 {
			y += 1 + int64(i%7) // strictly above the parabola, below the closing chord: inside
		}
		pts = append(pts, [2]int64{x, y})
	}
	// a fixed permutation (multiplicative congruential walk over the indexes)
	out := make([][2]int64, 0, b.N)
	step := 7919
	for gcd(step, b.N) != 1 {
		step++
	}
	for i, j := 0, 17%b.N; i < b.N; i, j = i+1, (j+step)%b.N {
		out = append(out, pts[j])
	}
	return Case{Shape: "big-parabola", Layout: b.Layout, Via: b.Via, Pts: out}
}

func gcd(a, b int) int {
	for b != 0 {
		a, b = b, a%b
	}
	return a
}

func propBig(b BigCase) error {
	c := expandBig(b)
	if err := hullOf(c, flatOf(c)); err != nil {
		return fmt.Errorf("%d points (every %d-th inside) via %s: %v", b.N, b.Inner, b.Via, err)
	}
	return nil
}

var bigSpec = run.Spec[BigCase]{ID: "C13", Name: "big", Prop: propBig, Classify: func(b BigCase) ([]string, bool) {
	return []string{"big-set"}, true
}}

func TestExhaustiveBig(t *testing.T) {
	shard, shards := run.Shard()
	sizes := []int{4095, 4097, 16383, 16384, 16385, 16411}
	if run.Thorough() {
		sizes = append(sizes, 8191, 8193, 32767, 32771, 65535, 65537, 131101)
	}
	k := 0
	for si, n := range sizes {
		for _, inner := range []int{0, 3} {
			k++
			if k%shards != shard {
				continue
			}
			b := BigCase{N: n, Inner: inner, Via: []string{"flat", "multipoint", "linestring"}[(si+inner)%3], Layout: int([]geom.Layout{geom.XY, geom.XYZ, geom.XYZM}[si%3])}
			ev.Default.CaseHash(uint64(n)<<4|uint64(inner), "big-set", true, func() any { return b })
			if !run.One(t, bigSpec, b) {
				return
			}
		}
	}
}

func TestRegressBig(t *testing.T) { run.Regress(t, bigSpec) }

// SizeCase: n points on the parabola y = x^2 in a fixed pseudo-random order; every one
// of them is an extreme point, so the hull ring has exactly n distinct vertices.
type SizeCase struct {
	N int `json:"n"`
}

func propSize(c SizeCase) error {
	b := BigCase{N: c.N, Via: "flat", Layout: int(geom.XY)}
	cs := expandBig(b)
	flat := flatOf(cs)
	before := append([]float64{}, flat...)
	h := xy.ConvexHullFlat(geom.XY, flat)
	for i := range flat {
		if flat[i] != before[i] {
			return fmt.Errorf("%d points: input modified at ordinate %d", c.N, i)
		}
	}
	pg, ok := h.(*geom.Polygon)
	if !ok {
		return fmt.Errorf("%d points on a parabola: hull is a %T", c.N, h)
	}
	f := pg.FlatCoords()
	if len(f) != 2*(c.N+1) {
		return fmt.Errorf("%d points on a parabola (all of them extreme): the hull ring has %d coordinates, want %d", c.N, len(f)/2, c.N+1)
	}
	var sum, want float64
	for i := 0; i+2 < len(f); i += 2 {
		if f[i+1] != f[i]*f[i] {
			return fmt.Errorf("%d points: hull vertex (%v, %v) is not an input point", c.N, f[i], f[i+1])
		}
		sum += f[i]
	}
	for _, p := range cs.Pts {
		want += float64(p[0])
	}
	if sum != want {
		return fmt.Errorf("%d points on a parabola: the hull vertices are not the input points (sum of x %v, want %v)", c.N, sum, want)
	}
	return nil
}

var sizeSpec = run.Spec[SizeCase]{ID: "C13", Name: "size", Prop: propSize, Classify: func(c SizeCase) ([]string, bool) {
	return []string{"size-sweep"}, true
}}

// TestExhaustiveSizes runs every number of points from 1 000 to 8 200 (thorough: to
// 33 000): whatever the size at which an implementation changes its ways - a power of
// two, a multiple of a block length or of a stride - it is in the range.
func TestExhaustiveSizes(t *testing.T) {
	shard, shards := run.Shard()
	hi := 8200
	if run.Thorough() {
		hi = 33000
	}
	for n := 1000; n <= hi; n++ {
		if n%shards != shard {
			continue
		}
		c := SizeCase{N: n}
		ev.Default.CaseHash(uint64(n), "size-sweep", true, func() any { return c })
		if !run.One(t, sizeSpec, c) {
			return
		}
	}
}

func TestRegressSizes(t *testing.T) { run.Regress(t, sizeSpec) }
