// C11: point location against rings and lines is exact.
package c11

import (
	"fmt"
	"github.com/twpayne/go-geom/bigxy"
	"math"
	"testing"

	geom "github.com/twpayne/go-geom"
	"github.com/twpayne/go-geom/xy"
	"github.com/twpayne/go-geom/xy/lineintersector"
	"github.com/twpayne/go-geom/xy/location"
	"pgregory.net/rapid"

	"verifharness/internal/ev"
	"verifharness/internal/exact"
	"verifharness/internal/model"
	"verifharness/internal/run"
)

func TestMain(m *testing.M) { run.Main(m) }

// Case: Mode "ring" (closed integer ring + integer point), "line" (integer
// polyline + point), "linefloat" (float polyline + point) or "ringfloat"
// (closed ring of arbitrary finite doubles + point PF).
type Case struct {
	Mode  string       `json:"mode"`
	Class string       `json:"class,omitempty"`
	Ring  [][2]int64   `json:"ring,omitempty"`
	P     [2]int64     `json:"p,omitempty"`
	LineF [][2]model.F `json:"linef,omitempty"`
	PF    [2]model.F   `json:"pf,omitempty"`
	RingF [][2]model.F `json:"ringf,omitempty"`
}

func cross(a, b, p [2]int64) int64 {
	return (b[0]-a[0])*(p[1]-a[1]) - (b[1]-a[1])*(p[0]-a[0])
}

func onSeg(p, a, b [2]int64) bool {
	if cross(a, b, p) != 0 {
		return false
	}
	return min(a[0], b[0]) <= p[0] && p[0] <= max(a[0], b[0]) && min(a[1], b[1]) <= p[1] && p[1] <= max(a[1], b[1])
}

// locate is the exact even-odd rule on a closed integer ring.
func locate(p [2]int64, ring [][2]int64) location.Type {
	for i := 1; i < len(ring); i++ {
		if onSeg(p, ring[i-1], ring[i]) {
			return location.Boundary
		}
	}
	n := 0
	for i := 1; i < len(ring); i++ {
		a, b := ring[i-1], ring[i]
		if (a[1] > p[1]) == (b[1] > p[1]) {
			continue
		}
		lo, hi := a, b
		if lo[1] > hi[1] {
			lo, hi = hi, lo
		}
		if cross(lo, hi, p) > 0 { // p strictly left of the upward edge: the rightward ray crosses it
			n++
		}
	}
	if n%2 == 1 {
		return location.Interior
	}
	return location.Exterior
}

var layouts = []geom.Layout{geom.XY, geom.XYZ, geom.XYM, geom.XYZM, geom.Layout(5)}

func flatRing(ring [][2]int64, l geom.Layout) []float64 {
	s := l.Stride()
	out := make([]float64, 0, len(ring)*s)
	for i, p := range ring {
		out = append(out, float64(p[0]), float64(p[1]))
		for d := 2; d < s; d++ {
			if (i+d)%3 == 0 {
				out = append(out, math.NaN())
			} else {
				out = append(out, float64(i*31+d)*1e9)
			}
		}
	}
	return out
}

// withExtras gives a query point n further ordinates (its Z and M): only x and y
// say where it is. The values are picked by the point's own bits, so a case stays a
// pure function of itself: an ordinary number, NaN (no measure), infinities, -0 and
// the largest finite value.
func withExtras(pc geom.Coord, n int) geom.Coord {
	h := math.Float64bits(pc[0])*0x9E3779B97F4A7C15 ^ math.Float64bits(pc[1])*0xC2B2AE3D27D4EB4F
	for d := 0; d < n; d++ {
		h = (h ^ h>>29) * 0xBF58476D1CE4E5B9
		switch (h >> 33) % 8 {
		case 0, 1, 2:
			pc = append(pc, math.NaN())
		case 3:
			pc = append(pc, math.Inf(1))
		case 4:
			pc = append(pc, math.Inf(-1))
		case 5:
			pc = append(pc, math.Copysign(0, -1))
		case 6:
			pc = append(pc, math.MaxFloat64)
		default:
			pc = append(pc, -7)
		}
	}
	return pc
}

func checkRing(p [2]int64, ring [][2]int64, l geom.Layout, what string) error {
	want := locate(p, ring)
	pc := withExtras(geom.Coord{float64(p[0]), float64(p[1])}, l.Stride()-2)
	flat := flatRing(ring, l)
	got := xy.LocatePointInRing(l, pc, flat)
	if got != want {
		return fmt.Errorf("%s: LocatePointInRing(%v, p=%v, ring=%v) = %v, exact %v", what, l, p, ring, got, want)
	}
	if in := xy.IsPointInRing(l, pc, flat); in != (want != location.Exterior) {
		return fmt.Errorf("%s: IsPointInRing(%v, p=%v, ring=%v) = %v, exact location %v", what, l, p, ring, in, want)
	}
	// a zero ordinate of the query point written as -0 (the same position)
	if p[0] == 0 || p[1] == 0 {
		nz := pc.Clone()
		for d := 0; d < 2; d++ {
			if nz[d] == 0 {
				nz[d] = math.Copysign(0, -1)
			}
		}
		if got := xy.LocatePointInRing(l, nz, flat); got != want {
			return fmt.Errorf("%s: LocatePointInRing with the point's zero ordinates written as -0 (p=%v, ring=%v) = %v, exact %v", what, p, ring, got, want)
		}
	}
	// a query point that is a vertex, handed over as a window of the ring's own array
	// (what slicing FlatCoords gives; its capacity runs on over the rest of the ring)
	for k, q := range ring {
		if q == p {
			before := append([]float64{}, flat...)
			if got := xy.LocatePointInRing(l, geom.Coord(flat[k*l.Stride():(k+1)*l.Stride()]), flat); got != want {
				return fmt.Errorf("%s: LocatePointInRing with vertex %d of the ring's own array as the point = %v, exact %v", what, k, got, want)
			}
			for i := range flat {
				if math.Float64bits(flat[i]) != math.Float64bits(before[i]) {
					return fmt.Errorf("%s: LocatePointInRing with a vertex of the ring's own array as the point changed element %d", what, i)
				}
			}
			break
		}
	}
	// the same backing array refilled with another ring (the ring moved clear of its
	// old envelope) and queried again: nothing may be remembered about the array
	// (asked twice more first: what is remembered may only be used from the second or
	// third time on)
	for i := 0; i < 2; i++ {
		if got := xy.LocatePointInRing(l, pc, flat); got != want {
			return fmt.Errorf("%s: LocatePointInRing asked again = %v, exact %v", what, got, want)
		}
	}
	lo, hi := ring[0], ring[0]
	for _, q := range ring {
		lo = [2]int64{min(lo[0], q[0]), min(lo[1], q[1])}
		hi = [2]int64{max(hi[0], q[0]), max(hi[1], q[1])}
	}
	d := [2]int64{hi[0] - lo[0] + 2, -(hi[1] - lo[1] + 3)}
	s := l.Stride()
	for i := range ring {
		flat[i*s] += float64(d[0])
		flat[i*s+1] += float64(d[1])
	}
	pc[0] += float64(d[0])
	pc[1] += float64(d[1])
	if got := xy.LocatePointInRing(l, pc, flat); got != want {
		return fmt.Errorf("%s: the ring's array refilled with the ring moved by %v: LocatePointInRing(%v, p=%v, ring=%v) = %v, exact %v", what, d, l, pc[:2], flat, got, want)
	}
	return nil
}

func pts(ring [][2]model.F) []exact.P2 {
	out := make([]exact.P2, len(ring))
	for i, q := range ring {
		out[i] = exact.Pt(q[0].V(), q[1].V())
	}
	return out
}

func locName(k int) location.Type {
	switch k {
	case exact.Interior:
		return location.Interior
	case exact.Boundary:
		return location.Boundary
	}
	return location.Exterior
}

func flatRingF(ring [][2]model.F, l geom.Layout) []float64 {
	s := l.Stride()
	out := make([]float64, 0, len(ring)*s)
	for i, p := range ring {
		out = append(out, p[0].V(), p[1].V())
		for d := 2; d < s; d++ {
			if (i+d)%3 == 0 {
				out = append(out, math.NaN())
			} else {
				out = append(out, float64(i*31+d)*1e9)
			}
		}
	}
	return out
}

func checkRingF(p [2]model.F, ring [][2]model.F, l geom.Layout, what string, want location.Type) error {
	pc := withExtras(geom.Coord{p[0].V(), p[1].V()}, l.Stride()-2)
	flat := flatRingF(ring, l)
	if got := xy.LocatePointInRing(l, pc, flat); got != want {
		return fmt.Errorf("%s: LocatePointInRing(%v, p=%v, ring=%v) = %v, exact %v", what, l, pc[:2], flat, got, want)
	}
	if in := xy.IsPointInRing(l, pc, flat); in != (want != location.Exterior) {
		return fmt.Errorf("%s: IsPointInRing(%v, p=%v, ring=%v) = %v, exact location %v", what, l, pc[:2], flat, in, want)
	}
	return nil
}

// variantsF: reversed, rotations and duplicated vertices of a float ring (at most 8 each).
func variantsF(ring [][2]model.F) []struct {
	name string
	ring [][2]model.F
} {
	type v = struct {
		name string
		ring [][2]model.F
	}
	var out []v
	n := len(ring) - 1
	rev := make([][2]model.F, len(ring))
	for i := range ring {
		rev[i] = ring[len(ring)-1-i]
	}
	out = append(out, v{"reversed", rev})
	step := 1
	if n > 5 {
		step = n / 5
	}
	for r := 1; r < n; r += step {
		rot := make([][2]model.F, 0, len(ring))
		for i := 0; i < n; i++ {
			rot = append(rot, ring[(i+r)%n])
		}
		rot = append(rot, rot[0])
		out = append(out, v{fmt.Sprintf("rotated by %d", r), rot})
	}
	for d := 0; d < n; d += step {
		dup := make([][2]model.F, 0, len(ring)+1)
		for i, p := range ring {
			dup = append(dup, p)
			if i == d {
				dup = append(dup, p)
			}
		}
		out = append(out, v{fmt.Sprintf("vertex %d duplicated", d), dup})
	}
	return out
}

type variant struct {
	name string
	ring [][2]int64
}

// variants lists the metamorphic images of a ring in a fixed order: reversed,
// every rotation and every single duplicated vertex (for rings of more than 24
// vertices: 8 rotations and 8 duplications spread over the ring).
func variants(ring [][2]int64) []variant {
	var out []variant
	n := len(ring) - 1
	rev := make([][2]int64, len(ring))
	for i := range ring {
		rev[i] = ring[len(ring)-1-i]
	}
	out = append(out, variant{"reversed", rev})
	step := 1
	if n > 24 {
		step = n / 8
	}
	for r := 1; r < n; r += step {
		rot := make([][2]int64, 0, len(ring))
		for i := 0; i < n; i++ {
			rot = append(rot, ring[(i+r)%n])
		}
		rot = append(rot, rot[0])
		out = append(out, variant{fmt.Sprintf("rotated by %d", r), rot})
	}
	for d := 0; d < n; d += step {
		dup := make([][2]int64, 0, len(ring)+1)
		for i, p := range ring {
			dup = append(dup, p)
			if i == d {
				dup = append(dup, p)
			}
		}
		out = append(out, variant{fmt.Sprintf("vertex %d duplicated", d), dup})
	}
	return out
}

func genRingCase(t *rapid.T) Case {
	k := uint(rapid.IntRange(1, 26).Draw(t, "k"))
	if rapid.Bool().Draw(t, "small") {
		k = uint(rapid.IntRange(1, 3).Draw(t, "ksmall"))
	}
	lim := int64(1) << k
	off := [2]int64{rapid.Int64Range(-1<<26, 1<<26).Draw(t, "ox"), rapid.Int64Range(-1<<26, 1<<26).Draw(t, "oy")}
	if rapid.Bool().Draw(t, "nooff") {
		off = [2]int64{}
	}
	n := rapid.IntRange(3, 20).Draw(t, "n")
	if rapid.IntRange(0, 49).Draw(t, "long") == 0 {
		n = rapid.IntRange(60, 300).Draw(t, "nlong") // sizes across any chunking or stack constant
	}
	ring := make([][2]int64, 0, n+1)
	for i := 0; i < n; i++ {
		p := [2]int64{off[0] + rapid.Int64Range(0, lim).Draw(t, "x"), off[1] + rapid.Int64Range(0, lim).Draw(t, "y")}
		if i > 0 {
			switch rapid.IntRange(0, 7).Draw(t, "shape") {
			case 0:
				p[1] = ring[i-1][1] // horizontal edge
			case 1:
				p[0] = ring[i-1][0] // vertical edge
			case 2:
				p = ring[rapid.IntRange(0, i-1).Draw(t, "rep")] // repeated vertex
			}
		}
		ring = append(ring, p)
	}
	ring = append(ring, ring[0])
	class := rapid.SampledFrom([]string{"uniform", "vertex-level", "edge-midpoint", "vertex", "on-horizontal", "near-edge"}).Draw(t, "pclass")
	p := [2]int64{off[0] + rapid.Int64Range(-1, lim+1).Draw(t, "px"), off[1] + rapid.Int64Range(-1, lim+1).Draw(t, "py")}
	i := rapid.IntRange(1, n).Draw(t, "edge")
	a, b := ring[i-1], ring[i]
	switch class {
	case "vertex-level":
		p[1] = a[1]
	case "edge-midpoint":
		p = [2]int64{(a[0] + b[0]) / 2, (a[1] + b[1]) / 2}
	case "vertex":
		p = a
	case "on-horizontal":
		p[1] = a[1]
		if a[1] == b[1] {
			lo, hi := min(a[0], b[0]), max(a[0], b[0])
			p[0] = rapid.Int64Range(lo-1, hi+1).Draw(t, "hx")
		}
	case "near-edge":
		p = [2]int64{(a[0]+b[0])/2 + rapid.Int64Range(-1, 1).Draw(t, "dx"), (a[1]+b[1])/2 + rapid.Int64Range(-1, 1).Draw(t, "dy")}
	}
	return Case{Mode: "ring", Class: class, Ring: ring, P: p}
}

func genLineCase(t *rapid.T) Case {
	k := uint(rapid.IntRange(1, 26).Draw(t, "k"))
	lim := int64(1) << k
	n := rapid.IntRange(2, 8).Draw(t, "n")
	if rapid.IntRange(0, 49).Draw(t, "long") == 0 {
		n = rapid.IntRange(60, 300).Draw(t, "nlong")
	}
	line := make([][2]int64, n)
	for i := range line {
		line[i] = [2]int64{rapid.Int64Range(-lim, lim).Draw(t, "x"), rapid.Int64Range(-lim, lim).Draw(t, "y")}
		if i > 0 && rapid.IntRange(0, 5).Draw(t, "rep") == 0 {
			line[i] = line[i-1]
		}
	}
	i := rapid.IntRange(1, n-1).Draw(t, "seg")
	a, b := line[i-1], line[i]
	// a lattice point of the segment (or next to it / beyond it)
	g := gcd(abs(b[0]-a[0]), abs(b[1]-a[1]))
	p := a
	if g > 0 {
		s := rapid.Int64Range(-1, g+1).Draw(t, "step")
		p = [2]int64{a[0] + (b[0]-a[0])/g*s, a[1] + (b[1]-a[1])/g*s}
	}
	if rapid.IntRange(0, 2).Draw(t, "off") == 0 {
		p[rapid.IntRange(0, 1).Draw(t, "axis")] += rapid.Int64Range(-1, 1).Draw(t, "d")
	}
	return Case{Mode: "line", Ring: line, P: p}
}

func abs(x int64) int64 {
	if x < 0 {
		return -x
	}
	return x
}

func gcd(a, b int64) int64 {
	for b != 0 {
		a, b = b, a%b
	}
	return a
}

func nudge(v float64, k int) float64 {
	for ; k > 0; k-- {
		v = math.Nextafter(v, math.Inf(1))
	}
	for ; k < 0; k++ {
		v = math.Nextafter(v, math.Inf(-1))
	}
	return v
}

func genLineFloat(t *rapid.T) Case {
	mod := func(l string) float64 {
		e := rapid.IntRange(-20, 20).Draw(t, l+"e")
		m := rapid.Uint64Range(0, 1<<52-1).Draw(t, l+"m")
		s := rapid.Uint64Range(0, 1).Draw(t, l+"s")
		return math.Float64frombits(s<<63 | uint64(e+1023)<<52 | m)
	}
	n := rapid.IntRange(2, 5).Draw(t, "n")
	line := make([][2]model.F, n)
	for i := range line {
		line[i] = [2]model.F{model.Of(mod("x")), model.Of(mod("y"))}
	}
	i := rapid.IntRange(1, n-1).Draw(t, "seg")
	a, b := line[i-1], line[i]
	tt := rapid.SampledFrom([]float64{0, 1, 0.5, 0.25, 0.75, 1.5, -0.5}).Draw(t, "t")
	px := a[0].V() + tt*(b[0].V()-a[0].V())
	py := a[1].V() + tt*(b[1].V()-a[1].V())
	px = nudge(px, rapid.IntRange(-3, 3).Draw(t, "nx"))
	py = nudge(py, rapid.IntRange(-3, 3).Draw(t, "ny"))
	return Case{Mode: "linefloat", LineF: line, PF: [2]model.F{model.Of(px), model.Of(py)}}
}

// genLineLattice: a polyline on a small whole-number lattice times an exact power of
// two from one end of the float64 range to the other, and a point of the same lattice
// on the line through a segment - before it, on it, beyond it - or one lattice step
// aside. Collinearity is exact at every scale; products of differences underflow or
// overflow at the ends of the range.
func genLineLattice(t *rapid.T) Case {
	e := rapid.SampledFrom([]int{-1074, -1073, -1070, -1060, -1022, -1000, -600, -545, -540, -538, -530, -520, 0, 500, 505, 511, 1000, 1015}).Draw(t, "le")
	n := rapid.IntRange(2, 5).Draw(t, "ln")
	ipts := make([][2]int, n)
	for i := range ipts {
		ipts[i] = [2]int{rapid.IntRange(-6, 6).Draw(t, "lx"), rapid.IntRange(-6, 6).Draw(t, "ly")}
		if i > 0 && ipts[i] == ipts[i-1] && rapid.Bool().Draw(t, "lmove") {
			ipts[i][0]++
		}
	}
	i := rapid.IntRange(1, n-1).Draw(t, "lseg")
	a, b := ipts[i-1], ipts[i]
	k := rapid.SampledFrom([]int{-2, -1, 0, 1, 2, 3, 5}).Draw(t, "lk")
	p := [2]int{a[0] + k*(b[0]-a[0]), a[1] + k*(b[1]-a[1])}
	if rapid.IntRange(0, 3).Draw(t, "laside") == 0 {
		p[rapid.IntRange(0, 1).Draw(t, "lasidedim")] += rapid.SampledFrom([]int{1, -1}).Draw(t, "lasideby")
	}
	sc := func(v int) model.F { return model.Of(math.Ldexp(float64(v), e)) }
	line := make([][2]model.F, n)
	for j, q := range ipts {
		line[j] = [2]model.F{sc(q[0]), sc(q[1])}
	}
	return Case{Mode: "linefloat", Class: "lattice-scaled", LineF: line, PF: [2]model.F{sc(p[0]), sc(p[1])}}
}

// genRingFloat: a closed ring of finite doubles and a query point placed on, a
// few ulps beside, or level with its edges and vertices. Magnitude classes:
// moderate (the translation p1-p is already inexact), offset (a small shape far
// from the origin: heavy cancellation), mixed exponents, and the two ends of the
// float64 range where products of differences underflow or overflow.
func genRingFloat(t *rapid.T) Case {
	mclass := rapid.SampledFrom([]string{"moderate", "moderate", "offset", "mixed", "tiny", "huge", "fullrange", "int32", "int64", "wholewide"}).Draw(t, "mclass")
	base := 0
	switch mclass {
	case "tiny":
		base = rapid.SampledFrom([]int{-1074, -1060, -1030, -1022, -1000, -600, -540, -520}).Draw(t, "base")
	case "huge":
		base = rapid.SampledFrom([]int{500, 511, 512, 540, 1000, 1015, 1022}).Draw(t, "base")
	}
	wideShift := 0
	if mclass == "wholewide" {
		wideShift = rapid.SampledFrom([]int{0, 4, 8, 10, 11, 12}).Draw(t, "wideshift")
	}
	ox, oy := 0.0, 0.0
	if mclass == "offset" {
		ox = math.Ldexp(float64(rapid.IntRange(-1000, 1000).Draw(t, "ox")), rapid.IntRange(10, 40).Draw(t, "oxe"))
		oy = math.Ldexp(float64(rapid.IntRange(-1000, 1000).Draw(t, "oy")), rapid.IntRange(10, 40).Draw(t, "oye"))
	}
	fin := func(v float64) float64 {
		switch {
		case math.IsNaN(v):
			return 0
		case math.IsInf(v, 0):
			return math.Copysign(math.MaxFloat64, v)
		}
		return v
	}
	ord := func(l string, o float64) float64 {
		if rapid.IntRange(0, 15).Draw(t, l+"z") == 0 {
			return fin(o)
		}
		var e int
		switch mclass {
		case "wholewide":
			// whole numbers, small (within a thousand) or anywhere up to 2^62: edges that run
			// from next to the query point to more than 2^53 units away
			// (the small ones are multiples of a power of two drawn per case, so that their
			// differences with the large ones can be exactly representable)
			if rapid.Bool().Draw(t, l+"small") {
				return math.Ldexp(float64(rapid.IntRange(-1000, 1000).Draw(t, l+"sv")), wideShift)
			}
			return float64(rapid.Int64Range(-1<<62, 1<<62).Draw(t, l+"wv"))
		case "int32", "int64":
			// whole numbers over the full range of a machine integer: differences need one
			// more bit than the type, products of differences twice as many
			lim := int64(1) << 31
			if mclass == "int64" {
				lim = 1 << 53 // the whole numbers float64 represents exactly
			}
			switch rapid.IntRange(0, 5).Draw(t, l+"ext") {
			case 0:
				return float64(-lim)
			case 1:
				return float64(lim - 1)
			}
			return float64(rapid.Int64Range(-lim, lim-1).Draw(t, l+"i"))
		case "moderate", "offset":
			e = rapid.IntRange(-6, 6).Draw(t, l+"e")
		case "mixed":
			e = rapid.IntRange(-60, 60).Draw(t, l+"e")
		case "fullrange":
			e = rapid.IntRange(-1074, 1023).Draw(t, l+"e")
		default:
			e = base + rapid.IntRange(0, 1).Draw(t, l+"e")
			if e > 1023 {
				e = 1023
			}
		}
		m := rapid.Uint64Range(0, 1<<52-1).Draw(t, l+"m")
		if rapid.Bool().Draw(t, l+"short") {
			m &^= 1<<40 - 1 // short mantissas: exact sums and exactly representable points on edges
		}
		sg := rapid.Uint64Range(0, 1).Draw(t, l+"s")
		var v float64
		if e < -1022 {
			v = math.Float64frombits(sg<<63 | (1<<52|m)>>uint(-1022-e))
		} else {
			v = math.Float64frombits(sg<<63 | uint64(e+1023)<<52 | m)
		}
		return fin(o + v)
	}
	n := rapid.IntRange(3, 9).Draw(t, "n")
	if rapid.IntRange(0, 49).Draw(t, "long") == 0 {
		n = rapid.IntRange(20, 120).Draw(t, "nlong")
	}
	ring := make([][2]model.F, 0, n+1)
	for i := 0; i < n; i++ {
		q := [2]model.F{model.Of(ord("x", ox)), model.Of(ord("y", oy))}
		if i > 0 {
			switch rapid.IntRange(0, 7).Draw(t, "shape") {
			case 0:
				q[1] = ring[i-1][1]
			case 1:
				q[0] = ring[i-1][0]
			case 2:
				q = ring[rapid.IntRange(0, i-1).Draw(t, "rep")]
			}
		}
		ring = append(ring, q)
	}
	ring = append(ring, ring[0])
	class := rapid.SampledFrom([]string{"near-edge", "near-edge", "vertex", "vertex-level", "on-horizontal", "mix"}).Draw(t, "pclass")
	i := rapid.IntRange(1, n).Draw(t, "edge")
	a, b := ring[i-1], ring[i]
	px, py := ring[rapid.IntRange(0, n-1).Draw(t, "pxof")][0].V(), ring[rapid.IntRange(0, n-1).Draw(t, "pyof")][1].V()
	switch class {
	case "near-edge":
		tt := rapid.SampledFrom([]float64{0.5, 0.25, 0.75, 0, 1, 0.125, 1.0 / 3}).Draw(t, "t")
		if rapid.Bool().Draw(t, "trand") {
			tt = rapid.Float64Range(0, 1).Draw(t, "tv")
		}
		if mclass == "wholewide" && rapid.Bool().Draw(t, "fewunits") {
			// a few units along the edge from its start, then to the nearest whole numbers
			// and a unit aside
			if m := math.Max(math.Abs(b[0].V()-a[0].V()), math.Abs(b[1].V()-a[1].V())); m > 0 {
				tt = math.Ldexp(float64(rapid.IntRange(1, 6).Draw(t, "units")), wideShift) / m
			}
			unit := math.Ldexp(1, wideShift)
			px = fin((math.Round((a[0].V()+tt*(b[0].V()-a[0].V()))/unit) + float64(rapid.IntRange(-1, 1).Draw(t, "ux"))) * unit)
			py = fin((math.Round((a[1].V()+tt*(b[1].V()-a[1].V()))/unit) + float64(rapid.IntRange(-1, 1).Draw(t, "uy"))) * unit)
			break
		}
		px = fin(a[0].V() + tt*(b[0].V()-a[0].V()))
		py = fin(a[1].V() + tt*(b[1].V()-a[1].V()))
		px = fin(nudge(px, rapid.IntRange(-3, 3).Draw(t, "nx")))
		py = fin(nudge(py, rapid.IntRange(-3, 3).Draw(t, "ny")))
	case "vertex":
		px, py = a[0].V(), a[1].V()
	case "vertex-level":
		py = a[1].V()
		px = fin(nudge(px, rapid.IntRange(-2, 2).Draw(t, "nx")))
	case "on-horizontal":
		py = a[1].V()
		if a[1] == b[1] {
			px = fin(a[0].V() + rapid.SampledFrom([]float64{0.5, 0, 1, -0.25, 1.25}).Draw(t, "h")*(b[0].V()-a[0].V()))
		}
	case "mix":
		px = fin(nudge(px, rapid.IntRange(-2, 2).Draw(t, "nx")))
		py = fin(nudge(py, rapid.IntRange(-2, 2).Draw(t, "ny")))
	}
	return Case{Mode: "ringfloat", Class: mclass + "/" + class, RingF: ring, PF: [2]model.F{model.Of(px), model.Of(py)}}
}

// genRingWide: a long thin triangle of whole numbers. One vertex lies a few units from
// the query point, the next one 2^52..2^61 units away in a direction of small whole
// numbers, so that the edge passes the point at a distance far below one unit (or
// through it); the small ordinates are multiples of a power of two, so that every
// difference with a large one can be exactly representable, while the products of the
// differences need up to 125 bits.
func genRingWide(t *rapid.T) Case {
	unit := math.Ldexp(1, rapid.SampledFrom([]int{0, 4, 8, 10, 11, 12}).Draw(t, "shift"))
	w := func(l string, lim int) float64 { return float64(rapid.IntRange(-lim, lim).Draw(t, l)) * unit }
	px, py := w("px", 100), w("py", 100)
	u, v := float64(rapid.IntRange(-7, 7).Draw(t, "u")), float64(rapid.IntRange(-7, 7).Draw(t, "v"))
	if u == 0 && v == 0 {
		v = 1
	}
	// the near vertex k steps back along the edge direction from the point (the point
	// then lies on the edge up to the rounding of the far vertex), now and then a unit aside
	k := float64(rapid.IntRange(1, 3).Draw(t, "k"))
	ax, ay := px-k*u*unit, py-k*v*unit
	if rapid.IntRange(0, 3).Draw(t, "aside") == 0 {
		ax += w("dax", 1)
		ay += w("day", 1)
	}
	m := float64(rapid.Int64Range(1<<52, 1<<60).Draw(t, "m"))
	bx, by := nudge(ax+m*u, rapid.IntRange(-2, 2).Draw(t, "nbx")), nudge(ay+m*v, rapid.IntRange(-2, 2).Draw(t, "nby"))
	var cx, cy float64
	switch rapid.IntRange(0, 2).Draw(t, "third") {
	case 0:
		cx, cy = ax-w("cx", 1000), by
	case 1:
		cx, cy = ax-m*v/2, ay+m*u/2
	default:
		cx, cy = bx, ay+w("cy", 1000)
	}
	tri := [][2]model.F{{model.Of(ax), model.Of(ay)}, {model.Of(bx), model.Of(by)}, {model.Of(cx), model.Of(cy)}}
	if rapid.Bool().Draw(t, "rev") {
		tri[1], tri[2] = tri[2], tri[1]
	}
	r := rapid.IntRange(0, 2).Draw(t, "rot")
	ring := append(append([][2]model.F{}, tri[r:]...), tri[:r]...)
	ring = append(ring, ring[0])
	return Case{Mode: "ringfloat", Class: "wholewide/long-edge", RingF: ring, PF: [2]model.F{model.Of(px), model.Of(py)}}
}

// genRingSpan: a sliver or box whose width (or height, or both) is more than the largest
// float64: its vertices have ordinates beyond 2^1023 of opposite signs, so that the
// difference of two of them is infinite in float64 while every ordinate is finite. The
// query point lies on a long edge, level with one, inside, outside, or at a corner.
func genRingSpan(t *rapid.T) Case {
	big := func(l string) float64 {
		return rapid.SampledFrom([]float64{math.MaxFloat64, 0x1p1023, 0x1.8p1023, 0x1.fffffp1023, 0x1p1023 + 0x1p971}).Draw(t, l)
	}
	small := func(l string) float64 {
		return float64(rapid.IntRange(-5, 5).Draw(t, l)) * rapid.SampledFrom([]float64{1, 1, 0.5, 0x1p900, 0x1p-1074}).Draw(t, l+"unit")
	}
	x0, x1 := -big("x0"), big("x1")
	y0 := small("y0")
	y1 := y0 + float64(rapid.IntRange(1, 9).Draw(t, "h"))*rapid.SampledFrom([]float64{1, 1, 0x1p900}).Draw(t, "hunit")
	if rapid.IntRange(0, 3).Draw(t, "tall") == 0 {
		y0, y1 = -big("y0b"), big("y1b")
	}
	if y1 == y0 || math.IsInf(y1, 0) {
		y1 = y0 + 1
	}
	ring := [][2]model.F{{model.Of(x0), model.Of(y0)}, {model.Of(x1), model.Of(y0)}, {model.Of(x1), model.Of(y1)}, {model.Of(x0), model.Of(y1)}}
	if rapid.Bool().Draw(t, "slant") {
		// a slanted long edge: the top right corner a little higher
		ring[2][1] = model.Of(y1 + math.Abs(y1-y0)/4)
		if math.IsInf(ring[2][1].V(), 0) {
			ring[2][1] = model.Of(y1)
		}
	}
	if rapid.Bool().Draw(t, "rev") {
		ring[1], ring[3] = ring[3], ring[1]
	}
	r := rapid.IntRange(0, 3).Draw(t, "rot")
	ring = append(append([][2]model.F{}, ring[r:]...), ring[:r]...)
	ring = append(ring, ring[0])
	px := rapid.SampledFrom([]float64{0, 1, -3.5, x0, x1, x0 / 2, x1 / 2, 0x1p1000, -0x1p1022}).Draw(t, "px")
	py := rapid.SampledFrom([]float64{y0, y1, (y0 + y1) / 2, y0 - 1, y1 + 1, y0 + (y1-y0)/4, 0}).Draw(t, "py")
	if math.IsInf(py, 0) || math.IsNaN(py) {
		py = 0
	}
	return Case{Mode: "ringfloat", Class: "span-beyond-maxfloat", RingF: ring, PF: [2]model.F{model.Of(px), model.Of(py)}}
}

// genRingSpanSlant: a triangle with a slanted edge from (-m, a) to (m, b), m beyond
// 2^1023 (the edge's x extent is infinite in float64, its y extent a few units), and a
// query point on that edge, a quarter of a unit or a hair above or below it, at a
// quarter, half or three quarters of its length.
func genRingSpanSlant(t *rapid.T) Case {
	m := rapid.SampledFrom([]float64{0x1p1023, 0x1.8p1023, math.MaxFloat64 - 0x1p970*3}).Draw(t, "m")
	// heights in units of 4, 1, 1/4, 2^-10 or 2^-30: with small heights one of the two
	// products of the orientation determinant stays finite while the other factor's
	// difference has overflowed; with larger ones both products overflow
	u := rapid.SampledFrom([]float64{4, 1, 0.25, 0.25, 0x1p-10, 0x1p-30}).Draw(t, "hunit")
	a := u * float64(rapid.IntRange(-3, 3).Draw(t, "a"))
	b := a + u*float64(rapid.IntRange(1, 4).Draw(t, "db"))*float64(1-2*rapid.IntRange(0, 1).Draw(t, "bsign"))
	c := math.Min(a, b) - u*float64(rapid.IntRange(1, 9).Draw(t, "dc"))
	cx := m
	if rapid.Bool().Draw(t, "cleft") {
		cx = -m
	}
	tri := [][2]model.F{{model.Of(-m), model.Of(a)}, {model.Of(m), model.Of(b)}, {model.Of(cx), model.Of(c)}}
	if rapid.Bool().Draw(t, "rev") {
		tri[1], tri[2] = tri[2], tri[1]
	}
	r := rapid.IntRange(0, 2).Draw(t, "rot")
	ring := append(append([][2]model.F{}, tri[r:]...), tri[:r]...)
	ring = append(ring, ring[0])
	q := rapid.SampledFrom([]float64{0.25, 0.5, 0.75}).Draw(t, "at")
	px := (2*q - 1) * m
	py := a + q*(b-a) + u*rapid.SampledFrom([]float64{0, 0, 0.25, -0.25, 0x1p-20, -0x1p-20}).Draw(t, "off")
	return Case{Mode: "ringfloat", Class: "span-beyond-maxfloat/slant", RingF: ring, PF: [2]model.F{model.Of(px), model.Of(py)}}
}

func genCase(t *rapid.T) Case {
	if rapid.IntRange(0, 14).Draw(t, "ringwide") == 7 {
		return genRingWide(t)
	}
	if rapid.IntRange(0, 24).Draw(t, "ringspanslant") == 11 {
		return genRingSpanSlant(t)
	}
	if rapid.IntRange(0, 24).Draw(t, "ringspan") == 13 {
		return genRingSpan(t)
	}
	if rapid.IntRange(0, 19).Draw(t, "linelattice") == 11 {
		return genLineLattice(t)
	}
	switch rapid.IntRange(0, 11).Draw(t, "mode") {
	case 0, 1:
		return genLineCase(t)
	case 2, 3:
		return genLineFloat(t)
	case 4, 5, 6, 7:
		return genRingFloat(t)
	}
	return genRingCase(t)
}

func prop(c Case) error {
	// the other exported function of the package the predicates compute with runs first
	// (whatever it returns or panics with): it shares nothing with them that could
	// change an answer
	_ = run.Safe(func() error {
		_ = bigxy.Intersection(geom.Coord{0.1, 0.7}, geom.Coord{3.3, -1.9}, geom.Coord{-2.5, 0.3}, geom.Coord{4.7, 1.1})
		return nil
	})
	return prop0(c)
}

func prop0(c Case) error {
	switch c.Mode {
	case "ring":
		if err := checkRing(c.P, c.Ring, geom.XY, "ring"); err != nil {
			return err
		}
		want := locate(c.P, c.Ring)
		li := 0
		for _, vr := range variants(c.Ring) {
			name, v := vr.name, vr.ring
			if got := locate(c.P, v); got != want {
				return fmt.Errorf("harness inconsistency: exact location of variant %q is %v, of the ring %v", name, got, want)
			}
			li++
			if err := checkRing(c.P, v, layouts[(li+len(c.Ring))%len(layouts)], name); err != nil {
				return err
			}
		}
		for _, l := range layouts[1:] {
			if err := checkRing(c.P, c.Ring, l, "layout "+l.String()); err != nil {
				return err
			}
		}
		return nil
	case "ringfloat":
		pe := exact.Pt(c.PF[0].V(), c.PF[1].V())
		want := exact.Locate(pe, pts(c.RingF))
		if err := checkRingF(c.PF, c.RingF, geom.XY, "ring", locName(want)); err != nil {
			return err
		}
		for li, vr := range variantsF(c.RingF) {
			// the even-odd location does not depend on direction, start vertex or repeated
			// vertices; the oracle itself is re-evaluated on the first two variants only
			if li < 2 {
				if got := exact.Locate(pe, pts(vr.ring)); got != want {
					return fmt.Errorf("harness inconsistency: exact location of variant %q is %v, of the ring %v", vr.name, got, want)
				}
			}
			if err := checkRingF(c.PF, vr.ring, layouts[(li+len(c.RingF))%len(layouts)], vr.name, locName(want)); err != nil {
				return err
			}
		}
		return nil
	case "line":
		want := false
		for i := 1; i < len(c.Ring); i++ {
			if onSeg(c.P, c.Ring[i-1], c.Ring[i]) {
				want = true
			}
		}
		pc := geom.Coord{float64(c.P[0]), float64(c.P[1])}
		for _, l := range layouts {
			if got := xy.IsOnLine(l, pc, flatRing(c.Ring, l)); got != want {
				return fmt.Errorf("IsOnLine(%v, p=%v, line=%v) = %v, exact %v", l, c.P, c.Ring, got, want)
			}
			if pz := withExtras(pc.Clone(), l.Stride()-2); len(pz) > 2 {
				if got := xy.IsOnLine(l, pz, flatRing(c.Ring, l)); got != want {
					return fmt.Errorf("IsOnLine(%v, p=%v, line=%v) = %v, exact %v", l, pz, c.Ring, got, want)
				}
			}
		}
		for i := 1; i < len(c.Ring); i++ {
			a, b := c.Ring[i-1], c.Ring[i]
			w := onSeg(c.P, a, b)
			ac, bc := geom.Coord{float64(a[0]), float64(a[1])}, geom.Coord{float64(b[0]), float64(b[1])}
			if got := lineintersector.PointIntersectsLine(lineintersector.RobustLineIntersector{}, pc, ac, bc); got != w {
				return fmt.Errorf("PointIntersectsLine(robust, p=%v, %v-%v) = %v, exact %v", c.P, a, b, got, w)
			}
			if got := lineintersector.PointIntersectsLine(lineintersector.RobustLineIntersector{}, pc, bc, ac); got != w {
				return fmt.Errorf("PointIntersectsLine(robust, p=%v, %v-%v reversed) = %v, exact %v", c.P, a, b, got, w)
			}
		}
		return nil
	case "linefloat":
		p := exact.Pt(c.PF[0].V(), c.PF[1].V())
		want := false
		var flat []float64
		for i, q := range c.LineF {
			flat = append(flat, q[0].V(), q[1].V())
			if i > 0 && exact.OnSegment(p, exact.Pt(c.LineF[i-1][0].V(), c.LineF[i-1][1].V()), exact.Pt(q[0].V(), q[1].V())) {
				want = true
			}
		}
		pc := geom.Coord{c.PF[0].V(), c.PF[1].V()}
		if got := xy.IsOnLine(geom.XY, pc, flat); got != want {
			return fmt.Errorf("IsOnLine(p=%v, line=%v) = %v, exact %v", pc, flat, got, want)
		}
		// the query point handed over with its Z and M (a Coord of another layout)
		for n := 1; n <= 2; n++ {
			if pz := withExtras(pc.Clone(), n); xy.IsOnLine(geom.XY, pz, flat) != want {
				return fmt.Errorf("IsOnLine(p=%v, line=%v) = %v, exact %v", pz, flat, !want, want)
			}
		}
		return nil
	}
	return fmt.Errorf("bad mode %q", c.Mode)
}

func selfIntersects(ring [][2]int64) bool {
	n := len(ring) - 1
	for i := 0; i < n; i++ {
		for j := i + 2; j < n; j++ {
			if i == 0 && j == n-1 {
				continue
			}
			a, b, c, d := ring[i], ring[i+1], ring[j], ring[j+1]
			o1, o2, o3, o4 := sgn(cross(a, b, c)), sgn(cross(a, b, d)), sgn(cross(c, d, a)), sgn(cross(c, d, b))
			if o1*o2 < 0 && o3*o4 < 0 {
				return true
			}
		}
	}
	return false
}

func sgn(x int64) int {
	switch {
	case x > 0:
		return 1
	case x < 0:
		return -1
	}
	return 0
}

func classify(c Case) ([]string, bool) {
	cl := []string{"mode:" + c.Mode}
	if len(c.Ring) > 60 {
		cl = append(cl, "long(>60 vertices)")
	}
	switch c.Mode {
	case "ring":
		loc := locate(c.P, c.Ring)
		cl = append(cl, "loc:"+loc.String(), "point:"+c.Class)
		nt := loc == location.Boundary
		for i, v := range c.Ring {
			if v[1] == c.P[1] {
				nt = true
				if i > 0 && c.Ring[i-1][1] == c.P[1] && c.Ring[i-1] != v {
					cl = append(cl, "horizontal-edge-on-level")
				}
			}
		}
		if selfIntersects(c.Ring) {
			cl = append(cl, "self-intersecting")
			nt = true
		}
		return cl, nt
	case "ringfloat":
		loc := locName(exact.Locate(exact.Pt(c.PF[0].V(), c.PF[1].V()), pts(c.RingF)))
		cl = append(cl, "floc:"+loc.String(), "fpoint:"+c.Class)
		if len(c.RingF) > 20 {
			cl = append(cl, "long-float-ring")
		}
		return cl, true
	case "line":
		on := false
		for i := 1; i < len(c.Ring); i++ {
			on = on || onSeg(c.P, c.Ring[i-1], c.Ring[i])
		}
		if on {
			cl = append(cl, "on-line")
		}
		return cl, true
	}
	return cl, true
}

var spec = run.Spec[Case]{ID: "C11", Name: "locate", Gen: genCase, Prop: prop, Classify: classify}

func TestPropLocate(t *testing.T) { run.Generated(t, spec) }
func TestRegress(t *testing.T)    { run.Regress(t, spec) }
func TestReplay(t *testing.T) {
	run.ReplayOne(t, spec)
	run.ReplayOne(t, combSpec)
	run.ReplayOne(t, concSpec)
}

// TestExhaustive4x4 enumerates every closed ring of 3 and 4 vertices on the
// 4x4 grid against every query point of the grid (1 114 112 cases).
func TestExhaustive4x4(t *testing.T) {
	shard, shards := run.Shard()
	total := int64(0)
	pt := func(i int) [2]int64 { return [2]int64{int64(i % 4), int64(i / 4)} }
	flat := make([]float64, 10)
	for nv := 3; nv <= 4; nv++ {
		lim := 1
		for i := 0; i < nv; i++ {
			lim *= 16
		}
		for code := 0; code < lim; code++ {
			if code%shards != shard {
				continue
			}
			ring := make([][2]int64, 0, nv+1)
			x := code
			for i := 0; i < nv; i++ {
				ring = append(ring, pt(x%16))
				x /= 16
			}
			ring = append(ring, ring[0])
			fl := flat[:2*len(ring)]
			for i, p := range ring {
				fl[2*i], fl[2*i+1] = float64(p[0]), float64(p[1])
			}
			for q := 0; q < 16; q++ {
				p := pt(q)
				want := locate(p, ring)
				total++
				got := xy.LocatePointInRing(geom.XY, geom.Coord{float64(p[0]), float64(p[1])}, fl)
				ev.Default.CaseHash(uint64(nv)<<40|uint64(code)<<8|uint64(q), "grid4x4", want == location.Boundary, func() any { return Case{Mode: "ring", Class: "grid4x4", Ring: ring, P: p} })
				if got != want {
					c := Case{Mode: "ring", Class: "grid4x4", Ring: ring, P: p}
					run.One(t, spec, c)
					return
				}
			}
		}
	}
	ev.Default.ExhaustiveSpace("all closed rings of 3 and 4 vertices on the 4x4 grid x all 16 query points (this shard's share)", total)
}
