package c11

import (
	"fmt"
	"testing"

	geom "github.com/twpayne/go-geom"

	"verifharness/internal/ev"
	"verifharness/internal/run"
)

// CombCase is a comb with T teeth (a spine along y in [0,1], tooth i over x in
// [4i, 4i+2] up to y = 10) and a query point in tooth K, or in the gap to its right, at
// height Y: the ray to the right crosses the sides of every tooth beyond it, up to
// 2T-1 edges - more than a counter of 8 or 16 bits holds.
type CombCase struct {
	T      int  `json:"t"`
	K      int  `json:"k"`
	Y      int  `json:"y"`
	Gap    bool `json:"gap,omitempty"`
	Layout int  `json:"layout"`
	Rev    bool `json:"rev,omitempty"`
}

func combRing(t int) [][2]int64 {
	ring := [][2]int64{{0, 0}, {int64(4*t - 2), 0}}
	for i := t - 1; i >= 0; i-- {
		x := int64(4 * i)
		ring = append(ring, [2]int64{x + 2, 1}, [2]int64{x + 2, 10}, [2]int64{x, 10}, [2]int64{x, 1})
	}
	return append(ring, [2]int64{0, 0})
}

func propComb(c CombCase) error {
	ring := combRing(c.T)
	if c.Rev {
		for i, j := 0, len(ring)-1; i < j; i, j = i+1, j-1 {
			ring[i], ring[j] = ring[j], ring[i]
		}
	}
	x := int64(4*c.K + 1)
	if c.Gap {
		x += 2
	}
	return checkRing([2]int64{x, int64(c.Y)}, ring, geom.Layout(c.Layout), fmt.Sprintf("comb of %d teeth, point in %s %d at height %d", c.T, map[bool]string{false: "tooth", true: "the gap right of tooth"}[c.Gap], c.K, c.Y))
}

var combSpec = run.Spec[CombCase]{ID: "C11", Name: "comb", Prop: propComb, Classify: func(c CombCase) ([]string, bool) {
	return []string{"comb"}, true
}}

func TestExhaustiveCombs(t *testing.T) {
	shard, shards := run.Shard()
	teeth := []int{31, 32, 33, 63, 64, 65, 66, 127, 128, 129, 130, 255, 256, 257}
	if run.Thorough() {
		teeth = append(teeth, 16383, 16384, 16385, 16386, 32767, 32768, 32769, 32770)
	}
	n := 0
	for ti, T := range teeth {
		for _, k := range []int{0, 1, T / 2, T - 2, T - 1} {
			for _, y := range []int{5, 1, 10, 0} {
				for _, gap := range []bool{false, true} {
					n++
					if n%shards != shard {
						continue
					}
					c := CombCase{T: T, K: k, Y: y, Gap: gap, Layout: int([]geom.Layout{geom.XY, geom.XYZ, geom.XYZM, geom.Layout(5)}[(ti+k)%4]), Rev: (ti+y)%2 == 1}
					ev.Default.CaseHash(uint64(T)<<24|uint64(k)<<8|uint64(y)<<1|uint64(n%2), "comb", true, func() any { return c })
					if !run.One(t, combSpec, c) {
						return
					}
				}
			}
		}
	}
}

func TestRegressCombs(t *testing.T) { run.Regress(t, combSpec) }
