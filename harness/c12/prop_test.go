// C12: segment intersection is classified exactly and located accurately.
package c12

import (
	"fmt"
	"github.com/twpayne/go-geom/bigxy"
	"math"
	"math/big"
	"sort"
	"strings"
	"testing"

	geom "github.com/twpayne/go-geom"
	"github.com/twpayne/go-geom/xy/lineintersection"
	"github.com/twpayne/go-geom/xy/lineintersector"
	"pgregory.net/rapid"

	"verifharness/internal/ev"
	"verifharness/internal/exact"
	"verifharness/internal/model"
	"verifharness/internal/run"
)

func TestMain(m *testing.M) { run.Main(m) }

// Case is two non-degenerate segments P[0]P[1] and P[2]P[3] (float bits; the
// integer classes hold integers) and whether point accuracy is in scope.
type Case struct {
	Class   string        `json:"class"`
	Integer bool          `json:"integer"`
	P       [4][2]model.F `json:"p"`
	// Extra: 0 = plain x,y coordinates; 1 = every endpoint carries its own, distinct
	// third ordinate; 2 = endpoints of different lengths (2, 3, 4, 2 ordinates).
	// Only x and y take part in any of the functions.
	Extra int `json:"extra,omitempty"`
}

func ipt(x, y int64) [2]model.F { return [2]model.F{model.Of(float64(x)), model.Of(float64(y))} }

func genInt(t *rapid.T) Case {
	class := rapid.SampledFrom([]string{"touch-endpoints", "T-junction", "collinear-overlap", "collinear-touch", "collinear-disjoint", "parallel", "crossing", "near-parallel", "random-small", "random-big", "random-wide", "far", "axis-long-crossing", "long-crossing"}).Draw(t, "class")
	k := uint(rapid.IntRange(1, 19).Draw(t, "k"))
	lim := int64(1) << k
	rp := func(l string) [2]int64 {
		return [2]int64{rapid.Int64Range(-lim, lim).Draw(t, l+"x"), rapid.Int64Range(-lim, lim).Draw(t, l+"y")}
	}
	dir := func(l string, m int64) [2]int64 {
		for {
			d := [2]int64{rapid.Int64Range(-m, m).Draw(t, l+"dx"), rapid.Int64Range(-m, m).Draw(t, l+"dy")}
			if d != ([2]int64{}) {
				return d
			}
		}
	}
	add := func(a [2]int64, s int64, d [2]int64) [2]int64 { return [2]int64{a[0] + s*d[0], a[1] + s*d[1]} }
	var a, b, c, d [2]int64
	switch class {
	case "touch-endpoints":
		a = rp("a")
		b = add(a, 1, dir("u", 64))
		c = a
		if rapid.Bool().Draw(t, "atB") {
			c = b
		}
		d = add(c, 1, dir("v", 64))
	case "T-junction":
		a = rp("a")
		u := dir("u", 16)
		m := rapid.Int64Range(2, 8).Draw(t, "m")
		b = add(a, m, u)
		c = add(a, rapid.Int64Range(1, m-1).Draw(t, "at"), u)
		d = add(c, 1, dir("v", 64))
	case "collinear-overlap", "collinear-touch", "collinear-disjoint":
		a = rp("a")
		u := dir("u", 16)
		s := []int64{0, rapid.Int64Range(1, 9).Draw(t, "s1"), 0, 0}
		switch class {
		case "collinear-overlap":
			s[2] = rapid.Int64Range(-4, s[1]).Draw(t, "s2")
			s[3] = rapid.Int64Range(max(s[2]+1, 1), 14).Draw(t, "s3")
			if s[2] == s[1] { // would only touch
				s[2]--
			}
		case "collinear-touch":
			s[2] = s[1]
			s[3] = s[1] + rapid.Int64Range(1, 5).Draw(t, "s3")
		default:
			s[2] = s[1] + rapid.Int64Range(1, 5).Draw(t, "gap")
			s[3] = s[2] + rapid.Int64Range(1, 5).Draw(t, "s3")
		}
		b, c, d = add(a, s[1], u), add(a, s[2], u), add(a, s[3], u)
	case "parallel":
		a = rp("a")
		u := dir("u", 16)
		b = add(a, rapid.Int64Range(1, 6).Draw(t, "m"), u)
		c = add(add(a, rapid.Int64Range(-3, 3).Draw(t, "sh"), u), 1, dir("off", 3))
		d = add(c, rapid.Int64Range(1, 6).Draw(t, "m2"), u)
	case "crossing":
		// proper crossing through a chosen lattice point
		o := rp("o")
		u, v := dir("u", 32), dir("v", 32)
		a, b = add(o, -rapid.Int64Range(1, 5).Draw(t, "s1"), u), add(o, rapid.Int64Range(1, 5).Draw(t, "s2"), u)
		c, d = add(o, -rapid.Int64Range(1, 5).Draw(t, "s3"), v), add(o, rapid.Int64Range(1, 5).Draw(t, "s4"), v)
	case "axis-long-crossing", "long-crossing":
		lim = int64(1) << uint(rapid.SampledFrom([]int{20, 20, 19, 18, 16, 12}).Draw(t, "klong"))
		// a long horizontal (or vertical) segment properly crossed by a long oblique one,
		// with large coordinates; "long-crossing" tilts the first segment as well
		x0, x1 := rapid.Int64Range(-lim, lim-2).Draw(t, "x0"), int64(0)
		x1 = rapid.Int64Range(x0+2, lim).Draw(t, "x1")
		y := rapid.Int64Range(-lim, lim).Draw(t, "y")
		a, b = [2]int64{x0, y}, [2]int64{x1, y}
		c = [2]int64{rapid.Int64Range(x0+1, x1-1).Draw(t, "cx"), y - rapid.Int64Range(1, lim).Draw(t, "h1")}
		d = [2]int64{rapid.Int64Range(x0+1, x1-1).Draw(t, "dx"), y + rapid.Int64Range(1, lim).Draw(t, "h2")}
		if class == "long-crossing" {
			// tilt ab a little around its midpoint region: still crossing when c,d are far above/below
			t1 := rapid.Int64Range(-3, 3).Draw(t, "tilt")
			a[1] -= t1
			b[1] += t1
			c[1] -= 4
			d[1] += 4
		}
		if rapid.Bool().Draw(t, "vertical") {
			a, b, c, d = [2]int64{a[1], a[0]}, [2]int64{b[1], b[0]}, [2]int64{c[1], c[0]}, [2]int64{d[1], d[0]}
		}
	case "near-parallel":
		a = rp("a")
		u := dir("u", 8)
		m := rapid.Int64Range(100, 2000).Draw(t, "m")
		b = add(a, m, u)
		c = add(a, 0, u)
		c[1] += rapid.Int64Range(-1, 1).Draw(t, "c1")
		d = add(a, m, u)
		d[1] += rapid.Int64Range(-1, 1).Draw(t, "d1")
		d[0] += rapid.Int64Range(-1, 1).Draw(t, "d0")
	case "random-wide":
		// whole numbers at the widths of machine integers: differences need one more bit
		// than the type, their products twice as many; every ordinate is at an extreme of
		// the range a third of the time (fat configurations: determinants near 2^(2k+2))
		lim = int64(1) << uint(rapid.SampledFrom([]int{26, 27, 30, 31, 32, 33, 40, 50}).Draw(t, "widek"))
		wp := func(l string) [2]int64 {
			var q [2]int64
			for i := range q {
				switch rapid.IntRange(0, 5).Draw(t, l+"ext") {
				case 0:
					q[i] = lim - 1 // the largest value of a two's-complement type of that width
				case 1:
					q[i] = -lim
				default:
					q[i] = rapid.Int64Range(-lim, lim).Draw(t, l+"v")
				}
			}
			return q
		}
		a, b, c, d = wp("a"), wp("b"), wp("c"), wp("d")
	case "random-small":
		lim = int64(rapid.IntRange(1, 4).Draw(t, "side"))
		a, b, c, d = rp("a"), rp("b"), rp("c"), rp("d")
	case "far":
		a, b = rp("a"), rp("b")
		c, d = rp("c"), rp("d")
		c[0] += 4 * lim
		d[0] += 4 * lim
	default:
		a, b, c, d = rp("a"), rp("b"), rp("c"), rp("d")
	}
	if a == b {
		b[0]++
	}
	if c == d {
		d[1]++
	}
	return Case{Class: class, Integer: true, P: [4][2]model.F{ipt(a[0], a[1]), ipt(b[0], b[1]), ipt(c[0], c[1]), ipt(d[0], d[1])}}
}

func nudge(v float64, k int) float64 {
	for ; k > 0; k-- {
		v = math.Nextafter(v, math.Inf(1))
	}
	for ; k < 0; k++ {
		v = math.Nextafter(v, math.Inf(-1))
	}
	return v
}

func genFloat(t *rapid.T) Case {
	c := genInt(t)
	scale := math.Ldexp(1+float64(rapid.IntRange(0, 1000).Draw(t, "frac"))/1024, rapid.IntRange(-20, 10).Draw(t, "exp"))
	// moderate magnitudes only: a common non-zero offset keeps every ordinate
	// away from zero (nudging 0 would give denormals, outside the domain)
	off := [2]float64{float64(rapid.IntRange(1, 1<<20).Draw(t, "offx")) + 0.5, -float64(rapid.IntRange(1, 1<<20).Draw(t, "offy")) - 0.25}
	for i := range c.P {
		for j := range c.P[i] {
			v := (c.P[i][j].V() + off[j]) * scale
			if v == 0 || math.Abs(v) < 1e-30 {
				v = scale
			}
			c.P[i][j] = model.Of(nudge(v, rapid.IntRange(-3, 3).Draw(t, "ulps")))
		}
	}
	if c.P[0] == c.P[1] {
		c.P[1][0] = model.Of(nudge(c.P[1][0].V(), 5))
	}
	if c.P[2] == c.P[3] {
		c.P[3][1] = model.Of(nudge(c.P[3][1].V(), 5))
	}
	c.Class = "float:" + c.Class
	c.Integer = false
	return c
}

// genWide scales an integer configuration to one end of the float64 range (or
// leaves it around zero with subnormal nudges): products of differences underflow
// or overflow there, and classification must still be exact. Point accuracy is
// not in scope (the statement's "rounding distance" presumes no overflow).
func genWide(t *rapid.T) Case {
	c := genInt(t)
	e := rapid.SampledFrom([]int{-1074, -1060, -1040, -1022, -1000, -560, -540, -531, -528, -525, -520, -512, 480, 490, 500, 512, 980, 1000, 1002}).Draw(t, "wexp")
	for i := range c.P {
		for j := range c.P[i] {
			v := math.Ldexp(c.P[i][j].V(), e)
			v = nudge(v, rapid.IntRange(-2, 2).Draw(t, "ulps"))
			if math.IsInf(v, 0) || math.IsNaN(v) {
				v = math.Copysign(math.MaxFloat64, v)
			}
			c.P[i][j] = model.Of(v)
		}
	}
	// coinciding end points are moved apart, towards zero at the end of the range
	// (five units up from the largest finite value is +Inf, outside the domain)
	apart := func(v float64) float64 {
		if w := nudge(v, 5); !math.IsInf(w, 0) {
			return w
		}
		return nudge(v, -5)
	}
	if c.P[0] == c.P[1] {
		c.P[1][0] = model.Of(apart(c.P[1][0].V()))
	}
	if c.P[2] == c.P[3] {
		c.P[3][1] = model.Of(apart(c.P[3][1].V()))
	}
	c.Class = "wide:" + c.Class
	c.Integer = false
	return c
}

// genNearEnd: an end point of the second segment lies on the first segment up to a
// few units in the last place (computed in floating point, then nudged), so that the
// segments cross, touch or miss within rounding of that end point: the computed
// crossing may fall outside an envelope there, which is where the implementation
// falls back on the most central end point.
func genNearEnd(t *rapid.T) Case {
	f := func(l string) float64 {
		return float64(rapid.IntRange(-4000, 4000).Draw(t, l)) + rapid.SampledFrom([]float64{0, 0, 0.5, 0.25, 0.1, 0.3}).Draw(t, l+"f")
	}
	var c Case
	p1, p2 := [2]float64{f("ax"), f("ay")}, [2]float64{f("bx"), f("by")}
	if p1 == p2 {
		p2[0]++
	}
	tt := rapid.SampledFrom([]float64{0.5, 0.25, 0.75, 1.0 / 3, 0.1, 0.9, 0.001, 0.999}).Draw(t, "tt")
	if rapid.Bool().Draw(t, "anyt") {
		tt = rapid.Float64Range(0, 1).Draw(t, "ttv")
	}
	if rapid.Bool().Draw(t, "atorigin") {
		// the touching point near the origin, where the doubles are spaced as finely as
		// the computation errs: there a computed crossing does leave the envelopes
		d := [2]float64{p2[0] - p1[0], p2[1] - p1[1]}
		p1 = [2]float64{-tt*d[0] + float64(rapid.IntRange(-9, 9).Draw(t, "ox"))*1e-3/3, -tt*d[1] + float64(rapid.IntRange(-9, 9).Draw(t, "oy"))*1e-4/7}
		p2 = [2]float64{p1[0] + d[0], p1[1] + d[1]}
	}
	q1 := [2]float64{nudge(p1[0]+tt*(p2[0]-p1[0]), rapid.IntRange(-3, 3).Draw(t, "ux")), nudge(p1[1]+tt*(p2[1]-p1[1]), rapid.IntRange(-3, 3).Draw(t, "uy"))}
	q2 := [2]float64{f("cx"), f("cy")}
	if q1 == q2 {
		q2[1]++
	}
	pts := [4][2]float64{p1, p2, q1, q2}
	if rapid.Bool().Draw(t, "swapsegs") {
		pts = [4][2]float64{q2, q1, p2, p1}
	}
	for i := range pts {
		c.P[i] = [2]model.F{model.Of(pts[i][0]), model.Of(pts[i][1])}
	}
	c.Class = "float:near-endpoint"
	return c
}

// genHair: exactly collinear segments with float ordinates (on a horizontal or vertical
// line, or on y = x or y = -x, where collinearity survives any rounding of the
// positions), one end point of the second a few units in the last place from an end
// point of the first, or equal to it: overlaps, touches and gaps of a hair's width.
func genHair(t *rapid.T) Case {
	pos := func(l string) float64 {
		v := rapid.Float64Range(-1, 1).Draw(t, l) * math.Ldexp(1, rapid.SampledFrom([]int{0, 0, 1, 10, 20, -3, -20}).Draw(t, l+"e"))
		if rapid.IntRange(0, 3).Draw(t, l+"round") == 0 {
			v = math.Round(v*100) / 100
		}
		return v
	}
	a, b := pos("a"), pos("b")
	if a == b {
		b = a + 1
	}
	cc := nudge([]float64{a, b}[rapid.IntRange(0, 1).Draw(t, "near")], rapid.IntRange(-3, 3).Draw(t, "ulps"))
	d := pos("d")
	if rapid.Bool().Draw(t, "dnear") {
		d = nudge([]float64{a, b}[rapid.IntRange(0, 1).Draw(t, "dnearto")], rapid.IntRange(-3, 3).Draw(t, "dulps"))
	}
	if cc == d {
		d = nudge(d, 7)
	}
	other := pos("other")
	line := rapid.SampledFrom([]string{"h", "v", "d", "a"}).Draw(t, "line")
	at := func(s float64) [2]model.F {
		switch line {
		case "h":
			return [2]model.F{model.Of(s), model.Of(other)}
		case "v":
			return [2]model.F{model.Of(other), model.Of(s)}
		case "d":
			return [2]model.F{model.Of(s), model.Of(s)}
		}
		return [2]model.F{model.Of(s), model.Of(-s)}
	}
	c := Case{Class: "float:collinear-hair", P: [4][2]model.F{at(a), at(b), at(cc), at(d)}}
	if rapid.Bool().Draw(t, "swapsegs") {
		c.P = [4][2]model.F{c.P[2], c.P[3], c.P[1], c.P[0]}
	}
	return c
}

// genMixedMagnitudes: magnitudes hundreds of binades apart within one pair of segments.
// One segment runs from the origin (or a denormal's breadth from it) to a point beyond
// 2^500; the other starts a tiny distance (2^-1074 .. 2^-500) from the first one's near
// end - on it, beside it, or at it - and leads to a point of any size. No single unit
// brings all four points into a comfortable range: scaled down the tiny ones vanish,
// scaled up the far ones overflow. Classification only (exact in rational arithmetic).
func genMixedMagnitudes(t *rapid.T) Case {
	pow := func(l string, lo, hi int) float64 {
		v := math.Ldexp(float64(rapid.IntRange(1, 7).Draw(t, l+"m")), rapid.IntRange(lo, hi).Draw(t, l+"e"))
		if rapid.Bool().Draw(t, l+"neg") {
			v = -v
		}
		return v
	}
	tinyOrZero := func(l string) float64 {
		if rapid.IntRange(0, 2).Draw(t, l+"zero") == 0 {
			return 0
		}
		return pow(l, -1074, -500)
	}
	var c Case
	c.P[0] = [2]model.F{model.Of(tinyOrZero("ax")), model.Of(tinyOrZero("ay"))}
	c.P[1] = [2]model.F{model.Of(pow("bx", 500, 1018)), model.Of(pow("by", 500, 1018))}
	if rapid.Bool().Draw(t, "isotropic") {
		// both ordinates of the far end in the same binade (a far point on a diagonal)
		e := rapid.IntRange(500, 1018).Draw(t, "be")
		c.P[1] = [2]model.F{model.Of(math.Ldexp(float64(rapid.IntRange(1, 7).Draw(t, "bmx")), e)), model.Of(math.Ldexp(float64(rapid.IntRange(1, 7).Draw(t, "bmy")), e))}
	}
	switch rapid.IntRange(0, 3).Draw(t, "start") {
	case 0: // at the near end itself
		c.P[2] = c.P[0]
	case 1, 2: // on the first segment's line a tiny step along it, or a unit in the last place beside that
		k := math.Ldexp(1, rapid.IntRange(-2090, -1010).Draw(t, "along"))
		x, y := c.P[0][0].V()+c.P[1][0].V()*k, c.P[0][1].V()+c.P[1][1].V()*k
		if rapid.Bool().Draw(t, "beside") {
			if rapid.Bool().Draw(t, "besidex") {
				x = nudge(x, rapid.SampledFrom([]int{-2, -1, 1, 2}).Draw(t, "ulpx"))
			} else {
				y = nudge(y, rapid.SampledFrom([]int{-2, -1, 1, 2}).Draw(t, "ulpy"))
			}
		}
		c.P[2] = [2]model.F{model.Of(x), model.Of(y)}
	default: // a tiny distance off
		c.P[2] = [2]model.F{model.Of(tinyOrZero("cx")), model.Of(tinyOrZero("cy"))}
	}
	switch rapid.IntRange(0, 2).Draw(t, "end") {
	case 0:
		c.P[3] = [2]model.F{model.Of(pow("dx", -20, 20)), model.Of(pow("dy", -20, 20))}
	case 1:
		c.P[3] = [2]model.F{model.Of(pow("dx", 500, 1018)), model.Of(pow("dy", 500, 1018))}
	default:
		c.P[3] = [2]model.F{model.Of(tinyOrZero("dx")), model.Of(tinyOrZero("dy"))}
	}
	if c.P[0] == c.P[1] {
		c.P[1][0] = model.Of(1)
	}
	if c.P[2] == c.P[3] {
		c.P[3][1] = model.Of(c.P[3][1].V() + 1)
	}
	if rapid.Bool().Draw(t, "swap") {
		c.P[0], c.P[1], c.P[2], c.P[3] = c.P[2], c.P[3], c.P[0], c.P[1]
	}
	c.Class = "mixed-magnitudes"
	return c
}

// genBezoutNearTouch: a segment a-b with direction m*(p, q), p and q coprime and up to
// 2^31, and a segment that starts at c = a + k*(p, q) + (d1, d2) with p*d2 - q*d1 = 1
// (Bezout): c is off the line through a and b by one unit of area, the least a lattice
// point can be, while the products that decide the side have 62 bits. The other end d
// lies further out on the same side, so the segments do not meet. Everything is a whole
// number of units of 2^e; e runs over the band where such products are normal numbers
// and their rounding errors are not (and over the rest of the range).
func genBezoutNearTouch(t *rapid.T) Case {
	kb := rapid.IntRange(4, 30).Draw(t, "bk")
	tuned := rapid.Bool().Draw(t, "btuned")
	if tuned {
		kb = rapid.IntRange(25, 30).Draw(t, "bkbig")
	}
	k0 := int64(1) << uint(kb)
	var pp, qq, d1, d2 int64
	for {
		pp, qq = rapid.Int64Range(k0, 2*k0).Draw(t, "bp"), rapid.Int64Range(k0, 2*k0).Draw(t, "bq")
		r0, r1, s0, s1, t0, t1 := pp, qq, int64(1), int64(0), int64(0), int64(1)
		for r1 != 0 {
			q := r0 / r1
			r0, r1, s0, s1, t0, t1 = r1, r0-q*r1, s1, s0-q*s1, t1, t0-q*t1
		}
		if r0 != 1 {
			continue
		}
		d2, d1 = s0, -t0 // pp*d2 - qq*d1 = 1
		for d1 < 0 {
			d1, d2 = d1+pp, d2+qq
		}
		for d1 >= pp {
			d1, d2 = d1-pp, d2-qq
		}
		if pp*d2-qq*d1 == 1 {
			break
		}
	}
	m := rapid.Int64Range(2, 4).Draw(t, "bm")
	k := rapid.Int64Range(1, m-1).Draw(t, "bkk")
	ax, ay := rapid.Int64Range(-1<<31, 1<<31).Draw(t, "bax"), rapid.Int64Range(-1<<31, 1<<31).Draw(t, "bay")
	side := int64(1 - 2*rapid.IntRange(0, 1).Draw(t, "bside")) // which side of a->b
	cx, cy := ax+k*pp+side*d1, ay+k*qq+side*d2
	// d: from c along the left normal (-q, p) (times side), some way out, and along the segment
	w := rapid.Int64Range(1, 3).Draw(t, "bw")
	dx, dy := cx-side*w*qq+rapid.Int64Range(-2, 2).Draw(t, "bj")*pp, cy+side*w*pp
	e := rapid.IntRange(-575, -495).Draw(t, "be")
	if rapid.IntRange(0, 2).Draw(t, "bany") == 0 {
		e = rapid.SampledFrom([]int{-1000, -800, -600, -300, 0, 300, 600, 900}).Draw(t, "be2")
	}
	if tuned {
		// the unit fitted to the size: the products (of about 2*(kb+2) bits) lie in the few
		// binades just above the smallest normal number
		e = -(1022+2*(kb+2))/2 + rapid.IntRange(0, 5).Draw(t, "bej")
	}
	f := func(v int64) model.F { return model.Of(math.Ldexp(float64(v), e)) }
	c := Case{Class: "bezout-near-touch", P: [4][2]model.F{{f(ax), f(ay)}, {f(ax + m*pp), f(ay + m*qq)}, {f(cx), f(cy)}, {f(dx), f(dy)}}}
	if rapid.Bool().Draw(t, "bswap") {
		c.P[0], c.P[1], c.P[2], c.P[3] = c.P[2], c.P[3], c.P[0], c.P[1]
	}
	return c
}

// genRaggedCollinear: four points exactly on a line y = m*x (or x = m*y) through the
// origin with a small whole m, whose abscissae are 30-to-44-bit whole numbers of units
// that differ by up to a hundred binades: every point is exactly on the line (m*x is
// exact), yet no difference of two ordinates is representable, so differences computed
// in float64 are no longer proportional. Ends are shared by value in most cases - the
// second segment starts or ends at an end of the first - so that the pair touches at
// the shared vertex, or overlaps from it on, depending only on the sides.
func genRaggedCollinear(t *rapid.T) Case {
	m := float64(rapid.SampledFrom([]int{3, 1, 2, -3, 5, -1, 7}).Draw(t, "rm"))
	absc := func(l string) float64 {
		j := float64(rapid.Int64Range(1<<30, 1<<44).Draw(t, l+"j") | 1)
		e := rapid.SampledFrom([]int{-80, -25, -27, -78, -60, -40, 0}).Draw(t, l+"e")
		if rapid.IntRange(0, 3).Draw(t, l+"neg") == 0 {
			j = -j
		}
		return math.Ldexp(j, e)
	}
	var x [4]float64
	for i := range x {
		x[i] = absc(fmt.Sprintf("rx%d", i))
	}
	if x[1] == x[0] {
		x[1] = 2 * x[0]
	}
	switch rapid.IntRange(0, 5).Draw(t, "rshare") {
	case 0:
		x[2] = x[0]
	case 1:
		x[3] = x[0]
	case 2:
		x[2] = x[1]
	case 3:
		x[3] = x[1]
	}
	if x[3] == x[2] {
		x[3] = x[2] / 2
	}
	var c Case
	swap := rapid.Bool().Draw(t, "raxes")
	for i := range x {
		px, py := x[i], m*x[i]
		if swap {
			px, py = py, px
		}
		c.P[i] = [2]model.F{model.Of(px), model.Of(py)}
	}
	c.Class = "ragged-collinear"
	return c
}

func genCase(t *rapid.T) Case {
	var c Case
	if rapid.IntRange(0, 19).Draw(t, "ragged") == 11 {
		c = genRaggedCollinear(t)
		c.Extra = rapid.SampledFrom([]int{0, 0, 1, 2, 3}).Draw(t, "extra")
		return c
	}
	if rapid.IntRange(0, 19).Draw(t, "bezout") == 7 {
		c = genBezoutNearTouch(t)
		c.Extra = rapid.SampledFrom([]int{0, 0, 1, 2, 3}).Draw(t, "extra")
		return c
	}
	if rapid.IntRange(0, 19).Draw(t, "mixedmag") == 13 {
		c = genMixedMagnitudes(t)
		c.Extra = rapid.SampledFrom([]int{0, 0, 1, 2, 3}).Draw(t, "extra")
		return c
	}
	if k := rapid.IntRange(0, 9).Draw(t, "float"); k == 9 {
		c = genHair(t)
	} else if k == 0 {
		c = genWide(t)
	} else if k == 8 {
		c = genNearEnd(t)
	} else if k <= 2 {
		c = genFloat(t)
	} else {
		c = genInt(t)
	}
	c.Extra = rapid.SampledFrom([]int{0, 0, 1, 2, 3}).Draw(t, "extra")
	return c
}

func ep(p [2]model.F) exact.P2   { return exact.Pt(p[0].V(), p[1].V()) }
func co(p [2]model.F) geom.Coord { return geom.Coord{p[0].V(), p[1].V()} }

// coi is endpoint i of the case as the coordinate handed to the library.
func coi(c Case, i int) geom.Coord {
	out := co(c.P[i])
	switch c.Extra {
	case 1:
		out = append(out, float64(100+i))
	case 2:
		for k := 0; k < []int{0, 1, 2, 0}[i]; k++ {
			out = append(out, float64(10*i+k)+0.5)
		}
	case 3: // a Z that is not a number, an M that is infinite (the intersector works in x and y)
		out = append(out, math.NaN(), math.Inf(1-2*(i%2)))
	}
	return out
}

var variants = [][4]int{{0, 1, 2, 3}, {1, 0, 2, 3}, {0, 1, 3, 2}, {1, 0, 3, 2}, {2, 3, 0, 1}, {3, 2, 0, 1}, {2, 3, 1, 0}, {3, 2, 1, 0}}

var u53 = new(big.Rat).SetFrac(big.NewInt(1), new(big.Int).Lsh(big.NewInt(1), 53))

func absR(r *big.Rat) *big.Rat { return new(big.Rat).Abs(r) }

func minmax(a, b *big.Rat) (*big.Rat, *big.Rat) {
	if a.Cmp(b) <= 0 {
		return a, b
	}
	return b, a
}

// pointBound derives, per axis, the forward error bound of the documented
// computation (normalise to the centre of the envelope intersection, then the
// homogeneous-coordinate formula), in exact arithmetic.
func pointBound(p [4]exact.P2, x exact.P2) (bx, by *big.Rat) {
	two := big.NewRat(2, 1)
	mid := func(get func(exact.P2) *big.Rat) *big.Rat {
		lo1, hi1 := minmax(get(p[0]), get(p[1]))
		lo2, hi2 := minmax(get(p[2]), get(p[3]))
		lo := lo1
		if lo2.Cmp(lo) > 0 {
			lo = lo2
		}
		hi := hi1
		if hi2.Cmp(hi) < 0 {
			hi = hi2
		}
		return exact.Quo(exact.Add(lo, hi), two)
	}
	nx := mid(func(q exact.P2) *big.Rat { return q.X })
	ny := mid(func(q exact.P2) *big.Rat { return q.Y })
	var q [4]exact.P2
	for i := range p {
		q[i] = exact.P2{X: exact.Sub(p[i].X, nx), Y: exact.Sub(p[i].Y, ny)}
	}
	l1X, l1Y := exact.Sub(q[0].Y, q[1].Y), exact.Sub(q[1].X, q[0].X)
	l2X, l2Y := exact.Sub(q[2].Y, q[3].Y), exact.Sub(q[3].X, q[2].X)
	w := exact.Sub(exact.Mul(l1X, l2Y), exact.Mul(l2X, l1Y))
	aw := absR(w)
	k := exact.Mul(big.NewRat(16, 1), u53)
	// magnitudes of every intermediate of the formula
	wTerms := exact.Add(absR(exact.Mul(l1X, l2Y)), absR(exact.Mul(l2X, l1Y)))
	l1Wt := exact.Add(absR(exact.Mul(q[0].X, q[1].Y)), absR(exact.Mul(q[1].X, q[0].Y)))
	l2Wt := exact.Add(absR(exact.Mul(q[2].X, q[3].Y)), absR(exact.Mul(q[3].X, q[2].Y)))
	tx := exact.Add(exact.Mul(absR(l1Y), l2Wt), exact.Mul(absR(l2Y), l1Wt))
	ty := exact.Add(exact.Mul(absR(l2X), l1Wt), exact.Mul(absR(l1X), l2Wt))
	rel := exact.Quo(wTerms, aw) // amplification through the rounding of w
	bx = exact.Mul(k, exact.Add(exact.Add(exact.Quo(tx, aw), exact.Mul(rel, absR(exact.Sub(x.X, nx)))), exact.Add(absR(x.X), absR(nx))))
	by = exact.Mul(k, exact.Add(exact.Add(exact.Quo(ty, aw), exact.Mul(rel, absR(exact.Sub(x.Y, ny)))), exact.Add(absR(x.Y), absR(ny))))
	return bx, by
}

func bitsEq(c geom.Coord, p [2]model.F) bool {
	return len(c) >= 2 && math.Float64bits(c[0]) == uint64(p[0]) && math.Float64bits(c[1]) == uint64(p[1])
}

// prop checks the four points as given, then the same four points paired into
// segments the other two ways (the other edges and the diagonals of the same
// quadrilateral, each against its own exact answer), then as given once more: an
// answer depends on which points form a segment, not on which points were seen before.
func prop(c Case) error {
	// the exact-arithmetic package's other exported function runs first (whatever it
	// returns or panics with): it shares nothing with what is measured here
	_ = run.Safe(func() error {
		_ = bigxy.Intersection(geom.Coord{0.1, 0.7}, geom.Coord{3.3, -1.9}, geom.Coord{-2.5, 0.3}, geom.Coord{4.7, 1.1})
		return nil
	})
	return propMain(c)
}

func propMain(c Case) error {
	if err := propOne(c); err != nil {
		return err
	}
	for _, idx := range [][4]int{{0, 2, 1, 3}, {0, 3, 2, 1}} {
		d := c
		d.P = [4][2]model.F{c.P[idx[0]], c.P[idx[1]], c.P[idx[2]], c.P[idx[3]]}
		if err := propOne(d); err != nil {
			return fmt.Errorf("the same four points paired %v: %v", idx, err)
		}
	}
	if err := propOne(c); err != nil {
		return fmt.Errorf("asked again after the same points were paired differently: %v", err)
	}
	return nil
}

// myStrategy is the robust strategy embedded in a type of the caller's.
type myStrategy struct {
	lineintersector.RobustLineIntersector
}

func propOne(c Case) error {
	var P [4]exact.P2
	for i := range P {
		P[i] = ep(c.P[i])
	}
	if P[0].Eq(P[1]) || P[2].Eq(P[3]) {
		return nil // degenerate segments are outside the property
	}
	wantKind, wantPts := exact.SegSeg(P[0], P[1], P[2], P[3])
	before := c.P
	// the caller's own four coordinates, kept over all variants: overwritten in place
	// with the next variant's end points and handed over again (a loop over the segments
	// of two lines does this with one Coord per role)
	var bufs [4]geom.Coord
	for k := range bufs {
		bufs[k] = make(geom.Coord, 0, 8)
	}
	for vi, idx := range variants {
		in := [4]geom.Coord{coi(c, idx[0]), coi(c, idx[1]), coi(c, idx[2]), coi(c, idx[3])}
		for k := range bufs {
			bufs[k] = append(bufs[k][:0], in[k]...)
		}
		if rb := lineintersector.LineIntersectsLine(lineintersector.RobustLineIntersector{}, bufs[0], bufs[1], bufs[2], bufs[3]); int(rb.Type()) != wantKind {
			return fmt.Errorf("robust, variant %d %v of %v, the end points written into the four coordinates the caller used for the variant before: type %v, exact %v", vi, idx, show(c), rb.Type(), lineintersection.Type(wantKind))
		}
		// end points that coincide are, in every other variant, one and the same slice
		// (what ls.Coord(i) passed twice is): the answer is that of the values
		if vi%2 == 1 {
			for k := 1; k < 4; k++ {
				for m := 0; m < k; m++ {
					if c.P[idx[k]] == c.P[idx[m]] && len(in[k]) == len(in[m]) {
						in[k] = in[m]
					}
				}
			}
		}
		var handed [4]geom.Coord
		for k := range in {
			handed[k] = in[k].Clone()
		}
		// the strategy as a value, as a pointer, and embedded in a caller's own type: all
		// three are the robust strategy
		strategy := []lineintersector.Strategy{lineintersector.RobustLineIntersector{}, &lineintersector.RobustLineIntersector{}, myStrategy{}}[vi%3]
		r := lineintersector.LineIntersectsLine(strategy, in[0], in[1], in[2], in[3])
		what := fmt.Sprintf("robust (%T), variant %d %v of %v", strategy, vi, idx, show(c))
		// (the points reported may alias the coordinates handed in - a collinear overlap is
		// reported as the endpoint slices themselves; no statement says otherwise, so the
		// result is only read here, never written)
		for k := range in {
			want := handed[k]
			if len(in[k]) != len(want) {
				return fmt.Errorf("%s: argument %d now has %d ordinates, had %d", what, k, len(in[k]), len(want))
			}
			for d := range want {
				if math.Float64bits(in[k][d]) != math.Float64bits(want[d]) {
					return fmt.Errorf("%s: the call changed ordinate %d of its argument %d from %v to %v", what, d, k, want[d], in[k][d])
				}
			}
		}
		if int(r.Type()) != wantKind {
			return fmt.Errorf("%s: type %v, exact %v", what, r.Type(), lineintersection.Type(wantKind))
		}
		if r.HasIntersection() != (wantKind != exact.NoInt) {
			return fmt.Errorf("%s: HasIntersection inconsistent with type", what)
		}
		pts := r.Intersection()
		switch wantKind {
		case exact.NoInt:
			if len(pts) != 0 {
				return fmt.Errorf("%s: no intersection but %d points reported", what, len(pts))
			}
		case exact.PointInt:
			if len(pts) != 1 {
				return fmt.Errorf("%s: point intersection with %d points", what, len(pts))
			}
			x := wantPts[0]
			atEndpoint, copied := -1, false
			for i := range P {
				if P[i].Eq(x) {
					atEndpoint = i
					// several endpoints may sit at that position (the shared one of both
					// segments; 0 and -0 are one position): a copy of any of them is exact
					copied = copied || bitsEq(pts[0], c.P[i])
				}
			}
			if atEndpoint >= 0 {
				if !copied {
					return fmt.Errorf("%s: intersection is the endpoint %v but %v was reported", what, co(c.P[atEndpoint]), pts[0])
				}
			} else if c.Integer || strings.HasPrefix(c.Class, "float:") && moderate(c) {
				bx, by := pointBound(P, x)
				if !c.Integer {
					// the bound is derived for exactly representable differences; float
					// ordinates add the rounding of every subtraction: four times the bound
					// (largest error seen for a computed point: 0.28 of the plain bound)
					eight := big.NewRat(4, 1)
					bx, by = exact.Mul(bx, eight), exact.Mul(by, eight)
				}
				got := exact.Pt(pts[0][0], pts[0][1])
				dx, dy := absR(exact.Sub(got.X, x.X)), absR(exact.Sub(got.Y, x.Y))
				ok := dx.Cmp(bx) <= 0 && dy.Cmp(by) <= 0
				computed := true // a point that was computed, not an end point handed back
				for i := range c.P {
					if bitsEq(pts[0], c.P[i]) {
						computed = false
					}
				}
				if ok && computed && bx.Sign() > 0 && by.Sign() > 0 {
					ev.Default.MaxOf("point_err_over_bound", math.Max(exact.Float(exact.Quo(dx, bx)), exact.Float(exact.Quo(dy, by))))
				}
				if !ok {
					// the documented envelope check may replace a point that falls outside an
					// envelope by the most central endpoint, only near an envelope border
					isEndpoint := false
					for i := range c.P {
						if bitsEq(pts[0], c.P[i]) {
							isEndpoint = true
						}
					}
					near := nearEnvelopeBorder(P, x, bx, by)
					if !(isEndpoint && near) {
						return fmt.Errorf("%s: reported %v, exact crossing (%v, %v), error (%.3g, %.3g) exceeds the rounding bound (%.3g, %.3g)", what, pts[0], exact.Float(x.X), exact.Float(x.Y), exact.Float(dx), exact.Float(dy), exact.Float(bx), exact.Float(by))
					}
					ev.Default.Count("central_endpoint_fallback_accepted", 1)
				}
			} else if math.IsNaN(pts[0][0]) || math.IsNaN(pts[0][1]) {
				return fmt.Errorf("%s: NaN intersection point", what)
			}
		case exact.CollinearInt:
			if len(pts) != 2 {
				return fmt.Errorf("%s: collinear overlap with %d points", what, len(pts))
			}
			g0, g1 := exact.Pt(pts[0][0], pts[0][1]), exact.Pt(pts[1][0], pts[1][1])
			if !(g0.Eq(wantPts[0]) && g1.Eq(wantPts[1]) || g0.Eq(wantPts[1]) && g1.Eq(wantPts[0])) {
				return fmt.Errorf("%s: overlap reported as %v - %v, exact overlap (%v,%v) - (%v,%v)", what, pts[0], pts[1], exact.Float(wantPts[0].X), exact.Float(wantPts[0].Y), exact.Float(wantPts[1].X), exact.Float(wantPts[1].Y))
			}
		}
		// the four end points as windows of one flat array (each window's capacity runs on
		// over its neighbours), laid out in a rotated order: same type, array untouched
		if vi%3 == 0 {
			var flat []float64
			var off, ln [4]int
			for r := 0; r < 4; r++ {
				k := (r + 1 + vi) % 4
				w := coi(c, idx[k])
				off[k], ln[k] = len(flat), len(w)
				flat = append(flat, w...)
			}
			flat = append(flat, 7, 7, 7)[:len(flat)]
			before := append([]float64{}, flat[:cap(flat)]...)
			w := func(k int) geom.Coord { return geom.Coord(flat[off[k] : off[k]+ln[k]]) }
			rw := lineintersector.LineIntersectsLine(lineintersector.RobustLineIntersector{}, w(0), w(1), w(2), w(3))
			if int(rw.Type()) != wantKind {
				return fmt.Errorf("%s, end points as windows of one array: type %v, exact %v", what, rw.Type(), lineintersection.Type(wantKind))
			}
			now := flat[:cap(flat)]
			for i := range before {
				if math.Float64bits(before[i]) != math.Float64bits(now[i]) {
					return fmt.Errorf("%s, end points as windows of one array: element %d of the array changed from %v to %v", what, i, before[i], now[i])
				}
			}
		}
		// ("exactly representable inputs": whole numbers small enough that every product of
		// two differences, and their sums, are exact in float64 - within 2^25)
		if c.Integer && smallWhole(c) {
			nr := lineintersector.LineIntersectsLine(lineintersector.NonRobustLineIntersector{}, coi(c, idx[0]), coi(c, idx[1]), coi(c, idx[2]), coi(c, idx[3]))
			if nr.HasIntersection() != (wantKind != exact.NoInt) {
				return fmt.Errorf("non-robust, variant %d of %v: HasIntersection = %v, exact type %v", vi, show(c), nr.HasIntersection(), lineintersection.Type(wantKind))
			}
			// the same configuration in other units: every ordinate times a power of two
			// stays exactly representable, and so does every difference, product of two
			// differences and sum of such products between 2^-1022 and 2^1023 (whole
			// numbers within 2^25 times 2^e, -330 <= e <= 300: products of three stay in
			// range as well), so the answer is the same
			for _, e := range []int{-330, -300, -269, -200, -64, 64, 200, 300} {
				sc := func(i int) geom.Coord {
					o := coi(c, i)
					o[0], o[1] = math.Ldexp(o[0], e), math.Ldexp(o[1], e)
					return o
				}
				ns := lineintersector.LineIntersectsLine(lineintersector.NonRobustLineIntersector{}, sc(idx[0]), sc(idx[1]), sc(idx[2]), sc(idx[3]))
				if ns.HasIntersection() != (wantKind != exact.NoInt) {
					return fmt.Errorf("non-robust, variant %d of %v times 2^%d: HasIntersection = %v, exact type %v", vi, show(c), e, ns.HasIntersection(), lineintersection.Type(wantKind))
				}
			}
		}
	}
	if c.P != before {
		return fmt.Errorf("inputs modified")
	}
	return nil
}

func smallWhole(c Case) bool {
	for _, p := range c.P {
		for _, f := range p {
			if math.Abs(f.V()) > 1<<25 {
				return false
			}
		}
	}
	return true
}

// moderate: every ordinate is zero or between 2^-500 and 2^500 in magnitude, so that no
// product or quotient of the computation under- or overflows (the statement's
// "rounding distance" presumes that; a nudged zero is a denormal).
func moderate(c Case) bool {
	for _, p := range c.P {
		for _, f := range p {
			if v := math.Abs(f.V()); v != 0 && (v < 0x1p-500 || v > 0x1p500) {
				return false
			}
		}
	}
	return true
}

func nearEnvelopeBorder(P [4]exact.P2, x exact.P2, bx, by *big.Rat) bool {
	for s := 0; s < 4; s += 2 {
		lox, hix := minmax(P[s].X, P[s+1].X)
		loy, hiy := minmax(P[s].Y, P[s+1].Y)
		if absR(exact.Sub(x.X, lox)).Cmp(bx) <= 0 || absR(exact.Sub(x.X, hix)).Cmp(bx) <= 0 || absR(exact.Sub(x.Y, loy)).Cmp(by) <= 0 || absR(exact.Sub(x.Y, hiy)).Cmp(by) <= 0 {
			return true
		}
	}
	return false
}

func show(c Case) string {
	return fmt.Sprintf("(%v,%v)-(%v,%v) / (%v,%v)-(%v,%v)", c.P[0][0].V(), c.P[0][1].V(), c.P[1][0].V(), c.P[1][1].V(), c.P[2][0].V(), c.P[2][1].V(), c.P[3][0].V(), c.P[3][1].V())
}

func classify(c Case) ([]string, bool) {
	var P [4]exact.P2
	for i := range P {
		P[i] = ep(c.P[i])
	}
	if P[0].Eq(P[1]) || P[2].Eq(P[3]) {
		return []string{"degenerate-skipped"}, false
	}
	k, pts := exact.SegSeg(P[0], P[1], P[2], P[3])
	cl := []string{"class:" + c.Class, "exact:" + lineintersection.Type(k).String()}
	if k == exact.PointInt {
		at := false
		for i := range P {
			if P[i].Eq(pts[0]) {
				at = true
			}
		}
		if at {
			cl = append(cl, "point-at-endpoint")
		} else {
			cl = append(cl, "proper-crossing")
		}
	}
	// envelopes disjoint?
	disjoint := false
	for _, get := range []func(exact.P2) *big.Rat{func(q exact.P2) *big.Rat { return q.X }, func(q exact.P2) *big.Rat { return q.Y }} {
		lo1, hi1 := minmax(get(P[0]), get(P[1]))
		lo2, hi2 := minmax(get(P[2]), get(P[3]))
		if hi1.Cmp(lo2) < 0 || hi2.Cmp(lo1) < 0 {
			disjoint = true
		}
	}
	if disjoint {
		cl = append(cl, "envelopes-disjoint")
	}
	return cl, !disjoint
}

var spec = run.Spec[Case]{ID: "C12", Name: "intersect", Gen: genCase, Prop: prop, Classify: classify}

func TestPropIntersect(t *testing.T) { run.Generated(t, spec) }
func TestRegress(t *testing.T)       { run.Regress(t, spec) }
func TestReplay(t *testing.T) {
	run.ReplayOne(t, spec)
	run.ReplayOne(t, concSpec)
}

// TestExhaustiveGrid enumerates every ordered pair of non-degenerate segments
// on the 4x4 grid (57 600 pairs; 5x5 = 360 000 in the thorough tier).
func TestExhaustiveGrid(t *testing.T) {
	n := 4
	if run.Thorough() {
		n = 5
	}
	shard, shards := run.Shard()
	pts := n * n
	var segs [][2]int
	for i := 0; i < pts; i++ {
		for j := 0; j < pts; j++ {
			if i != j {
				segs = append(segs, [2]int{i, j})
			}
		}
	}
	sort.Slice(segs, func(i, j int) bool { return segs[i][0]*pts+segs[i][1] < segs[j][0]*pts+segs[j][1] })
	pt := func(i int) [2]model.F { return ipt(int64(i%n), int64(i/n)) }
	total := int64(0)
	for si, s1 := range segs {
		if si%shards != shard {
			continue
		}
		for sj, s2 := range segs {
			c := Case{Class: "grid", Integer: true, P: [4][2]model.F{pt(s1[0]), pt(s1[1]), pt(s2[0]), pt(s2[1])}}
			total++
			_, nt := classify(c)
			ev.Default.CaseHash(uint64(n)<<48|uint64(si)<<24|uint64(sj), "grid", nt, func() any { return c })
			if !run.One(t, spec, c) {
				return
			}
		}
	}
	ev.Default.ExhaustiveSpace(fmt.Sprintf("all ordered pairs of non-degenerate segments on the %dx%d grid (this shard's share)", n, n), total)
}
