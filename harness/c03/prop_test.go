// C03: WKB/EWKB emit the standard byte layout and decode back to the same geometry.
package c03

import (
	"bufio"
	"bytes"
	"database/sql"
	"database/sql/driver"
	"encoding/binary"
	"encoding/hex"
	"errors"
	"fmt"
	"io"
	"sort"
	"strings"
	"testing"
	"testing/iotest"

	geom "github.com/twpayne/go-geom"
	"github.com/twpayne/go-geom/encoding/ewkb"
	"github.com/twpayne/go-geom/encoding/ewkbhex"
	"github.com/twpayne/go-geom/encoding/wkb"
	"github.com/twpayne/go-geom/encoding/wkbcommon"
	"github.com/twpayne/go-geom/encoding/wkbhex"
	"pgregory.net/rapid"

	"verifharness/internal/gen"
	"verifharness/internal/model"
	"verifharness/internal/refwkb"
	"verifharness/internal/run"
)

func TestMain(m *testing.M) { run.Main(m) }

// Case is one geometry with the encoding parameters and the I/O schedule.
type Case struct {
	G      model.G `json:"g"`
	Mode   string  `json:"mode"` // wkb-nan | wkb-err | ewkb
	XDR    bool    `json:"xdr"`
	Route  int     `json:"route"`
	Reader string  `json:"reader"` // chunks | onebyte | half | dataerr | whole
	Chunks []int   `json:"chunks,omitempty"`
	Concat int     `json:"concat"`
	FailAt int     `json:"failAt"` // write call at which the writer starts failing
	// Deep: the geometry is also encoded and decoded at the bottom of this many nested
	// collections (both formats express any depth).
	Deep int `json:"deep,omitempty"`
	// FlipMask: bit n set = the n-th geometry header (members at any depth) is written
	// in the other byte order than its parent, for the decode direction: each
	// geometry of an encoding carries its own byte-order mark.
	FlipMask uint64 `json:"flipMask,omitempty"`
	// FailHow: what the writer returns at that call (io.Writer allows all three):
	// 0 = (0, err), 1 = (len/2, err), 2 = (len, err).
	FailHow int  `json:"failHow,omitempty"`
	Upper   bool `json:"upper"`
	// Poison: an encoding that fails half-way (a collection whose last member is a
	// LinearRing) precedes everything else; it must leave nothing behind.
	Poison bool `json:"poison,omitempty"`
}

var layouts = []geom.Layout{geom.XY, geom.XYZ, geom.XYM, geom.XYZM, geom.XY, geom.XYZ, geom.XYM, geom.XYZM, geom.Layout(5), geom.NoLayout}

func genCase(t *rapid.T) Case {
	mode := rapid.SampledFrom([]string{"ewkb", "wkb-nan", "wkb-err"}).Draw(t, "mode")
	o := gen.TreeOpts{
		Layouts: layouts, Kinds: append(append([]string{}, gen.AllKinds...), model.GeometryCollection, model.LinearRing),
		Floats: gen.AllBits, MaxDepth: 4, MaxParts: 3, MaxPts: 4, MixLayouts: rapid.Bool().Draw(t, "mix"),
		FixedCollectionPct: 40, PEmpty: 25, LongPct: 1, LongMax: 200,
	}
	if mode == "ewkb" {
		o.SRID = gen.SRIDs
	}
	if rapid.IntRange(0, 3).Draw(t, "plainfloats") == 0 {
		o.Floats = gen.SmallInt
	}
	g := gen.Tree(t, o)
	if mode == "ewkb" && g.IsCollection() && rapid.IntRange(0, 4).Draw(t, "memberSRIDs") == 0 {
		// members of a collection may carry their own SRID in go-geom; EWKB then flags
		// and writes it for that member too (SRID word exactly where it is non-zero)
		first := true
		g.Walk(func(x *model.G) {
			if first {
				first = false
				return
			}
			if rapid.Bool().Draw(t, "hasSRID") {
				x.SRID = gen.SRIDs(t)
			}
		})
	}
	c := Case{
		G: *g, Mode: mode, XDR: rapid.Bool().Draw(t, "xdr"),
		Route:    rapid.IntRange(0, int(model.NumRoutes)-1).Draw(t, "route"),
		Reader:   rapid.SampledFrom([]string{"chunks", "onebyte", "half", "dataerr", "whole", "bufio", "bufio", "lenchunks", "lenchunks"}).Draw(t, "reader"),
		Concat:   rapid.IntRange(1, 3).Draw(t, "concat"),
		FailAt:   rapid.IntRange(0, 40).Draw(t, "failAt"),
		FailHow:  rapid.IntRange(0, 3).Draw(t, "failHow"),
		FlipMask: rapid.Uint64().Draw(t, "flipMask"),
		Deep:     rapid.SampledFrom([]int{0, 0, 0, 0, 0, 0, 0, 0, 0, 0, 0, 0, 0, 0, 0, 0, 0, 0, 0, 0, 0, 0, 0, 0, 0, 0, 0, 0, 0, 0, 5, 16, 31, 32, 33, 64, 65, 130, 200, 201, 257, 1030}).Draw(t, "deep"),
		Upper:    rapid.Bool().Draw(t, "upper"),
		Poison:   rapid.IntRange(0, 3).Draw(t, "poison") == 0,
	}
	if c.Reader == "chunks" || c.Reader == "bufio" || c.Reader == "lenchunks" {
		n := rapid.IntRange(1, 12).Draw(t, "nchunks")
		for i := 0; i < n; i++ {
			c.Chunks = append(c.Chunks, rapid.IntRange(1, 24).Draw(t, "chunk"))
		}
	}
	return c
}

// chunkReader returns the data in chunks of the given sizes (cycled); the last
// chunk may be returned together with io.EOF.
type chunkReader struct {
	data    []byte
	sizes   []int
	i       int
	withEOF bool
}

func (r *chunkReader) Read(p []byte) (int, error) {
	if len(r.data) == 0 {
		return 0, io.EOF
	}
	if len(p) == 0 {
		return 0, nil
	}
	n := r.sizes[r.i%len(r.sizes)]
	r.i++
	if n > len(p) {
		n = len(p)
	}
	if n > len(r.data) {
		n = len(r.data)
	}
	copy(p, r.data[:n])
	r.data = r.data[n:]
	if len(r.data) == 0 && r.withEOF {
		return n, io.EOF
	}
	return n, nil
}

// lenChunkReader is a chunkReader with a Len method that reports the size of the
// chunk the next Read will hand out (what a ring buffer or a framed stream reports).
type lenChunkReader struct{ chunkReader }

func (r *lenChunkReader) Len() int {
	if len(r.data) == 0 {
		return 0
	}
	return min(r.sizes[r.i%len(r.sizes)], len(r.data))
}

var errInjected = errors.New("injected writer failure")

// failWriter accepts the first n Write calls and fails afterwards.
type failWriter struct {
	n        int
	how      int // at the failing call: 0 = (0, err); 1 = half of the bytes and err; 2 = all of the bytes and err; 3 = (0, err) once, later calls succeed
	accepted bytes.Buffer
	calls    int
	failed   bool
}

func (w *failWriter) Write(p []byte) (int, error) {
	if w.how == 3 && w.failed {
		// transient failure: the one call failed, the stream works again afterwards
		w.calls++
		return len(p), nil
	}
	if w.calls >= w.n {
		first := !w.failed
		w.failed = true
		k := 0
		if first {
			switch w.how {
			case 1:
				k = len(p) / 2
			case 2:
				k = len(p)
			}
		}
		w.accepted.Write(p[:k])
		return k, errInjected
	}
	w.calls++
	w.accepted.Write(p)
	return len(p), nil
}

// isCanonNaNPoint reports whether all ordinates are the canonical NaN.
func isCanonNaNPoint(c []model.F) bool {
	if len(c) == 0 {
		return false
	}
	for _, v := range c {
		if v != refwkb.CanonNaN {
			return false
		}
	}
	return true
}

// expected applies the carve-outs of the property to a copy of g: what a decode
// of g's encoding must equal.
func expected(g *model.G, mode string, top bool) *model.G {
	e := *g
	if mode != "ewkb" {
		e.SRID = 0
	}
	nanEmpty := mode != "wkb-err"
	switch g.Kind {
	case model.Point:
		if nanEmpty && isCanonNaNPoint(g.C0) {
			e.C0 = nil
		}
	case model.MultiPoint:
		e.C1 = make([][]model.F, len(g.C1))
		for i, c := range g.C1 {
			if nanEmpty && isCanonNaNPoint(c) {
				e.C1[i] = nil
			} else {
				e.C1[i] = c
			}
		}
	case model.GeometryCollection:
		e.Members = make([]model.G, len(g.Members))
		for i := range g.Members {
			e.Members[i] = *expected(&g.Members[i], mode, false)
		}
		if len(e.Members) == 0 {
			// an empty collection decodes with the layout of its type code
			if e.Layout == 0 {
				e.Layout = int(geom.XY)
			}
		} else {
			e.Layout = 0 // a decoded non-empty collection reports the join of its members
			_ = top
		}
	}
	return &e
}

type codec struct {
	marshal   func(geom.T, binary.ByteOrder) ([]byte, error)
	unmarshal func([]byte) (geom.T, error)
	write     func(io.Writer, binary.ByteOrder, geom.T) error
	read      func(io.Reader) (geom.T, error)
	hexEnc    func(geom.T, binary.ByteOrder) (string, error)
	hexDec    func(string) (geom.T, error)
}

func codecFor(mode string) codec {
	switch mode {
	case "ewkb":
		return codec{ewkb.Marshal, ewkb.Unmarshal, ewkb.Write, ewkb.Read, ewkbhex.Encode, ewkbhex.Decode}
	case "wkb-nan":
		opt := wkbcommon.WKBOptionEmptyPointHandling(wkbcommon.EmptyPointHandlingNaN)
		return codec{
			func(g geom.T, bo binary.ByteOrder) ([]byte, error) { return wkb.Marshal(g, bo, opt) },
			func(b []byte) (geom.T, error) { return wkb.Unmarshal(b, opt) },
			func(w io.Writer, bo binary.ByteOrder, g geom.T) error { return wkb.Write(w, bo, g, opt) },
			func(r io.Reader) (geom.T, error) { return wkb.Read(r, opt) },
			func(g geom.T, bo binary.ByteOrder) (string, error) { return wkbhex.Encode(g, bo, opt) },
			func(s string) (geom.T, error) { return wkbhex.Decode(s, opt) },
		}
	}
	return codec{
		func(g geom.T, bo binary.ByteOrder) ([]byte, error) { return wkb.Marshal(g, bo) },
		func(b []byte) (geom.T, error) { return wkb.Unmarshal(b) },
		func(w io.Writer, bo binary.ByteOrder, g geom.T) error { return wkb.Write(w, bo, g) },
		func(r io.Reader) (geom.T, error) { return wkb.Read(r) },
		func(g geom.T, bo binary.ByteOrder) (string, error) { return wkbhex.Encode(g, bo) },
		func(s string) (geom.T, error) { return wkbhex.Decode(s) },
	}
}

func sameModel(what string, want *model.G, got geom.T, srid bool) error {
	if got == nil {
		return fmt.Errorf("%s: nil geometry", what)
	}
	gm, err := model.FromGeom(got)
	if err != nil {
		return fmt.Errorf("%s: decoded geometry not well formed: %v", what, err)
	}
	if d := model.Diff(want, gm, srid); d != "" {
		return fmt.Errorf("%s: %s", what, d)
	}
	return nil
}

func prop(c Case) error {
	g := &c.G
	t, err := model.Build(g, model.Route(c.Route))
	if err != nil {
		return fmt.Errorf("build: %v", err)
	}
	cd := codecFor(c.Mode)
	var bo binary.ByteOrder = binary.LittleEndian
	if c.XDR {
		bo = binary.BigEndian
	}
	refMode := refwkb.ISO
	if c.Mode == "ewkb" {
		refMode = refwkb.EWKB
	}
	want, _, refErr := refwkb.Encode(g, c.XDR, refMode)
	mustFail := refErr != nil || (c.Mode == "wkb-err" && refwkb.HasEmptyPoint(g))
	if c.Poison {
		bad := geom.NewGeometryCollection()
		ok := geom.NewLineString(geom.XYZ).MustSetCoords([]geom.Coord{{1, 2, 3}, {4, 5, 6}})
		if err := bad.Push(ok, geom.NewLinearRing(geom.XY).MustSetCoords([]geom.Coord{{0, 0}, {1, 0}, {1, 1}, {0, 0}})); err != nil {
			return fmt.Errorf("harness: cannot build the unencodable collection: %v", err)
		}
		if b, err := cd.marshal(bad, bo); err == nil {
			return fmt.Errorf("%s Marshal accepted a collection with a LinearRing member (% x)", c.Mode, b)
		}
		if err := cd.write(io.Discard, bo, bad); err == nil {
			return fmt.Errorf("%s Write accepted a collection with a LinearRing member", c.Mode)
		}
		if _, err := cd.hexEnc(bad, bo); err == nil {
			return fmt.Errorf("%s hex Encode accepted a collection with a LinearRing member", c.Mode)
		}
	}
	held := model.Leaves(t) // the caller's aliases of the coordinates, taken before any call
	got, err := cd.marshal(t, bo)
	if mustFail {
		if err == nil {
			return fmt.Errorf("%s Marshal accepted a geometry the format cannot carry (got % x)", c.Mode, got)
		}
		// specific error types for the simple top-level cases
		var ul geom.ErrUnsupportedLayout
		var ut geom.ErrUnsupportedType
		switch {
		case g.Kind == model.LinearRing:
			if !errors.As(err, &ut) {
				return fmt.Errorf("LinearRing: error %T %v, want geom.ErrUnsupportedType", err, err)
			}
		case !g.IsCollection() && (g.Layout == 0 || g.Layout > 4):
			if !errors.As(err, &ul) {
				return fmt.Errorf("layout %v: error %T %v, want geom.ErrUnsupportedLayout", g.Lay(), err, err)
			}
		}
		if err.Error() == "" {
			return fmt.Errorf("empty error text")
		}
		// streams and wrappers must refuse too
		if werr := cd.write(io.Discard, bo, t); werr == nil {
			return fmt.Errorf("Write accepted what Marshal refused")
		}
		if _, herr := cd.hexEnc(t, bo); herr == nil {
			return fmt.Errorf("hex Encode accepted what Marshal refused")
		}
		return nil
	}
	if err != nil {
		return fmt.Errorf("%s Marshal: %v", c.Mode, err)
	}
	// (a) the standard bytes
	if !bytes.Equal(got, want) {
		return fmt.Errorf("%s Marshal differs from the reference encoding:\n got  % x\n want % x", c.Mode, got, want)
	}
	// (b) decode back
	exp := expected(g, c.Mode, true)
	dec, err := cd.unmarshal(want)
	if err != nil {
		return fmt.Errorf("Unmarshal of own encoding: %v", err)
	}
	if err := sameModel("Unmarshal", exp, dec, true); err != nil {
		return err
	}
	// the decoded geometry owns its coordinates: the caller overwrites the byte slice it
	// handed over (a reused read buffer) and the geometry stays what it was
	{
		buf := append([]byte(nil), want...)
		dg, err := cd.unmarshal(buf)
		if err != nil {
			return fmt.Errorf("Unmarshal of a copy of the encoding: %v", err)
		}
		for i := range buf {
			buf[i] = 0xA5
		}
		if err := sameModel("the geometry returned by Unmarshal, after the caller overwrote the bytes it was decoded from", exp, dg, true); err != nil {
			return err
		}
	}
	// the same geometry with members in byte orders of their own
	if mixed, _, _, _, err := refwkb.EncodeMixed(g, c.XDR, refMode, func(n int) bool { return c.FlipMask>>(uint(n)%64)&1 == 1 }); err == nil && !bytes.Equal(mixed, want) {
		dm, err := cd.unmarshal(mixed)
		if err != nil {
			return fmt.Errorf("Unmarshal of an encoding whose members use byte orders of their own: %v\n% x", err, mixed)
		}
		if err := sameModel("Unmarshal (members in byte orders of their own)", exp, dm, true); err != nil {
			return err
		}
	}
	// the same geometry object as a member in several places of a collection tree
	// (a value, not a cycle): GEOMETRYCOLLECTION(g, GEOMETRYCOLLECTION(g), g)
	{
		inner, outer := geom.NewGeometryCollection(), geom.NewGeometryCollection()
		if inner.Push(t) == nil && outer.Push(t, inner, t) == nil {
			gm := &model.G{Kind: model.GeometryCollection, Members: []model.G{*g, {Kind: model.GeometryCollection, Members: []model.G{*g}}, *g}}
			if want3, _, err := refwkb.Encode(gm, c.XDR, refMode); err == nil && !(c.Mode == "wkb-err" && refwkb.HasEmptyPoint(gm)) {
				got3, err := cd.marshal(outer, bo)
				if err != nil || !bytes.Equal(got3, want3) {
					return fmt.Errorf("%s Marshal of a collection holding the same object three times: %v\n got  % x\n want % x", c.Mode, err, got3, want3)
				}
				dec3, err := cd.unmarshal(want3)
				if err != nil {
					return fmt.Errorf("Unmarshal of a collection holding the same geometry three times: %v", err)
				}
				if err := sameModel("Unmarshal (same geometry three times)", expected(gm, c.Mode, true), dec3, true); err != nil {
					return err
				}
			}
		}
	}
	// the geometry at the bottom of a tower of nested collections
	if c.Deep > 0 {
		var top geom.T = t
		gm := g.Clone()
		ok := true
		for i := 0; i < c.Deep && ok; i++ {
			w := geom.NewGeometryCollection()
			ok = w.Push(top) == nil
			top = w
			gm = &model.G{Kind: model.GeometryCollection, Members: []model.G{*gm}}
		}
		if wantD, _, err := refwkb.Encode(gm, c.XDR, refMode); ok && err == nil && !(c.Mode == "wkb-err" && refwkb.HasEmptyPoint(gm)) {
			gotD, err := cd.marshal(top, bo)
			if err != nil || !bytes.Equal(gotD, wantD) {
				return fmt.Errorf("%s Marshal of %d nested collections: %v (%d bytes, reference %d)", c.Mode, c.Deep, err, len(gotD), len(wantD))
			}
			decD, err := cd.unmarshal(wantD)
			if err != nil {
				return fmt.Errorf("Unmarshal of %d nested collections: %v", c.Deep, err)
			}
			if err := sameModel(fmt.Sprintf("Unmarshal of %d nested collections", c.Deep), expected(gm, c.Mode, true), decD, true); err != nil {
				return err
			}
		}
	}
	// (c) Write
	var buf bytes.Buffer
	if err := cd.write(&buf, bo, t); err != nil {
		return fmt.Errorf("Write: %v", err)
	}
	if !bytes.Equal(buf.Bytes(), want) {
		return fmt.Errorf("Write emitted % x, Marshal % x", buf.Bytes(), want)
	}
	fw := &failWriter{n: c.FailAt, how: c.FailHow}
	werr := cd.write(fw, bo, t)
	if fw.failed {
		if werr == nil {
			return fmt.Errorf("Write to a writer failing at call %d returned nil after %d of %d bytes", c.FailAt, fw.accepted.Len(), len(want))
		}
		if !errors.Is(werr, errInjected) {
			return fmt.Errorf("Write returned %v, not the writer's error", werr)
		}
	} else {
		if werr != nil {
			return fmt.Errorf("Write failed (%v) although the writer never failed", werr)
		}
		if !bytes.Equal(fw.accepted.Bytes(), want) {
			return fmt.Errorf("Write to a healthy writer emitted % x, want % x", fw.accepted.Bytes(), want)
		}
	}
	if c.FailHow != 3 && !bytes.HasPrefix(want, fw.accepted.Bytes()) {
		return fmt.Errorf("bytes accepted before the failure (% x) are not a prefix of the encoding", fw.accepted.Bytes())
	}
	// (d) Read through a splitting reader; concatenated encodings
	var stream []byte
	for i := 0; i < c.Concat; i++ {
		xdr := c.XDR != (i%2 == 1)
		b, _, _ := refwkb.Encode(g, xdr, refMode)
		stream = append(stream, b...)
	}
	var r io.Reader
	switch c.Reader {
	case "onebyte":
		r = iotest.OneByteReader(bytes.NewReader(stream))
	case "half":
		r = iotest.HalfReader(bytes.NewReader(stream))
	case "dataerr":
		r = iotest.DataErrReader(bytes.NewReader(stream))
	case "chunks":
		r = &chunkReader{data: stream, sizes: c.Chunks, withEOF: len(c.Chunks)%2 == 0}
	case "lenchunks":
		// a stream that also has a Len method, meaning the bytes it holds right now (the
		// current chunk), not the bytes still to come
		r = &lenChunkReader{chunkReader{data: stream, sizes: c.Chunks, withEOF: len(c.Chunks)%2 == 0}}
	case "bufio":
		// a *bufio.Reader handed over directly (what a caller reading a file or a socket
		// has), with a buffer size of its own choosing, over a reader that splits the bytes
		size := 16 + 7*len(c.Chunks)
		if len(c.Chunks) > 0 {
			size = []int{16, 17, 20, 28, 36, 100, 250, 1000, 4096, 4097}[c.Chunks[0]%10]
		}
		r = bufio.NewReaderSize(&chunkReader{data: stream, sizes: append([]int{5000}, c.Chunks...)}, size)
	default:
		r = bytes.NewReader(stream)
	}
	for i := 0; i < c.Concat; i++ {
		dg, err := cd.read(r)
		if err != nil {
			return fmt.Errorf("Read #%d of %d through %s reader: %v", i+1, c.Concat, c.Reader, err)
		}
		if err := sameModel(fmt.Sprintf("Read #%d", i+1), exp, dg, true); err != nil {
			return err
		}
	}
	if _, err := cd.read(r); !errors.Is(err, io.EOF) {
		return fmt.Errorf("Read after the last geometry: %v, want io.EOF (reader not positioned at the end)", err)
	}
	// (e) hex
	hs, err := cd.hexEnc(t, bo)
	if err != nil {
		return fmt.Errorf("hex Encode: %v", err)
	}
	if hs != hex.EncodeToString(want) {
		return fmt.Errorf("hex Encode = %s, want lowercase hex of the encoding", hs)
	}
	in := hs
	if c.Upper {
		in = strings.ToUpper(hs)
	}
	hg, err := cd.hexDec(in)
	if err != nil {
		return fmt.Errorf("hex Decode (upper=%v): %v", c.Upper, err)
	}
	if err := sameModel("hex Decode", exp, hg, true); err != nil {
		return err
	}
	// (f) SQL wrappers
	if err := sqlChecks(c, t, exp); err != nil {
		return err
	}
	// (g) what was returned stays what it was: the Marshal result must not alias
	// storage that a later call of the package reuses
	other := geom.NewLineString(geom.XY).MustSetCoords([]geom.Coord{{-7, 9}, {11, -13}, {0.5, 2.25}})
	for i := 0; i < 2; i++ {
		if _, err := cd.marshal(other, bo); err != nil {
			return fmt.Errorf("Marshal of a plain line string: %v", err)
		}
		if _, err := cd.hexEnc(other, bo); err != nil {
			return fmt.Errorf("hex Encode of a plain line string: %v", err)
		}
	}
	if ob, err := cd.marshal(other, bo); err == nil {
		for i := 0; i < 2; i++ {
			if _, err := cd.unmarshal(ob); err != nil {
				return fmt.Errorf("Unmarshal of a plain line string: %v", err)
			}
			if _, err := cd.read(bytes.NewReader(ob)); err != nil {
				return fmt.Errorf("Read of a plain line string: %v", err)
			}
		}
	}
	// ... nor storage shared with a later result of the same shape: a sibling of the
	// geometry (same structure, EMPTY where it is EMPTY, other ordinates, other SRIDs,
	// the other byte order) is decoded by every route
	sib := g.Mapped(func(x float64) float64 { return 2*x + 1 })
	var bump func(m *model.G)
	bump = func(m *model.G) {
		m.SRID += 1000
		for i := range m.Members {
			bump(&m.Members[i])
		}
	}
	bump(sib)
	if sb, _, err := refwkb.Encode(sib, !c.XDR, refMode); err == nil {
		for i := 0; i < 2; i++ {
			_, _ = cd.unmarshal(sb)
			_, _ = cd.read(bytes.NewReader(sb))
			_, _ = cd.hexDec(hex.EncodeToString(sb))
		}
	}
	// ... nor with values that have no coordinates (the ones an implementation is tempted
	// to share): EMPTY geometries of every kind in the four layouts, with SRIDs of their own
	for k, kind := range []string{model.Point, model.LineString, model.Polygon, model.MultiPoint, model.MultiLineString, model.MultiPolygon, model.GeometryCollection} {
		for li, l := range []geom.Layout{geom.XY, geom.XYZ, geom.XYM, geom.XYZM} {
			e := &model.G{Kind: kind, Layout: int(l), SRID: 7000 + 10*k + li}
			if eb, _, err := refwkb.Encode(e, (k+li)%2 == 0, refMode); err == nil {
				_, _ = cd.unmarshal(eb)
			}
		}
	}
	if err := sameModel("the geometry returned by Unmarshal, looked at again after later decodes", exp, dec, true); err != nil {
		return err
	}
	if err := sameModel("the geometry returned by hex Decode, looked at again after later decodes", exp, hg, true); err != nil {
		return err
	}
	if wantHex := hex.EncodeToString(want); hs != wantHex {
		return fmt.Errorf("the string returned by %s hex Encode changed when other geometries were encoded afterwards:\n now  %s\n was  %s", c.Mode, hs, wantHex)
	}
	if !bytes.Equal(got, want) {
		return fmt.Errorf("the slice returned by %s Marshal changed when another geometry was marshalled afterwards:\n now  % x\n was  % x", c.Mode, got, want)
	}
	// the bytes returned belong to the caller: overwritten, they must not come back
	for i := range got {
		got[i] = 0x5A
	}
	if again, err := cd.marshal(t, bo); err != nil || !bytes.Equal(again, want) {
		return fmt.Errorf("%s Marshal after the caller overwrote the slice returned by an earlier Marshal: %v\n got  % x\n want % x", c.Mode, err, again, want)
	}
	// ... and the caller may do to a decoded geometry what it likes (every ordinate
	// overwritten, EMPTY points given coordinates, SRIDs changed): the same bytes decode
	// as before
	model.Spoil(dec)
	model.Spoil(hg)
	if again, err := cd.unmarshal(want); err != nil {
		return fmt.Errorf("Unmarshal of the same bytes after the caller overwrote the geometry decoded from them before: %v", err)
	} else if err := sameModel("the same bytes, decoded again after the caller overwrote the geometry decoded from them before,", exp, again, true); err != nil {
		return err
	}
	// (h) the encoding is that of the coordinates as they are now: the first two
	// ordinates of every coordinate are exchanged in place and the same object is
	// marshalled again
	// (a Valuer wrapper around the object gives its value before and after: what a wrapper
	// hands to database/sql is the encoding of the geometry as it is at that moment)
	sqlMode, sqlRef := c.Mode, refwkb.ISO
	if sqlMode == "wkb-nan" {
		sqlMode = "wkb-err"
	}
	if sqlMode == "ewkb" {
		sqlRef = refwkb.EWKB
	}
	valuer, _, _ := wrappers(sqlMode, t)
	for i := 0; i < 2; i++ {
		_, _ = valuer.Value()
	}
	if model.SwapXY(held) {
		g2 := g.SwappedXY() // from the model: the object is not read back
		if ndr2, _, err := refwkb.Encode(g2, false, sqlRef); err == nil && !(sqlMode == "wkb-err" && refwkb.HasEmptyPoint(g2)) {
			v2, err := valuer.Value()
			if vb2, ok := v2.([]byte); err != nil || !ok || !bytes.Equal(vb2, ndr2) {
				return fmt.Errorf("%s Value() of a wrapper around the same object after its ordinates were exchanged in place:\n got  % x (%v)\n want % x", sqlMode, v2, err, ndr2)
			}
		}
		want2, _, refErr2 := refwkb.Encode(g2, c.XDR, refMode)
		if refErr2 == nil && !(c.Mode == "wkb-err" && refwkb.HasEmptyPoint(g2)) {
			got2, err := cd.marshal(t, bo)
			if err != nil || !bytes.Equal(got2, want2) {
				return fmt.Errorf("%s Marshal of the same object after its ordinates were exchanged in place:\n got  % x (%v)\n want % x", c.Mode, got2, err, want2)
			}
		}
	}
	return nil
}

type scanValuer interface {
	sql.Scanner
	driver.Valuer
}

func wrappers(mode string, t geom.T) (match scanValuer, others map[string]scanValuer, get func() geom.T) {
	if mode == "ewkb" {
		p, ls, pg, mp, mls, mpg, gc := &ewkb.Point{}, &ewkb.LineString{}, &ewkb.Polygon{}, &ewkb.MultiPoint{}, &ewkb.MultiLineString{}, &ewkb.MultiPolygon{}, &ewkb.GeometryCollection{}
		all := map[string]scanValuer{model.Point: p, model.LineString: ls, model.Polygon: pg, model.MultiPoint: mp, model.MultiLineString: mls, model.MultiPolygon: mpg, model.GeometryCollection: gc}
		k := model.KindOf(t)
		switch tt := t.(type) {
		case *geom.Point:
			p.Point = tt
		case *geom.LineString:
			ls.LineString = tt
		case *geom.Polygon:
			pg.Polygon = tt
		case *geom.MultiPoint:
			mp.MultiPoint = tt
		case *geom.MultiLineString:
			mls.MultiLineString = tt
		case *geom.MultiPolygon:
			mpg.MultiPolygon = tt
		case *geom.GeometryCollection:
			gc.GeometryCollection = tt
		}
		m := all[k]
		delete(all, k)
		return m, all, func() geom.T {
			switch k {
			case model.Point:
				return p.Point
			case model.LineString:
				return ls.LineString
			case model.Polygon:
				return pg.Polygon
			case model.MultiPoint:
				return mp.MultiPoint
			case model.MultiLineString:
				return mls.MultiLineString
			case model.MultiPolygon:
				return mpg.MultiPolygon
			}
			return gc.GeometryCollection
		}
	}
	p, ls, pg, mp, mls, mpg, gc := &wkb.Point{}, &wkb.LineString{}, &wkb.Polygon{}, &wkb.MultiPoint{}, &wkb.MultiLineString{}, &wkb.MultiPolygon{}, &wkb.GeometryCollection{}
	all := map[string]scanValuer{model.Point: p, model.LineString: ls, model.Polygon: pg, model.MultiPoint: mp, model.MultiLineString: mls, model.MultiPolygon: mpg, model.GeometryCollection: gc}
	k := model.KindOf(t)
	switch tt := t.(type) {
	case *geom.Point:
		p.Point = tt
	case *geom.LineString:
		ls.LineString = tt
	case *geom.Polygon:
		pg.Polygon = tt
	case *geom.MultiPoint:
		mp.MultiPoint = tt
	case *geom.MultiLineString:
		mls.MultiLineString = tt
	case *geom.MultiPolygon:
		mpg.MultiPolygon = tt
	case *geom.GeometryCollection:
		gc.GeometryCollection = tt
	}
	m := all[k]
	delete(all, k)
	return m, all, func() geom.T {
		switch k {
		case model.Point:
			return p.Point
		case model.LineString:
			return ls.LineString
		case model.Polygon:
			return pg.Polygon
		case model.MultiPoint:
			return mp.MultiPoint
		case model.MultiLineString:
			return mls.MultiLineString
		case model.MultiPolygon:
			return mpg.MultiPolygon
		}
		return gc.GeometryCollection
	}
}

func sqlChecks(c Case, t geom.T, exp *model.G) error {
	g := &c.G
	// the wkb wrappers always use the default empty-point mode (error)
	sqlMode := c.Mode
	if sqlMode == "wkb-nan" {
		sqlMode = "wkb-err"
	}
	refMode := refwkb.ISO
	if sqlMode == "ewkb" {
		refMode = refwkb.EWKB
	}
	ndr, _, _ := refwkb.Encode(g, false, refMode)
	match, others, get := wrappers(sqlMode, t)
	v, err := match.Value()
	if sqlMode == "wkb-err" && refwkb.HasEmptyPoint(g) {
		if err == nil {
			return fmt.Errorf("wkb Value() accepted an empty point")
		}
		return nil
	}
	if err != nil {
		return fmt.Errorf("Value(): %v", err)
	}
	vb, ok := v.([]byte)
	if !ok || !bytes.Equal(vb, ndr) {
		return fmt.Errorf("Value() = %T % x, want the NDR encoding % x", v, v, ndr)
	}
	expSQL := expected(g, sqlMode, true)
	if err := match.Scan(append([]byte{}, ndr...)); err != nil {
		return fmt.Errorf("Scan into the matching wrapper: %v", err)
	}
	if err := sameModel("Scan", expSQL, get(), true); err != nil {
		return err
	}
	otherKinds := make([]string, 0, len(others))
	for k := range others {
		otherKinds = append(otherKinds, k)
	}
	sort.Strings(otherKinds)
	for _, k := range otherKinds {
		w := others[k]
		err := w.Scan(append([]byte{}, ndr...))
		if err == nil {
			return fmt.Errorf("Scan of a %s into the %s wrapper returned no error", g.Kind, k)
		}
		if msg := run.Safe(func() error { _ = err.Error(); return nil }); msg != nil {
			return fmt.Errorf("rendering the wrong-type error of the %s wrapper: %v", k, msg)
		}
	}
	if err := match.Scan("not bytes"); err == nil {
		return fmt.Errorf("Scan(string) returned no error")
	} else {
		var e1 wkb.ErrExpectedByteSlice
		var e2 ewkb.ErrExpectedByteSlice
		if !errors.As(err, &e1) && !errors.As(err, &e2) {
			return fmt.Errorf("Scan(string) returned %T, want ErrExpectedByteSlice", err)
		}
	}
	if sqlMode != "ewkb" {
		var any wkb.Geom
		if err := any.Scan(append([]byte{}, ndr...)); err != nil {
			return fmt.Errorf("wkb.Geom.Scan: %v", err)
		}
		if err := sameModel("wkb.Geom.Scan", expSQL, any.Geom(), true); err != nil {
			return err
		}
		av, err := any.Value()
		if err != nil || !bytes.Equal(av.([]byte), ndr) {
			return fmt.Errorf("wkb.Geom.Value() = %v, %v", av, err)
		}
	}
	if sqlMode == "ewkb" {
		// SQL NULL in between (whatever the wrapper answers to it, it must not panic and a
		// later Scan of the encoding must still give the geometry)
		if msg := run.Safe(func() error { _ = match.Scan(nil); _, _ = match.Value(); return nil }); msg != nil {
			return fmt.Errorf("Scan(nil) / Value(): %v", msg)
		}
		if err := match.Scan(append([]byte{}, ndr...)); err != nil {
			return fmt.Errorf("Scan after Scan(nil): %v", err)
		}
		if err := sameModel("Scan after Scan(nil)", expSQL, get(), true); err != nil {
			return err
		}
	}
	// the value handed to database/sql must stay valid while later values are
	// produced (a driver may hold several parameters of one statement at once)
	otherLS := geom.NewLineString(geom.XY).MustSetCoords([]geom.Coord{{-7, 9}, {11, -13}, {0.5, 2.25}})
	var ov driver.Valuer = &wkb.LineString{LineString: otherLS}
	if sqlMode == "ewkb" {
		ov = &ewkb.LineString{LineString: otherLS}
	}
	for i := 0; i < 2; i++ {
		if _, err := ov.Value(); err != nil {
			return fmt.Errorf("Value() of a plain line string: %v", err)
		}
	}
	if !bytes.Equal(vb, ndr) {
		return fmt.Errorf("the bytes returned by Value() changed when another wrapper's Value() was called afterwards:\n now % x\n was % x", vb, ndr)
	}
	_ = exp
	return nil
}

func classify(c Case) ([]string, bool) {
	g := &c.G
	cl := []string{"mode:" + c.Mode, "reader:" + c.Reader, "kind:" + g.Kind}
	nt := false
	if g.Depth() >= 2 {
		cl = append(cl, "nested>=2")
		nt = true
	}
	if g.HasEmptyPart() || g.Empty() {
		cl = append(cl, "empty-member")
		nt = true
	}
	if refwkb.HasEmptyPoint(g) {
		cl = append(cl, "empty-point")
	}
	if l := g.ReportedLayout(); l != geom.XY {
		cl = append(cl, "layout:"+l.String())
		nt = true
	}
	if c.XDR {
		cl = append(cl, "xdr")
		nt = true
	}
	if g.SRID >= 1<<31 {
		cl = append(cl, "srid>=2^31")
		nt = true
	}
	nonfinite := false
	g.EachOrdinate(func(_ int, v model.F) {
		f := v.V()
		if f != f || f-f != 0 {
			nonfinite = true
		}
	})
	if nonfinite {
		cl = append(cl, "non-finite")
		nt = true
	}
	mixed := map[geom.Layout]bool{}
	g.Walk(func(x *model.G) {
		if !x.IsCollection() {
			mixed[x.Lay()] = true
		}
	})
	if len(mixed) > 1 {
		cl = append(cl, "mixed-layout-collection")
	}
	if _, _, err := refwkb.Encode(g, false, refwkb.EWKB); err != nil {
		cl = append(cl, "not-encodable")
	}
	emptyGCs, members := 0, 0
	g.Walk(func(x *model.G) {
		members++
		if x.IsCollection() && len(x.Members) == 0 {
			emptyGCs++
		}
	})
	if members > 250 {
		cl = append(cl, "members>250")
	}
	if emptyGCs >= 250 {
		cl = append(cl, "member-less-collections>=250")
	}
	if c.Deep >= 200 {
		cl = append(cl, "tower>=200")
	}
	return cl, nt
}

var spec = run.Spec[Case]{ID: "C03", Name: "wkb", Gen: genCase, Prop: prop, Classify: classify}

func TestPropWKB(t *testing.T) { run.Generated(t, spec) }
func TestRegress(t *testing.T) { run.Regress(t, spec) }
func TestReplay(t *testing.T) {
	run.ReplayOne(t, spec)
	run.ReplayOne(t, bigSpec)
	run.ReplayOne(t, concSpec)
}
