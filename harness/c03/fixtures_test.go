package c03

import (
	"bytes"
	"encoding/hex"
	"os"
	"path/filepath"
	"regexp"
	"testing"

	geom "github.com/twpayne/go-geom"
	"github.com/twpayne/go-geom/encoding/ewkb"
	"github.com/twpayne/go-geom/encoding/wkb"
	"github.com/twpayne/go-geom/encoding/wkbcommon"

	"verifharness/internal/ev"
	"verifharness/internal/model"
	"verifharness/internal/refwkb"
	"verifharness/internal/run"
)

// Fixture is a hex literal found in the repository's own codec tests (encodings
// produced by PostGIS and other implementations).
type Fixture struct {
	Hex string `json:"hex"`
}

var hexLit = regexp.MustCompile(`"((?:[0-9a-fA-F]{2}){9,})"`)

// TestRegressFixtures cross-checks the reference encoder against the encodings
// in the repository's test sources: decoding a fixture and re-encoding the
// decoded model with the *reference* encoder (same byte order) must reproduce
// the fixture byte for byte. This ties internal/refwkb to bytes that were not
// produced by go-geom, and exposes a symmetric library mistake on real data.
func TestRegressFixtures(t *testing.T) {
	root := os.Getenv("VERIF_REPO")
	if root == "" {
		root = "/repo"
	}
	var files []string
	for _, pat := range []string{"encoding/wkb/*_test.go", "encoding/ewkb/*_test.go", "encoding/wkbhex/*_test.go", "encoding/ewkbhex/*_test.go", "internal/testdata/*.go"} {
		m, _ := filepath.Glob(filepath.Join(root, pat))
		files = append(files, m...)
	}
	seen := map[string]bool{}
	checked := 0
	for _, f := range files {
		src, err := os.ReadFile(f)
		if err != nil {
			continue
		}
		for _, m := range hexLit.FindAllSubmatch(src, -1) {
			h := string(m[1])
			if seen[h] {
				continue
			}
			seen[h] = true
			data, err := hex.DecodeString(h)
			if err != nil || (data[0] != 0 && data[0] != 1) {
				continue
			}
			for _, mode := range []string{"ewkb", "wkb-nan"} {
				var g geom.T
				var derr error
				if mode == "ewkb" {
					g, derr = ewkb.Unmarshal(data)
				} else {
					g, derr = wkb.Unmarshal(data, wkbcommon.WKBOptionEmptyPointHandling(wkbcommon.EmptyPointHandlingNaN))
				}
				if derr != nil || g == nil {
					continue
				}
				gm, err := model.FromGeom(g)
				if err != nil {
					continue
				}
				rm := refwkb.ISO
				if mode == "ewkb" {
					rm = refwkb.EWKB
				}
				want, _, err := refwkb.Encode(gm, data[0] == 0, rm)
				if err != nil {
					continue
				}
				// a fixture may carry trailing bytes or be a non-canonical spelling (e.g. ISO
				// type codes read by the EWKB decoder as an unsupported id): only fixtures that
				// the reference walker follows to their exact end are compared
				w := refwkb.Walk(data, rm)
				if !w.OK || w.Consumed != len(data) {
					continue
				}
				checked++
				fx := Fixture{Hex: h}
				ev.Default.Case(fx, []string{"fixture:" + mode}, true)
				if !bytes.Equal(want, data) {
					msg := "reference encoding of the decoded " + mode + " fixture differs from the fixture:\n fixture   " + h + "\n reference " + hex.EncodeToString(want)
					run.SaveReplay("C03", "fixture", fx, msg)
					t.Errorf("C03/fixture: %s", msg)
					return
				}
			}
		}
	}
	t.Logf("cross-checked %d fixture decodings", checked)
	ev.Default.Count("fixtures_cross_checked", int64(checked))
}
