package c03

import (
	"bytes"
	"encoding/binary"
	"fmt"
	"io"
	"math"
	"testing"

	geom "github.com/twpayne/go-geom"

	"verifharness/internal/ev"
	"verifharness/internal/run"
)

// BigCase is an encoding too large to carry its coordinates in a case file: they
// are a fixed function of the index. N is the number of coordinates.
type BigCase struct {
	Mode   string `json:"mode"` // ewkb | wkb-nan
	Kind   string `json:"kind"` // LineString | MultiPoint | Polygon | MultiLineString
	Layout int    `json:"layout"`
	N      int    `json:"n"`
	XDR    bool   `json:"xdr"`
	Chunk  int    `json:"chunk"` // read chunk size for the stream decoder
}

func bigOrd(i int) float64 { return float64(i%99991) - 0.125*float64(i%8) }

func buildBig(c BigCase) (geom.T, error) {
	l := geom.Layout(c.Layout)
	s := l.Stride()
	flat := make([]float64, c.N*s)
	for i := range flat {
		flat[i] = bigOrd(i)
	}
	switch c.Kind {
	case "LineString":
		return geom.NewLineStringFlat(l, flat), nil
	case "MultiPoint":
		return geom.NewMultiPointFlat(l, flat), nil
	case "Polygon":
		k := (c.N - 5) * s
		// close both rings
		copy(flat[k-s:k], flat[:s])
		copy(flat[c.N*s-s:], flat[k:k+s])
		return geom.NewPolygonFlat(l, flat, []int{k, c.N * s}), nil
	case "MultiLineString":
		k := (c.N / 2) * s
		return geom.NewMultiLineStringFlat(l, flat, []int{k, k, c.N * s}), nil
	}
	return nil, fmt.Errorf("bad kind %q", c.Kind)
}

type sizedReader struct {
	r io.Reader
	n int
}

func (s sizedReader) Read(p []byte) (int, error) {
	if len(p) > s.n {
		p = p[:s.n]
	}
	return s.r.Read(p)
}

func propBig(c BigCase) error {
	t, err := buildBig(c)
	if err != nil {
		return err
	}
	cd := codecFor(c.Mode)
	var bo binary.ByteOrder = binary.LittleEndian
	if c.XDR {
		bo = binary.BigEndian
	}
	data, err := cd.marshal(t, bo)
	if err != nil {
		return fmt.Errorf("Marshal: %v", err)
	}
	// size prescribed by the format: headers of 5 bytes (no SRID), counts of 4, ordinates of 8
	s := t.Stride()
	want := 0
	switch c.Kind {
	case "LineString":
		want = 5 + 4 + 8*s*c.N
	case "MultiPoint":
		want = 5 + 4 + c.N*(5+8*s)
	case "Polygon":
		want = 5 + 4 + 2*4 + 8*s*c.N
	case "MultiLineString":
		want = 5 + 4 + 3*(5+4) + 8*s*c.N
	}
	if len(data) != want {
		return fmt.Errorf("encoding has %d bytes, the format prescribes %d", len(data), want)
	}
	// the last ordinate sits in the last 8 bytes
	last := math.Float64frombits(bo.Uint64(data[len(data)-8:]))
	fc := t.FlatCoords()
	if math.Float64bits(last) != math.Float64bits(fc[len(fc)-1]) {
		return fmt.Errorf("last 8 bytes encode %v, the last ordinate is %v", last, fc[len(fc)-1])
	}
	check := func(what string, back geom.T) error {
		if fmt.Sprintf("%T", back) != fmt.Sprintf("%T", t) || back.Layout() != t.Layout() {
			return fmt.Errorf("%s: %T %v, want %T %v", what, back, back.Layout(), t, t.Layout())
		}
		b := back.FlatCoords()
		if len(b) != len(fc) {
			return fmt.Errorf("%s: %d ordinates, want %d", what, len(b), len(fc))
		}
		for i := range fc {
			if math.Float64bits(b[i]) != math.Float64bits(fc[i]) {
				return fmt.Errorf("%s: ordinate %d of %d (coordinate %d) is %v, want %v", what, i, len(fc), i/s, b[i], fc[i])
			}
		}
		if fmt.Sprint(back.Ends()) != fmt.Sprint(t.Ends()) {
			return fmt.Errorf("%s: ends %v, want %v", what, back.Ends(), t.Ends())
		}
		return nil
	}
	back, err := cd.unmarshal(data)
	if err != nil {
		return fmt.Errorf("Unmarshal: %v", err)
	}
	if err := check("Unmarshal", back); err != nil {
		return err
	}
	// two encodings through a reader that hands out at most Chunk bytes at a time
	r := sizedReader{r: io.MultiReader(bytes.NewReader(data), bytes.NewReader(data)), n: c.Chunk}
	for i := 0; i < 2; i++ {
		g, err := cd.read(r)
		if err != nil {
			return fmt.Errorf("Read #%d in chunks of %d: %v", i+1, c.Chunk, err)
		}
		if err := check(fmt.Sprintf("Read #%d in chunks of %d", i+1, c.Chunk), g); err != nil {
			return err
		}
	}
	if _, err := cd.read(r); err != io.EOF {
		return fmt.Errorf("Read after the last geometry: %v, want io.EOF", err)
	}
	var buf bytes.Buffer
	if err := cd.write(&buf, bo, t); err != nil || !bytes.Equal(buf.Bytes(), data) {
		return fmt.Errorf("Write: %v, %d bytes (Marshal: %d), equal=%v", err, buf.Len(), len(data), bytes.Equal(buf.Bytes(), data))
	}
	return nil
}

var bigSpec = run.Spec[BigCase]{ID: "C03", Name: "bigwkb", Prop: propBig, Classify: func(c BigCase) ([]string, bool) {
	return []string{"big:" + c.Kind, "big:" + c.Mode}, true
}}

// TestExhaustiveBig encodes and decodes geometries whose ordinate, coordinate or
// member counts lie just above 2^16 and 2^20: buffered or block-wise reads and
// writes, if any, have their seams beyond what a generated case can carry.
func TestExhaustiveBig(t *testing.T) {
	shard, shards := run.Shard()
	n := 0
	for _, mode := range []string{"ewkb", "wkb-nan"} {
		for li, l := range []geom.Layout{geom.XY, geom.XYZ, geom.XYM, geom.XYZM} {
			for ki, kind := range []string{"LineString", "MultiPoint", "Polygon", "MultiLineString"} {
				n++
				if n%shards != shard {
					continue
				}
				if !run.Thorough() && (ki+li)%4 != 0 {
					continue // quick: one kind per layout
				}
				sizes := []int{1<<16 + 1, (1<<20)/l.Stride() + 3}
				if kind == "MultiPoint" {
					sizes = []int{1<<16 + 1, 1<<17 + 3}
				}
				if run.Thorough() {
					sizes = append(sizes, (1<<21)/l.Stride()+7)
				}
				for si, size := range sizes {
					c := BigCase{Mode: mode, Kind: kind, Layout: int(l), N: size, XDR: (ki+li+si)%2 == 1, Chunk: []int{4096, 65537, 1 << 20, 7}[(ki+si)%3]}
					ev.Default.CaseHash(uint64(n)<<32|uint64(size), "bigwkb", true, func() any { return c })
					if !run.One(t, bigSpec, c) {
						return
					}
				}
			}
		}
	}
}

func TestRegressBig(t *testing.T) { run.Regress(t, bigSpec) }
