// C09: Length and Area are the exact measures up to rounding, additive, total.
package c09

import (
	"fmt"
	"math"
	"math/big"
	"testing"

	geom "github.com/twpayne/go-geom"
	"pgregory.net/rapid"

	"verifharness/internal/ev"
	"verifharness/internal/exact"
	"verifharness/internal/gen"
	"verifharness/internal/model"
	"verifharness/internal/run"
)

func TestMain(m *testing.M) { run.Main(m) }

// Case is a geometry and the route it is built through.
type Case struct {
	G     model.G `json:"g"`
	Route int     `json:"route"`
}

// NoLayout (stride 0) comes last: its only well-formed geometries are empty
// (what the GeoJSON decoder returns for "coordinates":[]).
var layouts = []geom.Layout{geom.XY, geom.XYZ, geom.XYM, geom.XYZM, geom.Layout(5), geom.Layout(6), geom.Layout(8), geom.NoLayout}

func closeRing(r [][]model.F) [][]model.F {
	if len(r) == 0 {
		return r
	}
	return append(r, append([]model.F{}, r[0]...))
}

func genCase(t *rapid.T) Case {
	classes := rapid.SampledFrom([]int{
		gen.SmallInt, gen.SmallInt, gen.Moderate, gen.Big200, gen.SmallInt | gen.Big200, gen.SmallInt | gen.Moderate | gen.Zeros, gen.IntEdge, gen.IntEdge | gen.SmallInt,
	}).Draw(t, "classes")
	o := gen.TreeOpts{Layouts: layouts, Kinds: kinds, Floats: classes, MaxParts: 4, MaxPts: 6, PEmpty: 25, LongPct: 1, LongMax: 300, SRID: gen.SRIDs}
	g := gen.Tree(t, o)
	if g.Layout == int(geom.NoLayout) {
		g.C0, g.C1, g.C2, g.C3 = nil, nil, nil, nil
	}
	// optional large common offset on X,Y for small shapes
	if classes == gen.SmallInt && rapid.IntRange(0, 2).Draw(t, "offset") == 0 {
		ox := float64(rapid.Int64Range(-1<<40, 1<<40).Draw(t, "ox"))
		oy := float64(rapid.Int64Range(-1<<40, 1<<40).Draw(t, "oy"))
		shift := func(c []model.F) {
			if len(c) >= 2 {
				c[0] = model.Of(c[0].V() + ox)
				c[1] = model.Of(c[1].V() + oy)
			}
		}
		forEachCoord(g, shift)
	}
	// fixed-point data: every x and y a whole number over the full range of a machine
	// integer (1e-7 degrees in int32): differences need one more bit than the type,
	// their products twice as many
	if rapid.IntRange(0, 11).Draw(t, "fixedpoint") == 0 {
		lim := math.Ldexp(1, rapid.SampledFrom([]int{31, 31, 15, 53}).Draw(t, "fpbits"))
		forEachCoord(g, func(c []model.F) {
			for i := 0; i < len(c) && i < 2; i++ {
				switch rapid.IntRange(0, 3).Draw(t, "fpwhich") {
				case 0:
					c[i] = model.Of(-lim)
				case 1:
					c[i] = model.Of(lim - 1)
				default:
					c[i] = model.Of(math.Floor(rapid.Float64Range(-lim, lim-1).Draw(t, "fpv")))
				}
			}
		})
	}
	// the whole geometry moved to another magnitude by an exact power of two (products
	// of two ordinates stay finite and normal up to 2^+-500): measures scale with it
	if rapid.IntRange(0, 4).Draw(t, "scaled") == 0 {
		k := rapid.SampledFrom([]int{300, -300, 150, -150, 60, -60}).Draw(t, "exp")
		if rapid.Bool().Draw(t, "expany") {
			k = rapid.IntRange(-300, 300).Draw(t, "expv")
		}
		forEachCoord(g, func(c []model.F) {
			for i := range c {
				c[i] = model.Of(math.Ldexp(c[i].V(), k))
			}
		})
	}
	// the ordinates the measures do not look at (everything after x,y) hold what real
	// data holds there: unknown values (NaN, of any payload), infinities, huge numbers
	if rapid.IntRange(0, 2).Draw(t, "junkextras") == 0 {
		forEachCoord(g, func(c []model.F) {
			for i := 2; i < len(c); i++ {
				if rapid.IntRange(0, 2).Draw(t, "junkthis") > 0 {
					c[i] = model.F(rapid.SampledFrom([]uint64{
						math.Float64bits(math.NaN()), 0x7FF8000000000000, 0xFFF8000000000001, 0x7FF0000000000001,
						math.Float64bits(math.Inf(1)), math.Float64bits(math.Inf(-1)), math.Float64bits(math.MaxFloat64), math.Float64bits(-math.MaxFloat64), 1 << 63, 1,
					}).Draw(t, "junk"))
				}
			}
		})
	}
	// rings closed by construction (a 1-point ring may stay a single point)
	single := rapid.Bool().Draw(t, "keepSingle")
	cl := func(r [][]model.F) [][]model.F {
		if len(r) == 1 && single {
			return r
		}
		return closeRing(r)
	}
	switch g.Kind {
	case model.LinearRing:
		g.C1 = cl(g.C1)
	case model.Polygon:
		for i := range g.C2 {
			g.C2[i] = cl(g.C2[i])
		}
	case model.MultiPolygon:
		for i := range g.C3 {
			for j := range g.C3[i] {
				g.C3[i][j] = cl(g.C3[i][j])
			}
		}
	}
	return Case{G: *g, Route: rapid.IntRange(0, int(model.NumRoutes)-1).Draw(t, "route")}
}

func forEachCoord(g *model.G, f func([]model.F)) {
	f(g.C0)
	for _, c := range g.C1 {
		f(c)
	}
	for _, r := range g.C2 {
		for _, c := range r {
			f(c)
		}
	}
	for _, p := range g.C3 {
		for _, r := range p {
			for _, c := range r {
				f(c)
			}
		}
	}
}

// measures of one coordinate list
type meas struct {
	area2  *big.Rat   // twice the signed shoelace area (CCW positive)
	areaT  *big.Rat   // sum of |dy|*|x_i+x_{i-1}| (the library's summands, doubled area)
	length *big.Float // exact length (300 bit)
	n      int        // number of edges
}

func newMeas() *meas {
	return &meas{area2: new(big.Rat), areaT: new(big.Rat), length: new(big.Float).SetPrec(exact.Prec)}
}

func (m *meas) addLine(cs [][]model.F, ring bool) {
	pts := make([]exact.P2, len(cs))
	for i, c := range cs {
		pts[i] = exact.Pt(c[0].V(), c[1].V())
	}
	for i := 1; i < len(pts); i++ {
		a, b := pts[i-1], pts[i]
		m.n++
		m.length.Add(m.length, exact.Sqrt(exact.Dist2(a, b)))
		if ring {
			m.areaT.Add(m.areaT, exact.Mul(exact.Abs(exact.Sub(b.Y, a.Y)), exact.Abs(exact.Add(b.X, a.X))))
		}
	}
	if ring {
		m.area2.Add(m.area2, exact.Shoelace2(pts))
	}
}

func (m *meas) add(o *meas) {
	m.area2.Add(m.area2, o.area2)
	m.areaT.Add(m.areaT, o.areaT)
	m.length.Add(m.length, o.length)
	m.n += o.n
}

var ulp52 = new(big.Rat).SetFrac(big.NewInt(1), new(big.Int).Lsh(big.NewInt(1), 52))

func checkArea(what string, got float64, m *meas) error {
	if math.IsNaN(got) || math.IsInf(got, 0) {
		return fmt.Errorf("%s: Area() = %v", what, got)
	}
	want := exact.Quo(m.area2, big.NewRat(2, 1))
	tol := exact.Mul(exact.Mul(big.NewRat(int64(m.n+8), 1), ulp52), exact.Quo(m.areaT, big.NewRat(2, 1)))
	diff := exact.Abs(exact.Sub(exact.R(got), want))
	if diff.Cmp(tol) > 0 {
		return fmt.Errorf("%s: Area() = %v, exact %v, |diff| %v > tol %v (n=%d)", what, got, exact.Float(want), exact.Float(diff), exact.Float(tol), m.n)
	}
	if tol.Sign() > 0 {
		ratio := exact.Float(exact.Quo(diff, tol))
		evMax("area_err_over_tol", ratio)
	}
	return nil
}

func checkLength(what string, got float64, m *meas) error {
	if math.IsNaN(got) || math.IsInf(got, 0) {
		return fmt.Errorf("%s: Length() = %v", what, got)
	}
	tol := new(big.Float).SetPrec(exact.Prec).Mul(m.length, exact.F(exact.Mul(big.NewRat(int64(m.n+8), 1), ulp52)))
	diff := new(big.Float).SetPrec(exact.Prec).Sub(exact.FF(got), m.length)
	diff.Abs(diff)
	if diff.Cmp(tol) > 0 {
		w, _ := m.length.Float64()
		d, _ := diff.Float64()
		tl, _ := tol.Float64()
		return fmt.Errorf("%s: Length() = %v, exact %v, |diff| %v > tol %v (n=%d)", what, got, w, d, tl, m.n)
	}
	if tol.Sign() > 0 {
		r, _ := new(big.Float).Quo(diff, tol).Float64()
		evMax("length_err_over_tol", r)
	}
	return nil
}

type measurable interface {
	Area() float64
	Length() float64
}

func prop(c Case) error {
	g := &c.G
	t, err := model.Build(g, model.Route(c.Route))
	if err != nil {
		return fmt.Errorf("build: %v", err)
	}
	if err := model.WellFormed(t); err != nil {
		return fmt.Errorf("built geometry not well formed: %v", err)
	}
	held := model.Leaves(t) // the caller's alias of the coordinates, taken before any query
	if err := measure(g, t); err != nil {
		return err
	}
	// the measures are those of the coordinates as they are now: x and y of every
	// coordinate are exchanged in place through the alias (rings stay closed, the area
	// changes sign) and the same object is measured again
	for i := 0; i < 2; i++ { // asked again: what is remembered may only be used from the second or third time on
		if err := measure(g, t); err != nil {
			return fmt.Errorf("measured again: %v", err)
		}
	}
	if model.SwapXY(held) {
		// the expectation comes from the model, not from the object: reading the object
		// back (FlatCoords) would itself be a call that may refresh something inside it
		g2 := g.SwappedXY()
		if err := measure(g2, t); err != nil {
			return fmt.Errorf("after x and y were exchanged in place: %v", err)
		}
	}
	return nil
}

// measure checks Area and Length of t against the exact measures of its model g.
func measure(g *model.G, t geom.T) error {
	mt := t.(measurable)
	area, length := mt.Area(), mt.Length()

	total := newMeas()
	var parts []*meas
	switch g.Kind {
	case model.Point, model.MultiPoint:
		if area != 0 || length != 0 {
			return fmt.Errorf("%s: Area()=%v Length()=%v, want 0, 0", g.Kind, area, length)
		}
		return nil
	case model.LineString:
		total.addLine(g.C1, false)
	case model.LinearRing:
		total.addLine(g.C1, true)
	case model.MultiLineString:
		for _, l := range g.C2 {
			p := newMeas()
			p.addLine(l, false)
			parts = append(parts, p)
			total.add(p)
		}
	case model.Polygon:
		for _, r := range g.C2 {
			p := newMeas()
			p.addLine(r, true)
			parts = append(parts, p)
			total.add(p)
		}
	case model.MultiPolygon:
		for _, poly := range g.C3 {
			p := newMeas()
			for _, r := range poly {
				p.addLine(r, true)
			}
			parts = append(parts, p)
			total.add(p)
		}
	}
	if g.Kind == model.LineString || g.Kind == model.MultiLineString {
		if area != 0 {
			return fmt.Errorf("%s: Area() = %v, want 0", g.Kind, area)
		}
	} else if err := checkArea(g.Kind, area, total); err != nil {
		return err
	}
	if err := checkLength(g.Kind, length, total); err != nil {
		return err
	}
	// additivity: parts measured through the part accessors
	var sumA, sumL float64
	switch tt := t.(type) {
	case *geom.MultiLineString:
		for i := 0; i < tt.NumLineStrings(); i++ {
			p := tt.LineString(i)
			if a := p.Area(); a != 0 {
				return fmt.Errorf("LineString(%d).Area() = %v", i, a)
			}
			if err := checkLength(fmt.Sprintf("LineString(%d)", i), p.Length(), parts[i]); err != nil {
				return err
			}
			sumL += p.Length()
		}
	case *geom.Polygon:
		for i := 0; i < tt.NumLinearRings(); i++ {
			p := tt.LinearRing(i)
			if err := checkArea(fmt.Sprintf("LinearRing(%d)", i), p.Area(), parts[i]); err != nil {
				return err
			}
			if err := checkLength(fmt.Sprintf("LinearRing(%d)", i), p.Length(), parts[i]); err != nil {
				return err
			}
			sumA += p.Area()
			sumL += p.Length()
		}
	case *geom.MultiPolygon:
		for i := 0; i < tt.NumPolygons(); i++ {
			p := tt.Polygon(i)
			if err := checkArea(fmt.Sprintf("Polygon(%d)", i), p.Area(), parts[i]); err != nil {
				return err
			}
			if err := checkLength(fmt.Sprintf("Polygon(%d)", i), p.Length(), parts[i]); err != nil {
				return err
			}
			sumA += p.Area()
			sumL += p.Length()
		}
	default:
		return nil
	}
	// the sum of the parts is itself one more summation pass over len(parts) terms
	tot2 := *total
	tot2.n += len(parts)
	if g.Kind != model.MultiLineString {
		if err := checkArea("sum of parts", sumA, &tot2); err != nil {
			return err
		}
	}
	return checkLength("sum of parts", sumL, &tot2)
}

func classify(c Case) ([]string, bool) {
	g := &c.G
	cl := []string{g.Kind, "layout:" + g.Lay().String()}
	parts, emptyPart, nondeg := 0, false, false
	seg := func(cs [][]model.F) {
		for i := 1; i < len(cs); i++ {
			if cs[i][0] != cs[i-1][0] || cs[i][1] != cs[i-1][1] {
				nondeg = true
			}
		}
	}
	switch g.Kind {
	case model.LineString, model.LinearRing:
		seg(g.C1)
	case model.Polygon, model.MultiLineString:
		parts = len(g.C2)
		for _, r := range g.C2 {
			if len(r) == 0 {
				emptyPart = true
			}
			seg(r)
		}
	case model.MultiPolygon:
		parts = len(g.C3)
		for _, p := range g.C3 {
			n := 0
			for _, r := range p {
				n += len(r)
				seg(r)
			}
			if n == 0 {
				emptyPart = true
			}
		}
	}
	if emptyPart {
		cl = append(cl, "empty-part")
	}
	if g.EmptyBeforeNonEmpty() {
		cl = append(cl, "empty-before-nonempty")
	}
	if parts >= 2 {
		cl = append(cl, "multi-part")
	}
	return cl, (parts >= 2 || emptyPart) && nondeg
}

var spec = run.Spec[Case]{ID: "C09", Name: "measure", Gen: genCase, Prop: prop, Classify: classify}

func TestPropMeasure(t *testing.T) { run.Generated(t, spec) }
func TestRegress(t *testing.T)     { run.Regress(t, spec) }
func TestReplay(t *testing.T) {
	run.ReplayOne(t, spec)
	run.ReplayOne(t, bigSpec)
	run.ReplayOne(t, manySpec)
	run.ReplayOne(t, sizeSpec)
	run.ReplayOne(t, concSpec)
}

func evMax(name string, v float64) { ev.Default.MaxOf(name, v) }

// multi-part kinds are drawn three times as often as the single-part ones
var kinds = []string{
	model.MultiPolygon, model.MultiPolygon, model.MultiPolygon, model.MultiPolygon,
	model.MultiLineString, model.MultiLineString, model.MultiLineString,
	model.Polygon, model.Polygon, model.Polygon,
	model.LinearRing, model.MultiPoint, model.LineString, model.Point,
}
