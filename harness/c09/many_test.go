package c09

import (
	"fmt"
	"testing"

	geom "github.com/twpayne/go-geom"

	"verifharness/internal/ev"
	"verifharness/internal/run"
)

// ManyCase is a multi-part geometry of N small parts (axis-parallel squares of side
// 1 + i%3 at distinct places, traversed counter-clockwise; or their outlines as lines),
// part i without coordinates when Variant selects its index among k-2..k+1 around the
// multiples of 1024. Every square's area and perimeter are whole numbers, so the exact
// measures are sums of small whole numbers and the library's floating-point sums are exact.
type ManyCase struct {
	Kind    string `json:"kind"` // MultiPolygon | MultiLineString
	Layout  int    `json:"layout"`
	N       int    `json:"n"`
	Variant int    `json:"variant"`
}

func propMany(c ManyCase) error {
	l := geom.Layout(c.Layout)
	s := l.Stride()
	emptyAt := map[int]bool{}
	bit := 0
	for k := 1024; k <= c.N+2; k += 1024 {
		for d := -2; d <= 1; d++ {
			if c.Variant>>(uint(bit)%10)&1 == 1 {
				emptyAt[k+d] = true
			}
			bit++
		}
	}
	var flat []float64
	var ends []int
	var endss [][]int
	wantArea, wantLen := 0.0, 0.0
	for i := 0; i < c.N; i++ {
		if emptyAt[i] {
			ends = append(ends, len(flat))
			endss = append(endss, []int{})
			continue
		}
		side := float64(1 + i%3)
		x, y := float64(5*(i%97)), float64(5*(i/97))
		for k, p := range [][2]float64{{x, y}, {x + side, y}, {x + side, y + side}, {x, y + side}, {x, y}} {
			flat = append(flat, p[0], p[1])
			for d := 2; d < s; d++ {
				flat = append(flat, float64(i*5+k)*1e6)
			}
		}
		ends = append(ends, len(flat))
		endss = append(endss, []int{len(flat)})
		wantArea += side * side
		wantLen += 4 * side
	}
	what := fmt.Sprintf("%s of %d squares (%d of them without coordinates)", c.Kind, c.N, len(emptyAt))
	for rep := 0; rep < 2; rep++ {
		var area, length float64
		if c.Kind == "MultiPolygon" {
			mp := geom.NewMultiPolygonFlat(l, flat, endss)
			area, length = mp.Area(), mp.Length()
			if n := len(mp.Coords()); n != c.N {
				return fmt.Errorf("%s: Coords() has %d polygons", what, n)
			}
		} else {
			ml := geom.NewMultiLineStringFlat(l, flat, ends)
			area, length = wantArea, ml.Length()
			if ml.Area() != 0 {
				return fmt.Errorf("%s: Area() = %v, want 0", what, ml.Area())
			}
		}
		if area != wantArea || length != wantLen {
			return fmt.Errorf("%s (measurement %d): Area() = %v, Length() = %v, want %v and %v (every term is a small whole number)", what, rep+1, area, length, wantArea, wantLen)
		}
	}
	return nil
}

var manySpec = run.Spec[ManyCase]{ID: "C09", Name: "many", Prop: propMany, Classify: func(c ManyCase) ([]string, bool) {
	return []string{"many-parts"}, true
}}

// TestExhaustiveMany: sizes on both sides of 1024, 2048, 3072 and 4096 parts, every
// subset pattern of EMPTY parts right before, at and after those indexes.
func TestExhaustiveMany(t *testing.T) {
	shard, shards := run.Shard()
	sizes := []int{1025, 2047, 2048, 2049, 3075}
	if run.Thorough() {
		sizes = append(sizes, 1023, 1024, 4095, 4097, 5000, 8195)
	}
	k := 0
	for _, kind := range []string{"MultiPolygon", "MultiLineString"} {
		for si, n := range sizes {
			for vi, v := range []int{0, 0x3FF, 0x111, 0x222, 0x044, 0x088, 0x0F0, 0x2A5} {
				k++
				if k%shards != shard {
					continue
				}
				c := ManyCase{Kind: kind, Layout: int([]geom.Layout{geom.XY, geom.XYZ, geom.XYZM, geom.Layout(5)}[(si+vi)%4]), N: n, Variant: v}
				ev.Default.CaseHash(uint64(n)<<16|uint64(v)<<2|uint64(len(kind)%4), "many-parts", true, func() any { return c })
				if !run.One(t, manySpec, c) {
					return
				}
			}
		}
	}
}

func TestRegressMany(t *testing.T) { run.Regress(t, manySpec) }
