package c09

import (
	"fmt"
	"testing"

	geom "github.com/twpayne/go-geom"

	"verifharness/internal/ev"
	"verifharness/internal/run"
)

// ManyCase is a multi-part geometry of N small parts (axis-parallel squares of side
// 1 + i%3 at distinct places, traversed counter-clockwise; or their outlines as lines),
// part i without coordinates when Variant selects its index among k-2..k+1 around the
// multiples of 1024. Every square's area and perimeter are whole numbers, so the exact
// measures are sums of small whole numbers and the library's floating-point sums are exact.
type ManyCase struct {
	Kind    string `json:"kind"` // MultiPolygon | MultiLineString
	Layout  int    `json:"layout"`
	N       int    `json:"n"`
	Variant int    `json:"variant"`
}

func propMany(c ManyCase) error {
	l := geom.Layout(c.Layout)
	s := l.Stride()
	emptyAt := map[int]bool{}
	bit := 0
	for k := 1024; k <= c.N+2; k += 1024 {
		for d := -2; d <= 1; d++ {
			if c.Variant>>(uint(bit)%10)&1 == 1 {
				emptyAt[k+d] = true
			}
			bit++
		}
	}
	var flat []float64
	var ends []int
	var endss [][]int
	wantArea, wantLen := 0.0, 0.0
	for i := 0; i < c.N; i++ {
		if emptyAt[i] {
			ends = append(ends, len(flat))
			endss = append(endss, []int{})
			continue
		}
		side := float64(1 + i%3)
		x, y := float64(5*(i%97)), float64(5*(i/97))
		for k, p := range [][2]float64{{x, y}, {x + side, y}, {x + side, y + side}, {x, y + side}, {x, y}} {
			flat = append(flat, p[0], p[1])
			for d := 2; d < s; d++ {
				flat = append(flat, float64(i*5+k)*1e6)
			}
		}
		ends = append(ends, len(flat))
		endss = append(endss, []int{len(flat)})
		wantArea += side * side
		wantLen += 4 * side
	}
	what := fmt.Sprintf("%s of %d squares (%d of them without coordinates)", c.Kind, c.N, len(emptyAt))
	for rep := 0; rep < 2; rep++ {
		var area, length float64
		if c.Kind == "MultiPolygon" {
			mp := geom.NewMultiPolygonFlat(l, flat, endss)
			area, length = mp.Area(), mp.Length()
			if n := len(mp.Coords()); n != c.N {
				return fmt.Errorf("%s: Coords() has %d polygons", what, n)
			}
		} else {
			ml := geom.NewMultiLineStringFlat(l, flat, ends)
			area, length = wantArea, ml.Length()
			if ml.Area() != 0 {
				return fmt.Errorf("%s: Area() = %v, want 0", what, ml.Area())
			}
		}
		if area != wantArea || length != wantLen {
			return fmt.Errorf("%s (measurement %d): Area() = %v, Length() = %v, want %v and %v (every term is a small whole number)", what, rep+1, area, length, wantArea, wantLen)
		}
	}
	return nil
}

var manySpec = run.Spec[ManyCase]{ID: "C09", Name: "many", Prop: propMany, Classify: func(c ManyCase) ([]string, bool) {
	return []string{"many-parts"}, true
}}

// TestExhaustiveMany: sizes on both sides of 1024, 2048, 3072 and 4096 parts, every
// subset pattern of EMPTY parts right before, at and after those indexes.
func TestExhaustiveMany(t *testing.T) {
	shard, shards := run.Shard()
	sizes := []int{1025, 2047, 2048, 2049, 3075}
	if run.Thorough() {
		sizes = append(sizes, 1023, 1024, 4095, 4097, 5000, 8195)
	}
	k := 0
	for _, kind := range []string{"MultiPolygon", "MultiLineString"} {
		for si, n := range sizes {
			for vi, v := range []int{0, 0x3FF, 0x111, 0x222, 0x044, 0x088, 0x0F0, 0x2A5} {
				k++
				if k%shards != shard {
					continue
				}
				c := ManyCase{Kind: kind, Layout: int([]geom.Layout{geom.XY, geom.XYZ, geom.XYZM, geom.Layout(5)}[(si+vi)%4]), N: n, Variant: v}
				ev.Default.CaseHash(uint64(n)<<16|uint64(v)<<2|uint64(len(kind)%4), "many-parts", true, func() any { return c })
				if !run.One(t, manySpec, c) {
					return
				}
			}
		}
	}
}

func TestRegressMany(t *testing.T) { run.Regress(t, manySpec) }

// SizeCase: a staircase ring of N coordinates (the closing one included): M unit steps
// up and to the right from the origin, then left along y = M and down the y axis; for
// an odd N one extra vertex in the middle of the last edge. Every edge is parallel to
// an axis, every term of the area and length sums is a small whole number or a half,
// so the exact values are reached exactly.
type SizeCase struct {
	Kind   string `json:"kind"` // LinearRing | Polygon | MultiPolygon | LineString
	Layout int    `json:"layout"`
	N      int    `json:"n"`
}

func propSize(c SizeCase) error {
	l := geom.Layout(c.Layout)
	s := l.Stride()
	m := (c.N - 3) / 2 // 2m+1 stair vertices, (0,m), [(0, m/2)], closing
	var pts [][2]float64
	pts = append(pts, [2]float64{0, 0})
	for j := 0; j < m; j++ {
		pts = append(pts, [2]float64{float64(j + 1), float64(j)}, [2]float64{float64(j + 1), float64(j + 1)})
	}
	pts = append(pts, [2]float64{0, float64(m)})
	if len(pts)+1 < c.N {
		pts = append(pts, [2]float64{0, float64(m) / 2})
	}
	pts = append(pts, pts[0])
	if len(pts) != c.N {
		return fmt.Errorf("harness: built %d coordinates for N=%d", len(pts), c.N)
	}
	flat := make([]float64, 0, len(pts)*s)
	for i, p := range pts {
		flat = append(flat, p[0], p[1])
		for d := 2; d < s; d++ {
			flat = append(flat, float64(i*3+d)*1e5)
		}
	}
	// counter-clockwise? the stairs run below the diagonal, back along the top and the
	// left: area = m*m - (m*m-m)/2 ... computed exactly instead
	a2 := 0.0
	for i := 0; i+1 < len(pts); i++ {
		a2 += pts[i][0]*pts[i+1][1] - pts[i+1][0]*pts[i][1]
	}
	wantArea, wantLen := a2/2, float64(4*m)
	var area, length float64
	switch c.Kind {
	case "LinearRing":
		g := geom.NewLinearRingFlat(l, flat)
		area, length = g.Area(), g.Length()
	case "Polygon":
		g := geom.NewPolygonFlat(l, flat, []int{len(flat)})
		area, length = g.Area(), g.Length()
	case "MultiPolygon":
		g := geom.NewMultiPolygonFlat(l, flat, [][]int{{len(flat)}})
		area, length = g.Area(), g.Length()
	default:
		g := geom.NewLineStringFlat(l, flat)
		area, length = wantArea, g.Length()
		if g.Area() != 0 {
			return fmt.Errorf("LineString of %d coordinates: Area() = %v", c.N, g.Area())
		}
	}
	if area != wantArea || length != wantLen {
		return fmt.Errorf("%s: staircase of %d coordinates: Area() = %v, Length() = %v, want exactly %v and %v", c.Kind, c.N, area, length, wantArea, wantLen)
	}
	return nil
}

var sizeSpec = run.Spec[SizeCase]{ID: "C09", Name: "size", Prop: propSize, Classify: func(c SizeCase) ([]string, bool) {
	return []string{"size-sweep"}, true
}}

// TestExhaustiveSizes measures rings and lines of every number of coordinates from 5 to
// 4 000 (thorough: 20 000).
func TestExhaustiveSizes(t *testing.T) {
	shard, shards := run.Shard()
	hi := 4000
	if run.Thorough() {
		hi = 20000
	}
	kinds := []string{"LinearRing", "Polygon", "MultiPolygon", "LineString"}
	layouts := []geom.Layout{geom.XY, geom.XYZ, geom.XYZM, geom.Layout(5), geom.XYM}
	for n := 5; n <= hi; n++ {
		if n%shards != shard {
			continue
		}
		c := SizeCase{Kind: kinds[n%len(kinds)], Layout: int(layouts[(n/len(kinds))%len(layouts)]), N: n}
		ev.Default.CaseHash(uint64(n)|1<<41, "size-sweep", true, func() any { return c })
		if !run.One(t, sizeSpec, c) {
			return
		}
	}
}

func TestRegressSizes(t *testing.T) { run.Regress(t, sizeSpec) }
