package c09

import (
	"fmt"
	"math"
	"math/big"
	"testing"

	geom "github.com/twpayne/go-geom"

	"verifharness/internal/ev"
	"verifharness/internal/run"
)

// BigCase is a ring too large to carry in a case file: vertex i of N lies at the
// rounded position of angle 2*pi*i/N on a circle of radius 2^30 (then the ring is
// closed); extra ordinates are a function of the index.
type BigCase struct {
	Kind   string `json:"kind"` // LinearRing | Polygon | MultiPolygon | LineString
	Layout int    `json:"layout"`
	N      int    `json:"n"`
}

func bigRing(n int) [][2]int64 {
	pts := make([][2]int64, 0, n+1)
	for i := 0; i < n; i++ {
		th := 2 * math.Pi * float64(i) / float64(n)
		pts = append(pts, [2]int64{int64(math.Round(math.Ldexp(math.Cos(th), 30))), int64(math.Round(math.Ldexp(math.Sin(th), 30)))})
	}
	return append(pts, pts[0])
}

func propBig(c BigCase) error {
	l := geom.Layout(c.Layout)
	s := l.Stride()
	pts := bigRing(c.N)
	flat := make([]float64, 0, len(pts)*s)
	for i, p := range pts {
		flat = append(flat, float64(p[0]), float64(p[1]))
		for d := 2; d < s; d++ {
			flat = append(flat, float64(i%977)*1e9)
		}
	}
	// exact doubled area (shoelace) and the magnitudes the library's trapezoid sum adds
	a2 := new(big.Int)
	var terms, length, lterms float64
	for i := 0; i+1 < len(pts); i++ {
		p, q := pts[i], pts[i+1]
		a2.Add(a2, new(big.Int).Sub(new(big.Int).Mul(big.NewInt(p[0]), big.NewInt(q[1])), new(big.Int).Mul(big.NewInt(q[0]), big.NewInt(p[1]))))
		terms += math.Abs(float64(q[1]-p[1])) * math.Abs(float64(p[0]+q[0]))
		d := math.Hypot(float64(q[0]-p[0]), float64(q[1]-p[1]))
		length += d
		lterms += d
	}
	area, _ := new(big.Float).Quo(new(big.Float).SetInt(a2), big.NewFloat(2)).Float64()
	n := float64(len(pts))
	atol := (n + 8) * 0x1p-52 * terms
	// the reference length is itself a float64 sum of n terms: allow twice the bound
	ltol := 2 * (n + 8) * 0x1p-52 * lterms
	var t interface {
		Area() float64
		Length() float64
	}
	switch c.Kind {
	case "LinearRing":
		t = geom.NewLinearRingFlat(l, flat)
	case "Polygon":
		t = geom.NewPolygonFlat(l, flat, []int{len(flat)})
	case "MultiPolygon":
		t = geom.NewMultiPolygonFlat(l, flat, [][]int{{}, {len(flat)}, {}})
	case "LineString":
		t = geom.NewLineStringFlat(l, flat)
		area, atol = 0, 0
	default:
		return fmt.Errorf("bad kind %q", c.Kind)
	}
	if got := t.Area(); math.Abs(got-area) > atol || math.IsNaN(got) {
		return fmt.Errorf("%s of %d coordinates: Area() = %v, exact %v, |diff| %v > %v", c.Kind, len(pts), got, area, math.Abs(got-area), atol)
	}
	if got := t.Length(); math.Abs(got-length) > ltol || math.IsNaN(got) {
		return fmt.Errorf("%s of %d coordinates: Length() = %v, reference %v, |diff| %v > %v", c.Kind, len(pts), got, length, math.Abs(got-length), ltol)
	}
	return nil
}

var bigSpec = run.Spec[BigCase]{ID: "C09", Name: "bigmeasure", Prop: propBig, Classify: func(c BigCase) ([]string, bool) {
	return []string{"big:" + c.Kind}, true
}}

// TestExhaustiveBig measures rings whose ordinate or coordinate count lies just
// above 2^16 and 2^20: block-wise or pairwise summation, if any, has its seams
// beyond what a generated case can carry.
func TestExhaustiveBig(t *testing.T) {
	shard, shards := run.Shard()
	n := 0
	for li, l := range []geom.Layout{geom.XY, geom.XYZ, geom.XYZM, geom.Layout(5)} {
		for ki, kind := range []string{"LinearRing", "Polygon", "MultiPolygon", "LineString"} {
			n++
			if n%shards != shard {
				continue
			}
			if !run.Thorough() && (ki+li)%4 != 0 {
				continue
			}
			sizes := []int{1<<16 + 1, (1<<20)/l.Stride() + 3}
			if run.Thorough() {
				sizes = append(sizes, 1<<20+5)
			}
			for _, size := range sizes {
				c := BigCase{Kind: kind, Layout: int(l), N: size}
				ev.Default.CaseHash(uint64(n)<<32|uint64(size), "bigmeasure", true, func() any { return c })
				if !run.One(t, bigSpec, c) {
					return
				}
			}
		}
	}
}

func TestRegressBig(t *testing.T) { run.Regress(t, bigSpec) }
