module verifharness

go 1.23

require (
	github.com/twpayne/go-geom v0.0.0
	pgregory.net/rapid v1.3.0
)

replace github.com/twpayne/go-geom => /repo
