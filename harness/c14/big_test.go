package c14

import (
	"fmt"
	"math"
	"testing"

	"verifharness/internal/ev"
	"verifharness/internal/run"
)

// BigCase is a geometry with more vertices than a case file should carry, built
// from its parameters:
//
//	points   N points on a skewed lattice
//	lines    one polyline of N vertices, x = 10*i and y growing irregularly, plus a
//	         short second line (so that every segment of the long one carries its own
//	         weight in the mean: losing one moves the centroid)
//	ring     one star-shaped ring of N vertices with radii between r and 1.5r
//	polygon  that ring as a shell with one small hole, and a second small polygon
type BigCase struct {
	Mode   string `json:"mode"`
	N      int    `json:"n"`
	Layout int    `json:"layout"`
	Rev    bool   `json:"rev,omitempty"`
	Rot    int    `json:"rot,omitempty"`
	Exp    int    `json:"exp,omitempty"`
}

func bigRing(ctr pt, n int, rev bool, rot int) []pt {
	r := float64(40 * n)
	open := make([]pt, 0, n+1)
	for i := 0; i < n; i++ {
		rr := r * (1 + 0.5*float64((i*7)%5)/5)
		th := 2 * math.Pi * float64(i) / float64(n)
		open = append(open, pt{ctr[0] + int64(math.Round(rr*math.Cos(th))), ctr[1] + int64(math.Round(rr*math.Sin(th)))})
	}
	for i := range open {
		if cross(ctr, open[i], open[(i+1)%n]) <= 0 {
			panic("big ring is not star-shaped")
		}
	}
	if rev {
		for i, j := 0, n-1; i < j; i, j = i+1, j-1 {
			open[i], open[j] = open[j], open[i]
		}
	}
	rot %= n
	open = append(open[rot:], open[:rot]...)
	return append(open, open[0])
}

func expandBig(b BigCase) Case {
	c := Case{Layout: b.Layout, Exp: b.Exp}
	switch b.Mode {
	case "points":
		c.Mode = "points"
		ps := make([]pt, 0, b.N)
		for i := 0; i < b.N; i++ {
			ps = append(ps, pt{int64((i*37)%1009) * 100, int64((i*91)%997)*100 + int64(i)})
		}
		c.Rings = [][]pt{ps}
	case "lines":
		c.Mode = "lines"
		ps := make([]pt, 0, b.N)
		for i := 0; i < b.N; i++ {
			ps = append(ps, pt{int64(10 * i), int64((i*i)%101)*7 + int64(i/3)})
		}
		c.Rings = [][]pt{ps, {{-50, -50}, {-20, -10}, {0, -30}}}
	case "ring":
		c.Mode, c.Class = "polygons", "single-ring"
		c.Polys = [][][]pt{{bigRing(pt{1000, -3000}, b.N, b.Rev, b.Rot)}}
	default:
		c.Mode, c.Class = "polygons", "multi"
		ctr := pt{-7000, 2500}
		r := int64(40 * b.N)
		hole := []pt{{ctr[0] - r/8, ctr[1] - r/8}, {ctr[0] + r/8, ctr[1] - r/8}, {ctr[0], ctr[1] + r/8}, {ctr[0] - r/8, ctr[1] - r/8}}
		far := pt{ctr[0] + 5*r, ctr[1]}
		small := []pt{{far[0], far[1]}, {far[0] + r, far[1]}, {far[0] + r, far[1] + r/2}, {far[0], far[1]}}
		c.Polys = [][][]pt{{bigRing(ctr, b.N, b.Rev, b.Rot), hole}, {small}}
	}
	return c
}

func propBig(b BigCase) error {
	if err := prop(expandBig(b)); err != nil {
		return fmt.Errorf("%s of %d vertices: %v", b.Mode, b.N, err)
	}
	return nil
}

var bigSpec = run.Spec[BigCase]{ID: "C14", Name: "big", Prop: propBig, Classify: func(c BigCase) ([]string, bool) {
	return []string{"big:" + c.Mode, fmt.Sprintf("big-n:%d", c.N)}, true
}}

// TestExhaustiveBig puts every mode through sizes on both sides of the powers of two
// from 2^10 to 2^13 (2^16 in the thorough tier), where an implementation that splits
// its input into blocks, or sums in chunks, has its seams.
func TestExhaustiveBig(t *testing.T) {
	shard, shards := run.Shard()
	sizes := []int{1023, 1024, 1025, 1026, 1500, 2047, 2048, 2049, 3000, 4096, 4097, 5000}
	if run.Thorough() {
		sizes = append(sizes, 8191, 8192, 8193, 10000, 16385, 32769, 65537)
	}
	n := 0
	for _, mode := range []string{"points", "lines", "ring", "polygon"} {
		for si, size := range sizes {
			n++
			if n%shards != shard {
				continue
			}
			b := BigCase{Mode: mode, N: size, Layout: int(layouts[(si+len(mode))%len(layouts)]), Rev: si%2 == 1, Rot: (si * 577) % size}
			if si%5 == 4 {
				b.Exp = []int{140, -140, 40}[si%3]
			}
			ev.Default.CaseHash(uint64(size)<<8|uint64(len(mode)), "big", true, func() any { return b })
			if !run.One(t, bigSpec, b) {
				return
			}
		}
	}
}

func TestRegressBig(t *testing.T) { run.Regress(t, bigSpec) }
