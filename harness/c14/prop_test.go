// C14: centroids, ring direction and signed area match exact geometry.
package c14

import (
	"fmt"
	"github.com/twpayne/go-geom/bigxy"
	"math"
	"math/big"
	"testing"

	geom "github.com/twpayne/go-geom"
	"github.com/twpayne/go-geom/xy"
	"pgregory.net/rapid"

	"verifharness/internal/ev"
	"verifharness/internal/exact"
	"verifharness/internal/run"
)

func TestMain(m *testing.M) { run.Main(m) }

type pt = [2]int64

// Case: Mode "points" (Rings[0] is the point list), "lines" (Rings are
// polylines) or "polygons" (Polys: each polygon is a list of closed rings,
// shell first).
type Case struct {
	Mode   string   `json:"mode"`
	Class  string   `json:"class,omitempty"`
	Layout int      `json:"layout"`
	Rings  [][]pt   `json:"rings,omitempty"`
	Polys  [][][]pt `json:"polys,omitempty"`
	// Exp: every x and y is multiplied by 2^Exp before it is handed to the library and
	// every centroid divided by 2^Exp (a signed area by 4^Exp) before it is compared;
	// both are exact while cubes of the coordinates stay finite and normal.
	Exp int `json:"exp,omitempty"`
	// Div > 1: every x and y is divided by Div (in float64) first: decimal ordinates.
	Div int `json:"div,omitempty"`
}

var layouts = []geom.Layout{geom.XY, geom.XYZ, geom.XYM, geom.XYZM, geom.Layout(5)}

func cross(o, a, b pt) int64 { return (a[0]-o[0])*(b[1]-o[1]) - (a[1]-o[1])*(b[0]-o[0]) }

// star builds a simple closed ring, star-shaped around c, counter-clockwise,
// with n vertices at radii in [r, 2r]; verified exactly, with a regular
// fallback that cannot fail.
func star(t *rapid.T, c pt, r int64, n int, label string) []pt {
	make1 := func(jitter bool) []pt {
		ring := make([]pt, 0, n+1)
		for i := 0; i < n; i++ {
			j, rr := 0.0, float64(r)
			if jitter {
				j = rapid.Float64Range(-0.2, 0.2).Draw(t, label+"jit")
				rr = float64(r) * rapid.Float64Range(1, 2).Draw(t, label+"rad")
			}
			th := 2 * math.Pi * (float64(i) + j) / float64(n)
			ring = append(ring, pt{c[0] + int64(math.Round(rr*math.Cos(th))), c[1] + int64(math.Round(rr*math.Sin(th)))})
		}
		return append(ring, ring[0])
	}
	ok := func(ring []pt) bool {
		for i := 0; i+1 < len(ring); i++ {
			if cross(c, ring[i], ring[i+1]) <= 0 {
				return false
			}
		}
		return true
	}
	ring := make1(true)
	if !ok(ring) {
		ring = make1(false)
		if !ok(ring) {
			panic("regular star polygon failed verification")
		}
	}
	return ring
}

// decorate applies direction, start-vertex rotation, duplicated vertices and
// collinear intermediate vertices to a closed ring.
func decorate(t *rapid.T, ring []pt, label string) []pt {
	n := len(ring) - 1
	open := append([]pt{}, ring[:n]...)
	if rapid.Bool().Draw(t, label+"rev") {
		for i, j := 0, n-1; i < j; i, j = i+1, j-1 {
			open[i], open[j] = open[j], open[i]
		}
	}
	rot := rapid.IntRange(0, n-1).Draw(t, label+"rot")
	open = append(open[rot:], open[:rot]...)
	var out []pt
	for i, p := range open {
		out = append(out, p)
		switch rapid.IntRange(0, 9).Draw(t, label+"deco") {
		case 0:
			out = append(out, p) // duplicated consecutive vertex
		case 1:
			q := open[(i+1)%n]
			if (p[0]+q[0])%2 == 0 && (p[1]+q[1])%2 == 0 { // collinear intermediate vertex
				out = append(out, pt{(p[0] + q[0]) / 2, (p[1] + q[1]) / 2})
			}
		}
	}
	return append(out, out[0])
}

func genPolygon(t *rapid.T, c pt, r int64, label string) [][]pt {
	n := rapid.IntRange(4, 10).Draw(t, label+"n")
	if r >= 4000 && rapid.IntRange(0, 29).Draw(t, label+"long") == 0 {
		n = rapid.IntRange(60, 300).Draw(t, label+"nlong")
	}
	shell := star(t, c, r, n, label+"shell")
	if rapid.IntRange(0, 2).Draw(t, label+"rect") == 0 {
		// axis-parallel rectangle with collinear vertices on its edges: the highest
		// vertex then has collinear horizontal neighbours
		w, h := 2*(r+rapid.Int64Range(0, r).Draw(t, label+"w")), 2*(r+rapid.Int64Range(0, r).Draw(t, label+"h"))
		x0, y0 := c[0]-w/2, c[1]-h/2
		shell = []pt{{x0, y0}, {x0 + w/2, y0}, {x0 + w, y0}, {x0 + w, y0 + h/2}, {x0 + w, y0 + h}, {x0 + w/2, y0 + h}, {x0, y0 + h}, {x0, y0 + h/2}, {x0, y0}}
	}
	rings := [][]pt{decorate(t, shell, label+"shell")}
	nh := rapid.IntRange(0, 3).Draw(t, label+"holes")
	cells := []pt{{-1, -1}, {1, -1}, {1, 1}, {-1, 1}}
	for h := 0; h < nh; h++ {
		// hole inside its own cell of the square [c-r/5, c+r/5]^2, which lies in the disc inscribed in the shell
		hc := pt{c[0] + cells[h][0]*r/10, c[1] + cells[h][1]*r/10}
		hr := r / 30
		if hr < 2 {
			hr = 2
		}
		rings = append(rings, decorate(t, star(t, hc, hr, rapid.IntRange(3, 6).Draw(t, label+"hn"), label+"hole"), label+"hole"))
	}
	return rings
}

func genCase(t *rapid.T) Case {
	c := Case{Layout: int(rapid.SampledFrom(layouts).Draw(t, "layout"))}
	off := pt{rapid.Int64Range(-1000000000, 1000000000).Draw(t, "offx"), rapid.Int64Range(-1000000000, 1000000000).Draw(t, "offy")}
	if rapid.IntRange(0, 2).Draw(t, "nooff") == 0 {
		off = pt{}
	}
	switch rapid.SampledFrom([]string{"polygons", "polygons", "polygons", "lines", "points", "zero-area", "ring", "far-members", "thin-frame", "needle"}).Draw(t, "mode") {
	case "needle":
		// direction only: a ring whose highest vertex is the tip of a needle with flanks
		// f1 = (p, q) and f2 = f1 + (d1, d2), p*d2 - q*d1 = 1 (Bezout): the turn at the tip
		// is one grid unit against products of up to 2^62, whatever the size of the ring,
		// so the direction hangs on the last bit of an exact determinant. The body lies on
		// the side that keeps the ring simple (proved in DESIGN.md 8.7 round q); mirrored
		// half of the time.
		c.Mode, c.Class = "direction", "needle"
		k := int64(1) << uint(rapid.IntRange(4, 30).Draw(t, "nk"))
		var pp, qq, d1, d2 int64
		for {
			pp, qq = rapid.Int64Range(k, 2*k).Draw(t, "np"), rapid.Int64Range(k, 2*k).Draw(t, "nq")
			// extended Euclid: pp*v + qq*u = g
			r0, r1, s0, s1, t0, t1 := pp, qq, int64(1), int64(0), int64(0), int64(1)
			for r1 != 0 {
				q := r0 / r1
				r0, r1, s0, s1, t0, t1 = r1, r0-q*r1, s1, s0-q*s1, t1, t0-q*t1
			}
			if r0 != 1 {
				continue
			}
			// pp*s0 + qq*t0 = 1: d2 = s0, d1 = -t0, moved into 1 <= d1 <= pp by multiples of (pp, qq)
			d2, d1 = s0, -t0
			for d1 < 1 {
				d1, d2 = d1+pp, d2+qq
			}
			for d1 > pp {
				d1, d2 = d1-pp, d2-qq
			}
			if d2 >= 0 && pp*d2-qq*d1 == 1 {
				break
			}
		}
		w := rapid.Int64Range(1, 2*k).Draw(t, "nw")
		mx := int64(1)
		if rapid.Bool().Draw(t, "nmirror") {
			mx = -1
		}
		if rapid.Bool().Draw(t, "nbigoff") {
			off = pt{rapid.Int64Range(-1<<33, 1<<33).Draw(t, "noffx"), rapid.Int64Range(-1<<33, 1<<33).Draw(t, "noffy")}
		}
		at := func(dx, dy int64) pt { return pt{off[0] + mx*dx, off[1] + dy} }
		ring := []pt{at(-pp, -qq), at(0, 0), at(-pp-d1, -qq-d2), at(-pp-d1-w, -qq-d2), at(-pp-d1-w, -1), at(-pp, -qq)}
		c.Polys = [][][]pt{{decorate(t, ring, "needle")}}
		return c
	case "points":
		c.Mode = "points"
		n := rapid.IntRange(1, 50).Draw(t, "n")
		if rapid.IntRange(0, 29).Draw(t, "long") == 0 {
			n = rapid.IntRange(60, 300).Draw(t, "nlong")
		}
		var ps []pt
		for i := 0; i < n; i++ {
			p := pt{off[0] + rapid.Int64Range(-100000, 100000).Draw(t, "x"), off[1] + rapid.Int64Range(-100000, 100000).Draw(t, "y")}
			if i > 0 && rapid.IntRange(0, 5).Draw(t, "dup") == 0 {
				p = ps[rapid.IntRange(0, i-1).Draw(t, "which")]
			}
			ps = append(ps, p)
		}
		c.Rings = [][]pt{ps}
	case "lines":
		c.Mode = "lines"
		nl := rapid.IntRange(1, 4).Draw(t, "nl")
		total := int64(0)
		for i := 0; i < nl; i++ {
			n := rapid.IntRange(0, 8).Draw(t, "n")
			if rapid.IntRange(0, 39).Draw(t, "long") == 0 {
				n = rapid.IntRange(60, 300).Draw(t, "nlong")
			}
			var ps []pt
			for j := 0; j < n; j++ {
				p := pt{off[0] + rapid.Int64Range(-100000, 100000).Draw(t, "x"), off[1] + rapid.Int64Range(-100000, 100000).Draw(t, "y")}
				if j > 0 && rapid.IntRange(0, 6).Draw(t, "rep") == 0 {
					p = ps[j-1]
				}
				if j > 0 && p != ps[j-1] {
					total++
				}
				ps = append(ps, p)
			}
			c.Rings = append(c.Rings, ps)
		}
		if total == 0 { // total length must be positive
			c.Rings = append(c.Rings, []pt{{off[0], off[1]}, {off[0] + 3, off[1] + 4}})
		}
	case "zero-area":
		c.Mode, c.Class = "polygons", "zero-area"
		np := rapid.IntRange(1, 2).Draw(t, "np")
		for i := 0; i < np; i++ {
			a := pt{off[0] + rapid.Int64Range(-1000, 1000).Draw(t, "ax"), off[1] + rapid.Int64Range(-1000, 1000).Draw(t, "ay")}
			d := pt{rapid.Int64Range(-50, 50).Draw(t, "dx"), rapid.Int64Range(-50, 50).Draw(t, "dy")}
			if d == (pt{}) {
				d = pt{1, 0}
			}
			k1, k2 := rapid.Int64Range(1, 20).Draw(t, "k1"), rapid.Int64Range(-20, 40).Draw(t, "k2")
			b := pt{a[0] + k1*d[0], a[1] + k1*d[1]}
			cc := pt{a[0] + k2*d[0], a[1] + k2*d[1]}
			if rapid.IntRange(0, 3).Draw(t, "filledbyhole") == 0 {
				// a shell with real area whose hole is the same ring again, started at another
				// vertex (and possibly the other way round): nothing is left of the area
				r := rapid.Int64Range(3, 60).Draw(t, "fr")
				shell := star(t, a, r, rapid.IntRange(3, 7).Draw(t, "fn"), "filled")
				open := shell[:len(shell)-1]
				k := rapid.IntRange(1, len(open)-1).Draw(t, "frot")
				hole := append(append([]pt{}, open[k:]...), open[:k]...)
				if rapid.Bool().Draw(t, "frev") {
					for x, y := 0, len(hole)-1; x < y; x, y = x+1, y-1 {
						hole[x], hole[y] = hole[y], hole[x]
					}
				}
				hole = append(hole, hole[0])
				c.Polys = append(c.Polys, [][]pt{shell, hole})
				continue
			}
			if rapid.IntRange(0, 2).Draw(t, "outandback") == 0 {
				// a ring that runs out along a path with corners and back along the same path:
				// no area, but triangles of either sign on the way
				e := pt{b[0] + rapid.Int64Range(-30, 30).Draw(t, "ex"), b[1] + rapid.Int64Range(-30, 30).Draw(t, "ey")}
				f := pt{e[0] + rapid.Int64Range(-30, 30).Draw(t, "fx"), e[1] + rapid.Int64Range(-30, 30).Draw(t, "fy")}
				c.Polys = append(c.Polys, [][]pt{{a, b, e, f, e, b, a}})
				continue
			}
			c.Polys = append(c.Polys, [][]pt{{a, b, cc, a}})
		}
	case "far-members":
		// small members a long way from the first polygon's first vertex (the documented
		// base point of the triangle fan): each member's net area is a tiny difference of
		// huge triangle areas
		c.Mode, c.Class = "polygons", "far-members"
		np := rapid.IntRange(2, 3).Draw(t, "np")
		d := int64(1) << uint(rapid.IntRange(20, 44).Draw(t, "dexp"))
		r := rapid.Int64Range(2, 40).Draw(t, "r")
		for i := 0; i < np; i++ {
			ctr := pt{off[0] + int64(i)*d, off[1] + int64(i%2)*d/2}
			c.Polys = append(c.Polys, [][]pt{decorate(t, star(t, ctr, r, rapid.IntRange(3, 8).Draw(t, "fn"), fmt.Sprintf("far%d", i)), fmt.Sprintf("far%d", i))})
		}
	case "thin-frame":
		// a hole that fills all but a hair-thin, uneven frame of its shell: the net area
		// is a tiny fraction of the triangle areas it is summed from, and the centroid
		// sits far from the middle
		c.Mode, c.Class = "polygons", "thin-frame"
		w := int64(1) << uint(rapid.IntRange(12, 40).Draw(t, "wexp"))
		h := w / int64(rapid.IntRange(1, 4).Draw(t, "aspect"))
		il, ir := rapid.Int64Range(1, 3).Draw(t, "il"), rapid.Int64Range(1, 9).Draw(t, "ir")
		ib, it := rapid.Int64Range(1, 3).Draw(t, "ib"), rapid.Int64Range(1, 9).Draw(t, "it")
		x0, y0 := off[0], off[1]
		shell := []pt{{x0, y0}, {x0 + w, y0}, {x0 + w, y0 + h}, {x0, y0 + h}, {x0, y0}}
		hole := []pt{{x0 + il, y0 + ib}, {x0 + il, y0 + h - it}, {x0 + w - ir, y0 + h - it}, {x0 + w - ir, y0 + ib}, {x0 + il, y0 + ib}}
		c.Polys = [][][]pt{{decorate(t, shell, "fshell"), decorate(t, hole, "fhole")}}
	case "ring":
		c.Mode, c.Class = "polygons", "single-ring"
		r := rapid.Int64Range(2, 50000).Draw(t, "r")
		n := rapid.IntRange(3, 12).Draw(t, "n")
		if r >= 4000 && rapid.IntRange(0, 9).Draw(t, "long") == 0 {
			n = rapid.IntRange(60, 300).Draw(t, "nlong") // arc step 2*pi*r/n >= 80 grid units
		}
		c.Polys = [][][]pt{{decorate(t, star(t, off, r, n, "ring"), "ring")}}
	default:
		c.Mode = "polygons"
		np := rapid.IntRange(1, 3).Draw(t, "np")
		r := rapid.Int64Range(120, 30000).Draw(t, "r")
		for i := 0; i < np; i++ {
			// members translated into disjoint boxes: centres 5r apart (each polygon lies within 2r+1 of its centre)
			ctr := pt{off[0] + int64(i)*5*r, off[1] + int64(i%2)*5*r}
			c.Polys = append(c.Polys, genPolygon(t, ctr, r, fmt.Sprintf("p%d", i)))
		}
		if np > 1 {
			c.Class = "multi"
		}
	}
	if rapid.IntRange(0, 3).Draw(t, "div") == 0 {
		c.Div = rapid.SampledFrom([]int{10, 10, 3, 7, 100, 1000, 60000}).Draw(t, "divby")
	}
	if rapid.IntRange(0, 4).Draw(t, "scaled") == 0 {
		c.Exp = rapid.SampledFrom([]int{280, -280, 140, -140, 40, -40}).Draw(t, "exp")
		if rapid.Bool().Draw(t, "expany") {
			c.Exp = rapid.IntRange(-280, 280).Draw(t, "expv")
		}
	}
	return c
}

// curExp is Case.Exp of the case being evaluated (one case at a time per process).
var curExp int

func flatOf(ps []pt, l geom.Layout) []float64 {
	s := l.Stride()
	out := make([]float64, 0, len(ps)*s)
	for i, p := range ps {
		out = append(out, math.Ldexp(val(p[0]), curExp), math.Ldexp(val(p[1]), curExp))
		for d := 2; d < s; d++ {
			// (a Z or M is finite, not a number, or infinite in turn: centroids, areas and
			// directions are matters of x and y)
			switch (i + d) % 5 {
			case 0:
				out = append(out, math.NaN())
			case 1:
				out = append(out, math.Inf(1-2*(i%2)))
			default:
				out = append(out, float64(i*3+d)*1e7)
			}
		}
	}
	return out
}

// sridOf picks an SRID from the size of the data (the centroid functions ignore it:
// geographic codes among them must not change an answer).
func sridOf(n int) int { return []int{0, 4326, 3857, 4269, 0, 4258, 27700}[n%7] }

// val is a whole-number ordinate of the case as the float64 the library gets (before the
// power-of-two scaling): itself, or divided by the case's Div - a decimal or a third
// instead of a short binary fraction. The exact references work on that double.
func val(v int64) float64 {
	if curDiv > 1 {
		return float64(v) / float64(curDiv)
	}
	return float64(v)
}

// curDiv is Case.Div of the case being evaluated.
var curDiv int

func ep(p pt) exact.P2 { return exact.Pt(val(p[0]), val(p[1])) }

var u53 = new(big.Rat).SetFrac(big.NewInt(1), new(big.Int).Lsh(big.NewInt(1), 53))

func rabs(r *big.Rat) *big.Rat { return new(big.Rat).Abs(r) }

// withinTwice checks what f returns, overwrites it (the coordinate returned belongs to
// the caller) and checks what f returns when asked again.
func withinTwice(what string, f func() geom.Coord, wx, wy *big.Rat, tx, ty *big.Rat, stride int) error {
	got := f()
	if err := within(what, got, wx, wy, tx, ty, stride); err != nil {
		return err
	}
	for i := range got {
		got[i] = math.NaN()
	}
	return within(what+", asked again after the caller overwrote the coordinate returned before,", f(), wx, wy, tx, ty, stride)
}

func within(what string, got geom.Coord, wx, wy *big.Rat, tx, ty *big.Rat, stride int) error {
	if len(got) != stride && !(stride > 2 && len(got) == 2) {
		return fmt.Errorf("%s: centroid has %d ordinates (layout stride %d)", what, len(got), stride)
	}
	if curExp != 0 {
		what = fmt.Sprintf("%s [all x,y times 2^%d, result divided by it]", what, curExp)
		got = geom.Coord{math.Ldexp(got[0], -curExp), math.Ldexp(got[1], -curExp)}
	}
	for i, w := range []*big.Rat{wx, wy} {
		tol := []*big.Rat{tx, ty}[i]
		if math.IsNaN(got[i]) || math.IsInf(got[i], 0) {
			return fmt.Errorf("%s: centroid = %v", what, got)
		}
		d := rabs(exact.Sub(exact.R(got[i]), w))
		if d.Cmp(tol) > 0 {
			return fmt.Errorf("%s: centroid[%d] = %v, exact %v, |diff| %.3g > tolerance %.3g", what, i, got[i], exact.Float(w), exact.Float(d), exact.Float(tol))
		}
		if tol.Sign() > 0 {
			ev.Default.MaxOf("err_over_tol", exact.Float(exact.Quo(d, tol)))
		}
	}
	return nil
}

// ringStats returns twice the signed area (CCW positive) and the first moments
// 6*A*Cx, 6*A*Cy of a closed ring.
func ringStats(ring []pt) (a2, mx, my *big.Rat) {
	a2, mx, my = new(big.Rat), new(big.Rat), new(big.Rat)
	for i := 0; i+1 < len(ring); i++ {
		p, q := ep(ring[i]), ep(ring[i+1])
		cr := exact.Sub(exact.Mul(p.X, q.Y), exact.Mul(q.X, p.Y))
		a2.Add(a2, cr)
		mx.Add(mx, exact.Mul(exact.Add(p.X, q.X), cr))
		my.Add(my, exact.Mul(exact.Add(p.Y, q.Y), cr))
	}
	return
}

func propPoints(c Case, l geom.Layout) error {
	ps := c.Rings[0]
	n := int64(len(ps))
	sx, sy, ax, ay := new(big.Rat), new(big.Rat), new(big.Rat), new(big.Rat)
	for _, p := range ps {
		sx.Add(sx, exact.R(val(p[0])))
		sy.Add(sy, exact.R(val(p[1])))
		ax.Add(ax, rabs(exact.R(val(p[0]))))
		ay.Add(ay, rabs(exact.R(val(p[1]))))
	}
	nn := big.NewRat(n, 1)
	wx, wy := exact.Quo(sx, nn), exact.Quo(sy, nn)
	k := exact.Mul(big.NewRat(3*(n+2), 1), u53)
	tx, ty := exact.Mul(k, exact.Quo(ax, nn)), exact.Mul(k, exact.Quo(ay, nn))
	flat := flatOf(ps, l)
	mp := geom.NewMultiPointFlat(l, flat).SetSRID(sridOf(len(flat)))
	if err := withinTwice("MultiPointCentroid", func() geom.Coord { return xy.MultiPointCentroid(mp) }, wx, wy, tx, ty, 2); err != nil {
		return err
	}
	if err := withinTwice("PointsCentroidFlat", func() geom.Coord { return xy.PointsCentroidFlat(l, flat) }, wx, wy, tx, ty, 2); err != nil {
		return err
	}
	// the same points with EMPTY members in between: members without a position do
	// not take part in the mean
	var ends []int
	for i := range ps {
		if (i*7+len(ps))%3 == 0 {
			ends = append(ends, i*l.Stride())
		}
		ends = append(ends, (i+1)*l.Stride())
	}
	ends = append(ends, len(flat))
	mpe := geom.NewMultiPointFlat(l, flat, geom.NewMultiPointFlatOptionWithEnds(ends)).SetSRID(sridOf(len(flat) + 1))
	if mpe.NumPoints() <= len(ps) {
		return fmt.Errorf("harness: MultiPoint with EMPTY members has %d members for %d points", mpe.NumPoints(), len(ps))
	}
	if err := withinTwice("MultiPointCentroid (with EMPTY members)", func() geom.Coord { return xy.MultiPointCentroid(mpe) }, wx, wy, tx, ty, 2); err != nil {
		return err
	}
	if gote, err := xy.Centroid(mpe); err != nil {
		return err
	} else if err := within("Centroid(MultiPoint with EMPTY members)", gote, wx, wy, tx, ty, 2); err != nil {
		return err
	}
	var pts []*geom.Point
	for i := range ps {
		pts = append(pts, geom.NewPointFlat(l, flat[i*l.Stride():(i+1)*l.Stride()]))
	}
	if err := withinTwice("PointsCentroid", func() geom.Coord { return xy.PointsCentroid(pts[0], pts[1:]...) }, wx, wy, tx, ty, 2); err != nil {
		return err
	}
	// the calculator used directly, points added one by one (as points and as coordinates)
	pc := xy.NewPointCentroidCalculator()
	for i, q := range pts {
		if i%2 == 0 {
			pc.AddPoint(q)
		} else {
			pc.AddCoord(geom.Coord(q.FlatCoords()))
		}
	}
	if err := withinTwice("PointCentroidCalculator", func() geom.Coord { return pc.GetCentroid() }, wx, wy, tx, ty, 2); err != nil {
		return err
	}
	got, err := xy.Centroid(mp)
	if err != nil {
		return err
	}
	if err := within("Centroid(MultiPoint)", got, wx, wy, tx, ty, 2); err != nil {
		return err
	}
	if len(ps) == 1 {
		got, err := xy.Centroid(pts[0])
		if err != nil {
			return err
		}
		return within("Centroid(Point)", got, wx, wy, tx, ty, 2)
	}
	return nil
}

// lineRef returns the exact length-weighted centroid (300-bit) and tolerances.
func lineRef(lines [][]pt) (wx, wy, tx, ty *big.Rat, ok bool) {
	prec := uint(exact.Prec)
	L := new(big.Float).SetPrec(prec)
	sx, sy := new(big.Float).SetPrec(prec), new(big.Float).SetPrec(prec)
	ax, ay := new(big.Float).SetPrec(prec), new(big.Float).SetPrec(prec)
	n := int64(0)
	for _, ln := range lines {
		for i := 0; i+1 < len(ln); i++ {
			p, q := ep(ln[i]), ep(ln[i+1])
			n++
			ll := exact.Sqrt(exact.Dist2(p, q))
			L.Add(L, ll)
			mx := exact.F(exact.Quo(exact.Add(p.X, q.X), big.NewRat(2, 1)))
			my := exact.F(exact.Quo(exact.Add(p.Y, q.Y), big.NewRat(2, 1)))
			tmx := new(big.Float).SetPrec(prec).Mul(ll, mx)
			tmy := new(big.Float).SetPrec(prec).Mul(ll, my)
			sx.Add(sx, tmx)
			sy.Add(sy, tmy)
			if curDiv > 1 {
				// (on decimal ordinates the midpoint's sum rounds by a fraction of the
				// ordinates, not of their sum)
				amx := exact.F(exact.Quo(exact.Add(rabs(p.X), rabs(q.X)), big.NewRat(2, 1)))
				amy := exact.F(exact.Quo(exact.Add(rabs(p.Y), rabs(q.Y)), big.NewRat(2, 1)))
				ax.Add(ax, new(big.Float).SetPrec(prec).Mul(ll, amx))
				ay.Add(ay, new(big.Float).SetPrec(prec).Mul(ll, amy))
				continue
			}
			ax.Add(ax, new(big.Float).SetPrec(prec).Abs(tmx))
			ay.Add(ay, new(big.Float).SetPrec(prec).Abs(tmy))
		}
	}
	if L.Sign() == 0 {
		return nil, nil, nil, nil, false
	}
	q := func(a *big.Float) *big.Rat {
		r, _ := new(big.Float).SetPrec(prec).Quo(a, L).Rat(nil)
		return r
	}
	k := exact.Mul(big.NewRat(3*(n+8), 1), u53)
	return q(sx), q(sy), exact.Mul(k, q(ax)), exact.Mul(k, q(ay)), true
}

func propLines(c Case, l geom.Layout) error {
	wx, wy, tx, ty, ok := lineRef(c.Rings)
	if !ok {
		return nil
	}
	var lss []*geom.LineString
	var lrs []*geom.LinearRing
	var flat []float64
	var ends []int
	for _, ln := range c.Rings {
		f := flatOf(ln, l)
		lss = append(lss, geom.NewLineStringFlat(l, f).SetSRID(sridOf(len(f))))
		lrs = append(lrs, geom.NewLinearRingFlat(l, f).SetSRID(sridOf(len(f)+1)))
		flat = append(flat, f...)
		ends = append(ends, len(flat))
	}
	s := l.Stride()
	if err := withinTwice("LinesCentroid", func() geom.Coord { return xy.LinesCentroid(lss[0], lss[1:]...) }, wx, wy, tx, ty, s); err != nil {
		return err
	}
	if err := withinTwice("LinearRingsCentroid", func() geom.Coord { return xy.LinearRingsCentroid(lrs[0], lrs[1:]...) }, wx, wy, tx, ty, s); err != nil {
		return err
	}
	mls := geom.NewMultiLineStringFlat(l, flat, ends).SetSRID(sridOf(len(flat)))
	if err := withinTwice("MultiLineCentroid", func() geom.Coord { return xy.MultiLineCentroid(mls) }, wx, wy, tx, ty, s); err != nil {
		return err
	}
	got, err := xy.Centroid(mls)
	if err != nil {
		return err
	}
	if err := within("Centroid(MultiLineString)", got, wx, wy, tx, ty, s); err != nil {
		return err
	}
	if len(lss) == 1 {
		for _, g := range []geom.T{lss[0], lrs[0]} {
			got, err := xy.Centroid(g)
			if err != nil {
				return err
			}
			if err := within(fmt.Sprintf("Centroid(%T)", g), got, wx, wy, tx, ty, s); err != nil {
				return err
			}
		}
	}
	return nil
}

func reverseRings(polys [][][]pt) [][][]pt {
	out := make([][][]pt, len(polys))
	for i, p := range polys {
		out[i] = make([][]pt, len(p))
		for j, r := range p {
			rr := make([]pt, len(r))
			for k := range r {
				rr[k] = r[len(r)-1-k]
			}
			out[i][j] = rr
		}
	}
	return out
}

func propPolygons(c Case, l geom.Layout, polys [][][]pt, what string) error {
	// exact area-weighted centroid, holes subtracted
	A2, MX, MY := new(big.Rat), new(big.Rat), new(big.Rat)
	for _, p := range polys {
		for ri, r := range p {
			a2, mx, my := ringStats(r)
			if a2.Sign() < 0 { // make the ring's contribution positive...
				a2.Neg(a2)
				mx.Neg(mx)
				my.Neg(my)
			}
			if ri > 0 { // ...and holes negative
				a2.Neg(a2)
				mx.Neg(mx)
				my.Neg(my)
			}
			A2.Add(A2, a2)
			MX.Add(MX, mx)
			MY.Add(MY, my)
		}
	}
	var gps []*geom.Polygon
	var mflat []float64
	var endss [][]int
	for _, p := range polys {
		var flat []float64
		var ends []int
		var mends []int
		for _, r := range p {
			f := flatOf(r, l)
			flat = append(flat, f...)
			ends = append(ends, len(flat))
			mflat = append(mflat, f...)
			mends = append(mends, len(mflat))
		}
		gps = append(gps, geom.NewPolygonFlat(l, flat, ends).SetSRID(sridOf(len(flat))))
		endss = append(endss, mends)
	}
	mp := geom.NewMultiPolygonFlat(l, mflat, endss).SetSRID(sridOf(len(mflat)))
	s := l.Stride()
	// calls that fail come first (the case's polygons followed by a polygon without rings,
	// by one whose only ring has no coordinates, by a hole of two points): whether they
	// return something or panic - a caller that recovers goes on - nothing of them is
	// left behind for the calls that follow
	if len(gps) > 0 {
		for _, bad := range []*geom.Polygon{
			geom.NewPolygon(l),
			geom.NewPolygonFlat(l, nil, []int{0}),
			geom.NewPolygonFlat(l, append(append([]float64{}, gps[0].FlatCoords()...), make([]float64, 2*l.Stride())...), append(append([]int{}, gps[0].Ends()...), len(gps[0].FlatCoords())+2*l.Stride())),
		} {
			_ = run.Safe(func() error {
				_ = xy.PolygonsCentroid(gps[0], append(append([]*geom.Polygon{}, gps[1:]...), bad)...)
				return nil
			})
			_ = run.Safe(func() error {
				bm := geom.NewMultiPolygon(l)
				for _, g := range append(append([]*geom.Polygon{}, gps...), bad) {
					_ = bm.Push(g)
				}
				_ = xy.MultiPolygonCentroid(bm)
				_, _ = xy.Centroid(bm)
				return nil
			})
		}
	}
	var wx, wy, tx, ty *big.Rat
	if A2.Sign() == 0 {
		var rings [][]pt
		for _, p := range polys {
			rings = append(rings, p...)
		}
		var ok bool
		wx, wy, tx, ty, ok = lineRef(rings)
		if !ok {
			return nil
		}
	} else {
		three := big.NewRat(3, 1)
		wx, wy = exact.Quo(MX, exact.Mul(three, A2)), exact.Quo(MY, exact.Mul(three, A2))
		// forward bound over a fan decomposition of every ring about the ring's own first
		// vertex: the magnitudes of the two products of each triangle's doubled area (their
		// rounding, and the rounding of the running sums, is what "within rounding" means
		// for an area-weighted mean) times the triangle's tripled centroid
		sumx, sumy := new(big.Rat), new(big.Rat)
		sumar := new(big.Rat)
		n := int64(0)
		for _, p := range polys {
			for _, r := range p {
				base := ep(r[0])
				for i := 0; i+1 < len(r); i++ {
					a, b := ep(r[i]), ep(r[i+1])
					n++
					ar := exact.Add(rabs(exact.Mul(exact.Sub(a.X, base.X), exact.Sub(b.Y, base.Y))), rabs(exact.Mul(exact.Sub(b.X, base.X), exact.Sub(a.Y, base.Y))))
					sumar.Add(sumar, ar)
					// the sum of the three ordinates is exact on whole numbers; on decimal
					// ordinates it rounds, by a fraction of the ordinates, not of their sum
					if curDiv > 1 {
						sumx.Add(sumx, exact.Mul(ar, exact.Add(exact.Add(rabs(base.X), rabs(a.X)), rabs(b.X))))
						sumy.Add(sumy, exact.Mul(ar, exact.Add(exact.Add(rabs(base.Y), rabs(a.Y)), rabs(b.Y))))
						continue
					}
					sumx.Add(sumx, exact.Mul(ar, rabs(exact.Add(exact.Add(base.X, a.X), b.X))))
					sumy.Add(sumy, exact.Mul(ar, rabs(exact.Add(exact.Add(base.Y, a.Y), b.Y))))
				}
			}
		}
		// An exact area that is not zero but lies within the rounding of its own sum (a
		// sliver: decimal ordinates that were collinear as whole numbers) is not an area any
		// floating-point sum can tell from zero, and a first-order bound says nothing about
		// a quotient by it: no statement is checked there.
		if noise := exact.Mul(exact.Mul(big.NewRat(64*(n+8), 1), u53), sumar); rabs(A2).Cmp(noise) <= 0 {
			ev.Default.Count("area_within_its_own_rounding_skipped", 1)
			return nil
		}
		den := exact.Mul(three, rabs(A2))
		k := exact.Mul(big.NewRat(3*(n+8), 1), u53)
		k4 := exact.Mul(big.NewRat(32, 1), u53)
		tx = exact.Add(exact.Mul(k, exact.Quo(sumx, den)), exact.Mul(k4, rabs(wx)))
		ty = exact.Add(exact.Mul(k, exact.Quo(sumy, den)), exact.Mul(k4, rabs(wy)))
	}
	if err := withinTwice(what+"PolygonsCentroid", func() geom.Coord { return xy.PolygonsCentroid(gps[0], gps[1:]...) }, wx, wy, tx, ty, s); err != nil {
		return err
	}
	if err := withinTwice(what+"MultiPolygonCentroid", func() geom.Coord { return xy.MultiPolygonCentroid(mp) }, wx, wy, tx, ty, s); err != nil {
		return err
	}
	// the calculator used directly: polygons added one by one, the centroid asked for
	// after the last (and, in between, after each: it must not disturb the sums)
	ac := xy.NewAreaCentroidCalculator(l)
	for i, gp := range gps {
		ac.AddPolygon(gp)
		if i+1 < len(gps) {
			_ = ac.GetCentroid()
		}
	}
	if err := withinTwice(what+"AreaCentroidCalculator", func() geom.Coord { return ac.GetCentroid() }, wx, wy, tx, ty, s); err != nil {
		return err
	}
	got, err := xy.Centroid(mp)
	if err != nil {
		return err
	}
	if err := within(what+"Centroid(MultiPolygon)", got, wx, wy, tx, ty, s); err != nil {
		return err
	}
	if len(gps) == 1 {
		got, err := xy.Centroid(gps[0])
		if err != nil {
			return err
		}
		if err := within(what+"Centroid(Polygon)", got, wx, wy, tx, ty, s); err != nil {
			return err
		}
	}
	return nil
}

func propRings(c Case, l geom.Layout) error {
	if c.Class == "zero-area" {
		return nil // direction of a degenerate ring is not defined
	}
	for _, p := range c.Polys {
		for _, r := range p {
			a2, _, _ := ringStats(r)
			flat := flatOf(r, l)
			if got := xy.IsRingCounterClockwise(l, flat); got != (a2.Sign() > 0) {
				return fmt.Errorf("IsRingCounterClockwise(%v) = %v, exact signed area %v", r, got, exact.Float(a2)/2)
			}
			// the direction of a ring does not depend on the unit: the same ring with every
			// x and y times a power of two (as far as every ordinate stays a normal number,
			// so that none loses a bit), down to where products of differences, and the
			// rounding errors of such products, leave the range of float64
			exps := []int{-960, -800, -560, -548, -540, -532, -524, -516, -500, -270, 300, 520, 900}
			if c.Mode == "direction" {
				// every unit in the band where products of differences of up to 31 bits are
				// still normal numbers and their rounding errors no longer are
				for e := -575; e <= -495; e++ {
					exps = append(exps, e)
				}
			}
			for _, e := range exps {
				keep := curExp
				curExp = e
				sflat := flatOf(r, l)
				curExp = keep
				ok := true
				for i := 0; i < len(sflat); i += l.Stride() {
					for _, v := range sflat[i : i+2] {
						if a := math.Abs(v); a != 0 && (a < 0x1p-1022 || math.IsInf(a, 0)) {
							ok = false
						}
					}
				}
				if !ok {
					continue
				}
				if got := xy.IsRingCounterClockwise(l, sflat); got != (a2.Sign() > 0) {
					return fmt.Errorf("IsRingCounterClockwise(%v with every x, y times 2^%d) = %v, exact signed area %v", r, e, got, exact.Float(a2)/2)
				}
			}
			if c.Mode == "direction" {
				continue
			}
			want := exact.Quo(exact.Neg(a2), big.NewRat(2, 1))
			got := math.Ldexp(xy.SignedArea(l, flat), -2*curExp)
			// every intermediate of the shoelace sum relative to the first x is exact on these inputs
			terms := new(big.Rat)
			for i := 1; i+1 < len(r); i++ {
				terms.Add(terms, rabs(exact.Mul(exact.Sub(ep(r[i]).X, ep(r[0]).X), exact.Sub(ep(r[i-1]).Y, ep(r[i+1]).Y))))
			}
			tol := exact.Mul(exact.Mul(big.NewRat(int64(len(r)+4), 1), u53), terms)
			if d := rabs(exact.Sub(exact.R(got), want)); d.Cmp(tol) > 0 {
				return fmt.Errorf("SignedArea(%v) = %v, exact %v (clockwise positive)", r, got, exact.Float(want))
			}
		}
	}
	return nil
}

func prop(c Case) error {
	// the exact-arithmetic package's other exported function runs first (whatever it
	// returns or panics with): it shares nothing with what is measured here
	_ = run.Safe(func() error {
		_ = bigxy.Intersection(geom.Coord{0.1, 0.7}, geom.Coord{3.3, -1.9}, geom.Coord{-2.5, 0.3}, geom.Coord{4.7, 1.1})
		return nil
	})
	return propMain(c)
}

func propMain(c Case) error {
	l := geom.Layout(c.Layout)
	curExp, curDiv = c.Exp, c.Div
	defer func() { curExp, curDiv = 0, 0 }()
	switch c.Mode {
	case "points":
		return propPoints(c, l)
	case "lines":
		return propLines(c, l)
	case "polygons":
		if err := propPolygons(c, l, c.Polys, ""); err != nil {
			return err
		}
		if err := propPolygons(c, l, reverseRings(c.Polys), "all rings reversed: "); err != nil {
			return err
		}
		return propRings(c, l)
	case "direction":
		// the oracle guards itself: the constructed ring is simple (exactly)
		for _, p := range c.Polys {
			for _, r := range p {
				var v []exact.P2
				for i, q := range r[:len(r)-1] {
					if i == 0 || q != r[i-1] {
						v = append(v, ep(q))
					}
				}
				n := len(v)
				for i := 0; i < n; i++ {
					for j := i + 1; j < n; j++ {
						kind, pts := exact.SegSeg(v[i], v[(i+1)%n], v[j], v[(j+1)%n])
						adjacent := j == i+1 || (i == 0 && j == n-1)
						if (!adjacent && kind != exact.NoInt) || (adjacent && (kind != exact.PointInt || len(pts) != 1)) {
							panic(fmt.Sprintf("harness: the needle ring %v is not simple (edges %d and %d)", r, i, j))
						}
					}
				}
			}
		}
		return propRings(c, l)
	}
	return fmt.Errorf("bad mode %q", c.Mode)
}

func classify(c Case) ([]string, bool) {
	cl := []string{"mode:" + c.Mode}
	if c.Class != "" {
		cl = append(cl, "class:"+c.Class)
	}
	long := false
	for _, r := range c.Rings {
		long = long || len(r) >= 60
	}
	for _, p := range c.Polys {
		for _, r := range p {
			long = long || len(r) >= 60
		}
	}
	if long {
		cl = append(cl, "long(>=60 vertices)")
	}
	switch c.Mode {
	case "direction":
		return cl, true
	case "polygons":
		holes, cw := 0, 0
		for _, p := range c.Polys {
			holes += len(p) - 1
			for _, r := range p {
				if a2, _, _ := ringStats(r); a2.Sign() < 0 {
					cw++
				}
			}
		}
		if holes > 0 {
			cl = append(cl, "with-holes")
		}
		if cw > 0 {
			cl = append(cl, "has-clockwise-ring")
		}
		return cl, holes > 0 || len(c.Polys) >= 2 || cw > 0 || c.Class == "zero-area"
	case "lines":
		segs := 0
		for _, r := range c.Rings {
			if len(r) > 1 {
				segs += len(r) - 1
			}
		}
		return cl, segs >= 3
	}
	return cl, len(c.Rings[0]) >= 2
}

var spec = run.Spec[Case]{ID: "C14", Name: "centroid", Gen: genCase, Prop: prop, Classify: classify}

func TestPropCentroid(t *testing.T) { run.Generated(t, spec) }
func TestRegress(t *testing.T)      { run.Regress(t, spec) }
func TestReplay(t *testing.T) {
	run.ReplayOne(t, spec)
	run.ReplayOne(t, bigSpec)
}
