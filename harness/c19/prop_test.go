// C19: IGC decoding is total; encode-then-decode keeps a track to format resolution.
package c19

import (
	"bufio"
	"bytes"
	"errors"
	"fmt"
	"io"
	"math"
	"math/big"
	"strings"
	"testing"
	"testing/iotest"
	"time"

	geom "github.com/twpayne/go-geom"
	"github.com/twpayne/go-geom/encoding/igc"
	"pgregory.net/rapid"

	"verifharness/internal/exact"
	"verifharness/internal/model"
	"verifharness/internal/run"
)

func TestMain(m *testing.M) { run.Main(m) }

// ---------------------------------------------------------------- round trip

// Track is a generated track: A-record text, layout and fixes (lon, lat, alt, unix time).
type Track struct {
	A      string       `json:"a"`
	Layout int          `json:"layout"` // 4 = XYZM, 5 = Layout(5)
	Fixes  [][4]model.F `json:"fixes"`
}

const (
	tMin = 0          // 1970-01-01T00:00:00Z
	tMax = 3155759999 // 2069-12-31T23:59:59Z
)

func unix(y int, m time.Month, d, hh, mm, ss int) int64 {
	return time.Date(y, m, d, hh, mm, ss, 0, time.UTC).Unix()
}

func genAngle(t *rapid.T, lim float64, label string) float64 {
	switch rapid.IntRange(0, 7).Draw(t, label+"class") {
	case 0:
		return rapid.SampledFrom([]float64{lim, -lim, 0, math.Copysign(0, -1)}).Draw(t, label+"bound")
	case 1:
		// within 1e-9 of a multiple of 1/60000
		k := rapid.Int64Range(-int64(lim)*60000, int64(lim)*60000).Draw(t, label+"k")
		v := float64(k)/60000 + rapid.Float64Range(-1e-9, 1e-9).Draw(t, label+"eps")
		return math.Max(-lim, math.Min(lim, v))
	case 2:
		// whole degrees and half minutes
		return float64(rapid.IntRange(-int(lim), int(lim)).Draw(t, label+"deg"))
	case 3:
		return math.Max(-lim, math.Min(lim, lim-rapid.Float64Range(0, 1e-4).Draw(t, label+"nearlim")))
	default:
		return rapid.Float64Range(-lim, lim).Draw(t, label+"v")
	}
}

func genTrack(t *rapid.T) Track {
	n := rapid.IntRange(0, 40).Draw(t, "n")
	var t0 int64
	switch rapid.IntRange(0, 5).Draw(t, "t0class") {
	case 0:
		// a few seconds before a day / month / year / century / leap-day boundary
		y := rapid.SampledFrom([]int{1970, 1971, 1979, 1995, 1999, 2000, 2001, 2019, 2024, 2038, 2068, 2069}).Draw(t, "year")
		b := rapid.SampledFrom([]int64{
			unix(y, 1, 1, 0, 0, 0) + 86400, unix(y, 3, 1, 0, 0, 0), unix(y, 2, 29, 0, 0, 0), unix(y+1, 1, 1, 0, 0, 0), unix(y, 12, 1, 0, 0, 0), unix(y, 6, 15, 0, 0, 0),
		}).Draw(t, "boundary")
		t0 = b - rapid.Int64Range(0, 30).Draw(t, "before")
	case 1:
		t0 = rapid.SampledFrom([]int64{tMin, tMax, unix(1999, 12, 31, 23, 59, 50), unix(2000, 1, 1, 0, 0, 0), unix(2038, 1, 19, 3, 14, 0)}).Draw(t, "special")
	default:
		t0 = rapid.Int64Range(tMin, tMax).Draw(t, "t0")
	}
	if t0 < tMin {
		t0 = tMin
	}
	if t0 > tMax {
		t0 = tMax
	}
	tr := Track{
		A:      rapid.StringMatching(`[!-~][ -~]{0,12}`).Draw(t, "a"),
		Layout: rapid.SampledFrom([]int{5, 4, 6}).Draw(t, "layout"),
	}
	// a long A record (nothing bounds its text): around the sizes of the buffers a reader
	// may collect a line in, filled with what would be fixes and date headers if a piece
	// of the line were taken for a line of its own
	if rapid.IntRange(0, 19).Draw(t, "longa") == 7 {
		n := rapid.SampledFrom([]int{76, 255, 256, 1023, 4093, 4094, 4095, 4096, 4097, 4100, 8191, 8192, 8193, 16384, 32768}).Draw(t, "alen")
		if rapid.IntRange(0, 4).Draw(t, "hugea") == 0 {
			n = rapid.SampledFrom([]int{65533, 65534, 65535, 65536, 65537, 70000, 131073}).Draw(t, "alenhuge")
		}
		unit := rapid.SampledFrom([]string{"B1011125230000N00130000WA0012300456", "HFDTE010203", "B1011125230000N00130000WA0012300456HFDTE040506", "x"}).Draw(t, "aunit")
		lead := strings.Repeat("Y", rapid.IntRange(0, 36).Draw(t, "alead"))
		a := lead + strings.Repeat(unit, n/len(unit)+1)
		tr.A = a[:n]
	}
	cur := float64(t0)
	for i := 0; i < n; i++ {
		if i > 0 {
			inc := rapid.SampledFrom([]float64{0, 1, 1, 2, 0.5, 59, 60, 3599, 3600, 7200, 86399, 86400, 100000, 864000,
				// the same day of the month / of the year again: a date header that looks at only
				// part of the date sees no change
				28 * 86400, 29 * 86400, 30 * 86400, 31 * 86400, 31*86400 + 5, 365 * 86400, 366 * 86400, 365*86400 - 3600, 36525 * 864}).Draw(t, "inc")
			if cur+inc <= tMax {
				cur += inc
			}
		}
		alt := float64(rapid.IntRange(0, 10000).Draw(t, "alt"))
		if rapid.IntRange(0, 3).Draw(t, "altfrac") == 0 {
			alt = math.Min(10000, alt+rapid.Float64Range(0, 0.999).Draw(t, "frac"))
		}
		// outside the format's range (the statement: "clamped to the format's range"):
		// below ground, above the ceiling, and just beside either bound
		if rapid.IntRange(0, 5).Draw(t, "altout") == 0 {
			alt = rapid.SampledFrom([]float64{-1, -0.5, -0.999, -1000, -123456, -1e12, 10000.5, 10001, 12345.75, 99999, 100000, 1e7, 1e12}).Draw(t, "altoutv")
			if rapid.Bool().Draw(t, "altrand") {
				alt = float64(rapid.IntRange(-200000, 200000).Draw(t, "altany")) + rapid.SampledFrom([]float64{0, 0.25, 0.5}).Draw(t, "altanyfrac")
			}
		}
		tr.Fixes = append(tr.Fixes, [4]model.F{
			model.Of(genAngle(t, 180, "lon")), model.Of(genAngle(t, 90, "lat")), model.Of(alt), model.Of(cur),
		})
	}
	return tr
}

var res = big.NewRat(1, 60000)
var slack = new(big.Rat).SetFrac(big.NewInt(1), new(big.Int).Lsh(big.NewInt(1), 40))

func propTrack(tr Track) error {
	stride := tr.Layout
	layout := geom.Layout(tr.Layout)
	if tr.Layout == 4 {
		layout = geom.XYZM
	}
	flat := make([]float64, 0, len(tr.Fixes)*stride)
	for i, f := range tr.Fixes {
		c := []float64{f[0].V(), f[1].V(), f[2].V(), f[3].V()}
		for d := 4; d < stride; d++ {
			c = append(c, float64(i))
		}
		flat = append(flat, c...)
	}
	ls := geom.NewLineStringFlat(layout, flat)
	// half of the tracks are written after writes that failed (a full disk, a closed
	// connection): writers that take a few bytes, or a few calls, and then report an error
	// - what such a call had left to write is nobody's business afterwards
	if (len(tr.Fixes)+len(tr.A))%2 == 0 {
		other := geom.NewLineStringFlat(geom.Layout(5), []float64{1.5, 52.5, 123, 86400 * 365 * 31, 0, 1.6, 52.6, 124, 86400*365*31 + 1, 0})
		for _, lim := range []int{0, 1, 7, 40, 100} {
			for _, byCalls := range []bool{false, true} {
				for _, g := range []*geom.LineString{other, ls} {
					w := &limitWriter{left: lim, byCalls: byCalls}
					_ = run.Safe(func() error { return igc.NewEncoder(w, igc.A("XFAILED")).Encode(g) })
				}
			}
		}
	}
	var buf bytes.Buffer
	enc := igc.NewEncoder(&buf, igc.A(tr.A))
	if err := enc.Encode(ls); err != nil {
		return fmt.Errorf("encode: %v", err)
	}
	text := buf.String()
	// the same Encoder writes the track again (into the emptied buffer, and once more
	// behind that): every Encode call writes a complete, self-contained stream
	buf.Reset()
	for i := 0; i < 2; i++ {
		if err := enc.Encode(ls); err != nil {
			return fmt.Errorf("Encode #%d with the same Encoder: %v", i+2, err)
		}
	}
	if again := buf.String(); again != text+text {
		return fmt.Errorf("the same Encoder, asked to encode the same track twice more, wrote\n%s\nwant twice\n%s", clip(again), clip(text))
	}
	var got *igc.T
	var rerr error
	if err := run.Bounded(func() error { got, rerr = igc.Read(strings.NewReader(text)); return nil }); err != nil {
		return fmt.Errorf("igc.Read of encoder output: %v\n%s", err, clip(text))
	}
	if rerr != nil {
		return fmt.Errorf("igc.Read of encoder output reports: %v\n%s", rerr, clip(text))
	}
	if got == nil || got.LineString == nil {
		return fmt.Errorf("igc.Read returned nil")
	}
	if err := sameThroughAnyReader([]byte(text), got, rerr); err != nil {
		return err
	}
	// what Read returned is the caller's: another stream read afterwards changes nothing in it
	kept := append([]float64(nil), got.LineString.FlatCoords()...)
	keptHeaders := fmt.Sprint(got.Headers)
	if _, err := igc.Read(strings.NewReader("AXYZother\nHFDTE010203\nB1011125230000N00130000WA0012300456\nB1011135230001N00130001WA0012400457\nB1011145230002N00130002WA0012500458\n")); err != nil {
		return fmt.Errorf("igc.Read of a plain three-fix track: %v", err)
	}
	now := got.LineString.FlatCoords()
	if len(now) != len(kept) || fmt.Sprint(got.Headers) != keptHeaders {
		return fmt.Errorf("the track returned by igc.Read changed when another stream was read afterwards (%d ordinates, were %d)", len(now), len(kept))
	}
	for i := range kept {
		if math.Float64bits(now[i]) != math.Float64bits(kept[i]) {
			return fmt.Errorf("the track returned by igc.Read changed when another stream was read afterwards: ordinate %d is %v, was %v", i, now[i], kept[i])
		}
	}
	out := got.LineString.FlatCoords()
	if got.LineString.Layout() != geom.Layout(5) || len(out)%5 != 0 {
		return fmt.Errorf("decoded layout %v with %d ordinates", got.LineString.Layout(), len(out))
	}
	if len(out)/5 != len(tr.Fixes) {
		return fmt.Errorf("%d fixes written, %d read back\n%s", len(tr.Fixes), len(out)/5, clip(text))
	}
	for i, f := range tr.Fixes {
		lon, lat, alt, ts := f[0].V(), f[1].V(), f[2].V(), f[3].V()
		o := out[5*i : 5*i+5]
		for _, p := range []struct {
			name      string
			want, got float64
		}{{"longitude", lon, o[0]}, {"latitude", lat, o[1]}} {
			if math.IsNaN(p.got) || math.IsInf(p.got, 0) {
				return fmt.Errorf("fix %d: %s read back as %v", i, p.name, p.got)
			}
			d := exact.Abs(exact.Sub(exact.R(p.want), exact.R(p.got)))
			if d.Cmp(exact.Add(res, slack)) > 0 {
				return fmt.Errorf("fix %d: %s %v read back as %v (|diff| %.3g > 1/60000)\n%s", i, p.name, p.want, p.got, exact.Float(d), clip(text))
			}
		}
		wantT := math.Floor(ts)
		if math.Abs(o[3]-wantT) > 1e-6 {
			return fmt.Errorf("fix %d: time %v (%s) read back as %v (%s)\n%s", i, ts, time.Unix(int64(wantT), 0).UTC().Format(time.RFC3339), o[3], time.Unix(int64(o[3]), 0).UTC().Format(time.RFC3339), clip(text))
		}
		wantA := math.Max(0, math.Min(10000, math.Trunc(alt)))
		if o[2] != wantA || o[4] != wantA {
			return fmt.Errorf("fix %d: altitude %v read back as %v / %v, want %v", i, alt, o[2], o[4], wantA)
		}
	}
	return nil
}

// limitWriter accepts left bytes (or left calls) and then fails; a write that crosses
// the limit is taken in part and reported with an error, as io.Writer prescribes.
type limitWriter struct {
	left    int
	byCalls bool
}

func (w *limitWriter) Write(p []byte) (int, error) {
	if w.byCalls {
		if w.left <= 0 {
			return 0, fmt.Errorf("limitWriter: no more calls")
		}
		w.left--
		return len(p), nil
	}
	if len(p) <= w.left {
		w.left -= len(p)
		return len(p), nil
	}
	n := w.left
	w.left = 0
	return n, fmt.Errorf("limitWriter: full")
}

func clip(s string) string {
	if len(s) > 600 {
		return s[:600] + "..."
	}
	return s
}

func classifyTrack(tr Track) ([]string, bool) {
	cl := []string{}
	switch {
	case len(tr.A) >= 65535:
		cl = append(cl, "a-record>=64KiB")
	case len(tr.A) >= 4095:
		cl = append(cl, "a-record>=4KiB")
	case len(tr.A) > 13:
		cl = append(cl, "a-record-long")
	}
	nt := false
	crossesDay, before2000, boundary, clamped := false, false, false, false
	for i, f := range tr.Fixes {
		if a := f[2].V(); a < 0 || a > 10000 {
			clamped = true
		}
		ts := int64(f[3].V())
		if ts < unix(2000, 1, 1, 0, 0, 0) {
			before2000 = true
		}
		if i > 0 && int64(tr.Fixes[i-1][3].V())/86400 != ts/86400 {
			crossesDay = true
		}
		if math.Abs(f[0].V()) == 180 || math.Abs(f[1].V()) == 90 {
			boundary = true
		}
	}
	if crossesDay {
		cl = append(cl, "crosses-day")
		nt = true
	}
	if before2000 {
		cl = append(cl, "before-2000")
		nt = true
	}
	if boundary {
		cl = append(cl, "boundary-angle")
		nt = true
	}
	if clamped {
		cl = append(cl, "altitude-clamped")
		nt = true
	}
	if len(tr.Fixes) == 0 {
		cl = append(cl, "no-fixes")
	}
	return cl, nt
}

var trackSpec = run.Spec[Track]{ID: "C19", Name: "roundtrip", Gen: genTrack, Prop: propTrack, Classify: classifyTrack}

// -------------------------------------------------------------------- streams

// Stream is a byte stream given to the decoder.
type Stream struct {
	Class string `json:"class"`
	Data  []byte `json:"data"`
}

func digits(t *rapid.T, n int, label string) string {
	if n <= 0 {
		return ""
	}
	return rapid.StringMatching(fmt.Sprintf("[0-9]{%d}", n)).Draw(t, label)
}

func bLine(t *rapid.T, recLen int) string {
	b := fmt.Sprintf("B%02d%02d%02d%02d%05d%s%03d%05d%sA%05d%05d",
		rapid.IntRange(0, 23).Draw(t, "hh"), rapid.IntRange(0, 59).Draw(t, "mi"), rapid.IntRange(0, 59).Draw(t, "ss"),
		rapid.IntRange(0, 90).Draw(t, "latd"), rapid.IntRange(0, 60000).Draw(t, "latm"), rapid.SampledFrom([]string{"N", "S"}).Draw(t, "ns"),
		rapid.IntRange(0, 180).Draw(t, "lond"), rapid.IntRange(0, 60000).Draw(t, "lonm"), rapid.SampledFrom([]string{"E", "W"}).Draw(t, "ew"),
		rapid.IntRange(-999, 99999).Draw(t, "palt"), rapid.IntRange(-999, 99999).Draw(t, "galt"))
	if len(b) > 35 {
		b = b[:35]
	}
	want := recLen + rapid.SampledFrom([]int{0, 0, 0, -1, -2, 1, 5, -recLen + 1}).Draw(t, "delta")
	if want < 1 {
		want = 1
	}
	for len(b) < want {
		b += digits(t, min(want-len(b), 8), "ext")
	}
	return b[:want]
}

func iLine(t *rapid.T, cur *int) (string, bool) {
	n := rapid.IntRange(0, 6).Draw(t, "next")
	good := rapid.IntRange(0, 2).Draw(t, "goodI") != 0
	var sb strings.Builder
	cnt := n
	if !good && rapid.Bool().Draw(t, "wrongcount") {
		cnt = rapid.IntRange(0, 99).Draw(t, "cnt")
	}
	fmt.Fprintf(&sb, "I%02d", cnt)
	l := *cur
	for i := 0; i < n; i++ {
		start := l + 1
		stop := start + rapid.IntRange(0, 3).Draw(t, "w")
		if !good {
			switch rapid.IntRange(0, 4).Draw(t, "forge") {
			case 0:
				start += rapid.IntRange(-3, 3).Draw(t, "ds")
			case 1:
				stop = start - 1
			case 2:
				stop = 99
			}
		}
		if start < 0 {
			start = 0
		}
		if stop > 99 {
			stop = 99
		}
		if stop < 0 {
			stop = 0
		}
		code := rapid.SampledFrom([]string{"LAD", "LOD", "TDS", "FXA", "ENL", "SIU"}).Draw(t, "code")
		fmt.Fprintf(&sb, "%02d%02d%s", start, stop, code)
		l = stop
	}
	s := sb.String()
	if !good && rapid.IntRange(0, 2).Draw(t, "truncI") == 0 && len(s) > 1 {
		s = s[:rapid.IntRange(1, len(s)-1).Draw(t, "cut")]
	}
	if good {
		*cur = l
	}
	return s, good
}

func genStream(t *rapid.T) Stream {
	var lines []string
	class := "lines"
	if rapid.IntRange(0, 9).Draw(t, "noA") != 0 {
		lines = append(lines, rapid.SampledFrom([]string{"AXXX001", "A", "\ufeffAFLY", "\x13AXYZ", "noise AXX", "  A"}).Draw(t, "arec"))
	}
	cur := 35
	sawGoodI := false
	n := rapid.IntRange(0, 25).Draw(t, "nlines")
	for i := 0; i < n; i++ {
		switch rapid.IntRange(0, 9).Draw(t, "kind") {
		case 0, 1:
			lines = append(lines, fmt.Sprintf("HFDTE%02d%02d%02d", rapid.IntRange(0, 32).Draw(t, "d"), rapid.IntRange(0, 13).Draw(t, "m"), rapid.IntRange(0, 99).Draw(t, "y")))
		case 2:
			if rapid.Bool().Draw(t, "hgrammar") {
				// an H record from its grammar: source, subject (with or without its long
				// name and colon), padding in any place, a date of 0..8 characters that is
				// a valid day-month-year prefix, digits or signs, and what may follow it
				pad := func(l string) string {
					return rapid.SampledFrom([]string{"", "", "", " ", "  ", "   ", "\t", " \t "}).Draw(t, l)
				}
				h := "H" + rapid.SampledFrom([]string{"F", "F", "F", "O", "P", "S", ""}).Draw(t, "hsrc") +
					rapid.SampledFrom([]string{"DTE", "DTE", "DTE", "DTEDATE:", "DTEDATE:", "DTE:", "Dte", "DTM100GPSDATUM:", "FXA", "PLTPILOT:"}).Draw(t, "hsubj") + pad("hpad1")
				date := rapid.SampledFrom([]string{"150424", "010100", "311299", "290200", "1504", "150", "15", "1", "", "15042024", "-10424", "15-424", "+50424", "1504 4", "320199", "011399"}).Draw(t, "hdate")
				if rapid.IntRange(0, 3).Draw(t, "hdigits") == 0 {
					date = digits(t, rapid.IntRange(0, 8).Draw(t, "hdn"), "hdd")
				}
				h += date + pad("hpad2") + rapid.SampledFrom([]string{"", "", ",01", ",", ",1", ", 01", ",0102"}).Draw(t, "hflight") + pad("hpad3")
				lines = append(lines, h)
				break
			}
			lines = append(lines, rapid.SampledFrom([]string{"HFDTEDATE:010203,01", "HFDTE", "HFDTE0102", "H", "HF", "HFPLTPILOT: x", "HFDTE-1-1-1", "HOXXX", "HFDTE3113-1"}).Draw(t, "h"))
		case 3:
			l, good := iLine(t, &cur)
			lines = append(lines, l)
			if good {
				sawGoodI = true
			}
		case 4:
			lines = append(lines, rapid.SampledFrom([]string{"", "B", "I", "I0", "I-1", "I99", "I01", "B1", "LXXX", "G123", "\x00", "Bxxxxxxxxxxxxxxxxxxxxxxxxxxxxxxxxxxx", "B-1-1-1-1-1234N-12-1234EA-1234-1234"}).Draw(t, "junk"))
		default:
			lines = append(lines, bLine(t, cur))
			if sawGoodI {
				class = "I-then-B"
			}
		}
	}
	eol := rapid.SampledFrom([]string{"\n", "\r\n", "\n", "\r"}).Draw(t, "eol")
	data := []byte(strings.Join(lines, eol))
	if rapid.Bool().Draw(t, "finalEOL") {
		data = append(data, eol...)
	}
	// byte-level mutations
	for m := rapid.IntRange(0, 3).Draw(t, "nmut"); m > 0 && len(data) > 0; m-- {
		i := rapid.IntRange(0, len(data)-1).Draw(t, "pos")
		switch rapid.IntRange(0, 3).Draw(t, "mut") {
		case 0:
			data[i] = rapid.Byte().Draw(t, "byte")
		case 1:
			data = append(data[:i], data[i+1:]...)
		case 2:
			data = append(data[:i], append([]byte{rapid.SampledFrom([]byte{'-', '0', '9', 'A', 'N', '\n', 0, 0xff}).Draw(t, "ins")}, data[i:]...)...)
		default:
			data = data[:i]
		}
	}
	if rapid.IntRange(0, 60).Draw(t, "long") == 0 {
		data = append(data, []byte("\nB"+strings.Repeat("1", 70000)+"\nB0000000000000N00000000EA0000000000\n")...)
		class += "+64KiB-line"
	}
	return Stream{Class: class, Data: data}
}

// lastEOFReader hands out its data in pieces of n bytes and returns io.EOF together
// with the last piece (as compressed and network streams do).
type lastEOFReader struct {
	data []byte
	n    int
}

func (r *lastEOFReader) Read(p []byte) (int, error) {
	if len(r.data) == 0 {
		return 0, io.EOF
	}
	n := min(r.n, len(p), len(r.data))
	copy(p, r.data[:n])
	r.data = r.data[n:]
	if len(r.data) == 0 {
		return n, io.EOF
	}
	return n, nil
}

// sameThroughAnyReader reads data through readers that deliver the same bytes in
// other legal ways (one byte at a time, half of what is asked for, the last bytes
// together with io.EOF, a *bufio.Reader with a small buffer) and compares each
// result with want, what a plain in-memory reader gave.
func sameThroughAnyReader(data []byte, want *igc.T, wantErr error) error {
	sig := func(t *igc.T, err error) string {
		var sb strings.Builder
		if t != nil && t.LineString != nil {
			fmt.Fprintf(&sb, "%d ordinates;", len(t.LineString.FlatCoords()))
			for _, v := range t.LineString.FlatCoords() {
				fmt.Fprintf(&sb, "%x,", math.Float64bits(v))
			}
			fmt.Fprintf(&sb, " headers %v;", t.Headers)
		} else {
			sb.WriteString("nil track;")
		}
		if err != nil {
			sb.WriteString(" error: " + err.Error())
		}
		return sb.String()
	}
	ws := sig(want, wantErr)
	piece := 1 + len(data)%61
	type way struct {
		name string
		r    io.Reader
	}
	// a seekable reader that stands in the middle of a longer stream: what lies before
	// its position (another track) is none of Read's business
	const before = "AXYZearlier\nHFDTE010203\nB1011125230000N00130000WA0012300456\nB1011135230001N00130001WA0012400457\n"
	mid := bytes.NewReader(append([]byte(before), data...))
	_, _ = mid.Seek(int64(len(before)), io.SeekStart)
	sec := io.NewSectionReader(bytes.NewReader(append([]byte(before), data...)), int64(len(before)), int64(len(data)))
	ways := []way{
		{"the rest of a *bytes.Reader that was read up to the start of this track", mid},
		{"an *io.SectionReader over the part of a longer stream that holds this track", sec},
		{"io.EOF with the last bytes", iotest.DataErrReader(bytes.NewReader(data))},
		{"pieces, io.EOF with the last piece", &lastEOFReader{data: append([]byte(nil), data...), n: piece}},
	}
	if len(data) <= 3000 { // the slow ones only for streams of ordinary length
		ways = append(ways,
			way{"one byte at a time", iotest.OneByteReader(bytes.NewReader(data))},
			way{"half of what is asked for", iotest.HalfReader(bytes.NewReader(data))},
			way{"a *bufio.Reader of 16 bytes", bufio.NewReaderSize(&lastEOFReader{data: append([]byte(nil), data...), n: 5000}, 16)})
	}
	for _, w := range ways {
		name, r := w.name, w.r
		var got *igc.T
		var rerr error
		if err := run.Bounded(func() error { got, rerr = igc.Read(r); return nil }); err != nil {
			return fmt.Errorf("igc.Read through a reader that delivers %s: %v", name, err)
		}
		if gs := sig(got, rerr); gs != ws {
			return fmt.Errorf("igc.Read through a reader that delivers %s differs from reading the same bytes from memory:\n got  %s\n want %s", name, clip(gs), clip(ws))
		}
	}
	return nil
}

func propStream(s Stream) error {
	var got *igc.T
	var rerr error
	if err := run.Bounded(func() error { got, rerr = igc.Read(bytes.NewReader(s.Data)); return nil }); err != nil {
		return fmt.Errorf("igc.Read: %v", err)
	}
	if got == nil || got.LineString == nil {
		return fmt.Errorf("igc.Read returned a nil track")
	}
	if err := model.WellFormed(got.LineString); err != nil {
		return fmt.Errorf("track not well formed: %v", err)
	}
	if got.LineString.Layout() != geom.Layout(5) || len(got.LineString.FlatCoords())%5 != 0 {
		return fmt.Errorf("track layout %v, %d ordinates", got.LineString.Layout(), len(got.LineString.FlatCoords()))
	}
	for _, h := range got.Headers {
		_ = h.Key + h.Source + h.KeyExtra + h.Value
	}
	if rerr != nil {
		var es igc.Errors
		if !errors.As(rerr, &es) {
			return fmt.Errorf("error %T is not igc.Errors", rerr)
		}
		if len(es) == 0 {
			return fmt.Errorf("non-nil empty igc.Errors")
		}
		for i, e := range es {
			if e == nil {
				return fmt.Errorf("igc.Errors[%d] is nil", i)
			}
		}
		if rerr.Error() == "" {
			return fmt.Errorf("empty error text")
		}
	}
	_ = got.HasCoords()
	return sameThroughAnyReader(s.Data, got, rerr)
}

func classifyStream(s Stream) ([]string, bool) {
	return []string{"stream:" + s.Class}, strings.HasPrefix(s.Class, "I-then-B")
}

var streamSpec = run.Spec[Stream]{ID: "C19", Name: "stream", Gen: genStream, Prop: propStream, Classify: classifyStream}

func TestPropRoundTrip(t *testing.T) { run.Generated(t, trackSpec) }
func TestPropStream(t *testing.T)    { run.Generated(t, streamSpec) }
func TestRegress(t *testing.T) {
	run.Regress(t, trackSpec)
	run.Regress(t, streamSpec)
}
func TestReplay(t *testing.T) {
	run.ReplayOne(t, trackSpec)
	run.ReplayOne(t, streamSpec)
	run.ReplayOne(t, bigTrackSpec)
	run.ReplayOne(t, concSpec)
}

// FuzzIGC is the coverage-guided byte-level target (thorough tier).
func FuzzIGC(f *testing.F) {
	f.Add([]byte("AXXX001\nHFDTE010203\nB1122334455123N01234567EA0123401234\n"))
	f.Add([]byte("AXXX\nI023636LAD3737LOD\nB1122334455123N01234567EA012340123412\n"))
	f.Add([]byte("AXXX\nI013638TDS\nHFDTE311299\nB2359594455123S17934567WA-123401234123\nB0000004455123S17934567WA-123401234123\n"))
	f.Add([]byte("\x13AXXX\r\nHFDTEDATE:010203,01\r\nI99\r\nB\r\n"))
	f.Fuzz(func(t *testing.T, data []byte) {
		s := Stream{Class: "fuzz", Data: data}
		if err := run.Safe(func() error { return propStream(s) }); err != nil {
			run.SaveReplay("C19", "stream", s, err.Error())
			t.Fatal(err)
		}
	})
}
