package c19

import (
	"fmt"
	"testing"

	"verifharness/internal/ev"
	"verifharness/internal/model"
	"verifharness/internal/run"
)

// BigTrack is a track longer than a case file should carry, built from its
// parameters: N fixes one second apart, with the date moved on by a day after runs of
// Step, Step+1, Step+2, ... fixes (so that the date headers fall at ever different
// places of the output: whatever block size an encoder collects its output in, headers
// land on, just before and just after block boundaries), an A record of ALen characters.
type BigTrack struct {
	N    int `json:"n"`
	Step int `json:"step"`
	ALen int `json:"alen"`
}

func expandBigTrack(b BigTrack) Track {
	tr := Track{A: "XYZabcdefghijklmnopqrstuvwxyz"[:b.ALen], Layout: 4 + b.Step%2}
	cur := float64(unix(2001, 3, 4, 10, 0, 0))
	run, left := b.Step, b.Step
	for i := 0; i < b.N; i++ {
		if left == 0 {
			cur += 86400
			run++
			left = run
		}
		left--
		cur++
		tr.Fixes = append(tr.Fixes, [4]model.F{
			model.Of(float64(i%360) - 180 + float64(i%7)/8), model.Of(float64(i%180) - 90 + float64(i%5)/16), model.Of(float64(i % 9999)), model.Of(cur),
		})
	}
	return tr
}

func propBigTrack(b BigTrack) error {
	if err := propTrack(expandBigTrack(b)); err != nil {
		return fmt.Errorf("track of %d fixes, date changes after runs of %d, %d, ... fixes, A record of %d characters: %v", b.N, b.Step, b.Step+1, b.ALen, err)
	}
	return nil
}

var bigTrackSpec = run.Spec[BigTrack]{ID: "C19", Name: "bigtrack", Prop: propBigTrack, Classify: func(b BigTrack) ([]string, bool) {
	return []string{"big-track"}, true
}}

func TestExhaustiveBigTracks(t *testing.T) {
	shard, shards := run.Shard()
	n, steps := 1500, 30
	if run.Thorough() {
		n, steps = 8000, 90
	}
	k := 0
	for step := 1; step <= steps; step++ {
		for _, alen := range []int{3, 4, 10, 17} {
			k++
			if k%shards != shard {
				continue
			}
			b := BigTrack{N: n, Step: step, ALen: alen}
			ev.Default.CaseHash(uint64(step)<<8|uint64(alen), "big-track", true, func() any { return b })
			if !run.One(t, bigTrackSpec, b) {
				return
			}
		}
	}
}

func TestRegressBigTracks(t *testing.T) { run.Regress(t, bigTrackSpec) }
