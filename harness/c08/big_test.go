package c08

import (
	"fmt"
	"math"
	"testing"

	geom "github.com/twpayne/go-geom"

	"verifharness/internal/ev"
	"verifharness/internal/run"
)

// BigCase is a geometry too large to carry its coordinates in a case file: ordinate d
// of coordinate i is a fixed function of (i, d) whose range differs by dimension, so
// that an ordinate read as another dimension's shows in the box. N = coordinates.
type BigCase struct {
	Kind   string `json:"kind"` // LineString | MultiPoint | Polygon | MultiLineString
	Layout int    `json:"layout"`
	N      int    `json:"n"`
}

func bigOrd(i, d int) float64 {
	return float64((i*7919+d*104729)%100003) + 1e6*float64(d+1) + 0.25*float64(d)
}

func propBig(c BigCase) error {
	l := geom.Layout(c.Layout)
	s := l.Stride()
	flat := make([]float64, 0, c.N*s)
	lo, hi := make([]float64, s), make([]float64, s)
	for d := range lo {
		lo[d], hi[d] = math.Inf(1), math.Inf(-1)
	}
	for i := 0; i < c.N; i++ {
		for d := 0; d < s; d++ {
			v := bigOrd(i, d)
			flat = append(flat, v)
			lo[d], hi[d] = math.Min(lo[d], v), math.Max(hi[d], v)
		}
	}
	var t geom.T
	switch c.Kind {
	case "LineString":
		t = geom.NewLineStringFlat(l, flat)
	case "MultiPoint":
		t = geom.NewMultiPointFlat(l, flat)
	case "Polygon":
		k := (c.N / 3) * s
		t = geom.NewPolygonFlat(l, flat, []int{k, k, c.N * s})
	case "MultiLineString":
		k := (c.N - 5) * s
		t = geom.NewMultiLineStringFlat(l, flat, []int{5 * s, k, c.N * s})
	default:
		return fmt.Errorf("bad kind %q", c.Kind)
	}
	check := func(what string, b *geom.Bounds) error {
		if b.Layout() != l {
			return fmt.Errorf("%s: layout %v, want %v", what, b.Layout(), l)
		}
		for d := 0; d < s; d++ {
			if b.Min(d) != lo[d] || b.Max(d) != hi[d] {
				return fmt.Errorf("%s of a %s of %d coordinates, layout %v: dimension %d is [%v, %v], want [%v, %v]", what, c.Kind, c.N, l, d, b.Min(d), b.Max(d), lo[d], hi[d])
			}
		}
		return nil
	}
	if err := check("Bounds()", t.Bounds()); err != nil {
		return err
	}
	if err := check("NewBounds(layout).Extend", geom.NewBounds(l).Extend(t)); err != nil {
		return err
	}
	gc := geom.NewGeometryCollection()
	if err := gc.Push(geom.NewPointFlat(l, flat[:s]), t); err != nil {
		return err
	}
	return check("GeometryCollection.Bounds()", gc.Bounds())
}

var bigSpec = run.Spec[BigCase]{ID: "C08", Name: "bigbounds", Prop: propBig, Classify: func(c BigCase) ([]string, bool) {
	return []string{"big:" + c.Kind, fmt.Sprintf("big-ordinates>=2^%d", int(math.Log2(float64(c.N*geom.Layout(c.Layout).Stride()))))}, true
}}

// TestExhaustiveBig takes the box of geometries whose ordinate count lies a little
// below, at and above 2^16, 2^18, 2^20 (thorough: 2^21, 2^22) for every layout,
// Layout(5) and Layout(7) among them: whatever is computed in blocks has its seams
// there, and a block of 2^k ordinates is a whole number of coordinates only for
// strides that divide it.
func TestExhaustiveBig(t *testing.T) {
	shard, shards := run.Shard()
	kinds := []string{"LineString", "MultiPoint", "Polygon", "MultiLineString"}
	layouts := []geom.Layout{geom.XY, geom.XYZ, geom.XYM, geom.XYZM, geom.Layout(5), geom.Layout(7)}
	powers := []int{16, 18, 20}
	if run.Thorough() {
		powers = []int{16, 17, 18, 19, 20, 21, 22}
	}
	n := 0
	for _, p := range powers {
		for li, l := range layouts {
			for _, extra := range []int{-1, 1, 1<<p/3 + 5} {
				n++
				if n%shards != shard {
					continue
				}
				c := BigCase{Kind: kinds[(li+p+n)%len(kinds)], Layout: int(l), N: (1<<p)/l.Stride() + extra}
				ev.Default.CaseHash(uint64(p)<<40|uint64(li)<<32|uint64(extra&0xffffff), "bigbounds", true, func() any { return c })
				if !run.One(t, bigSpec, c) {
					return
				}
			}
		}
	}
}

func TestRegressBig(t *testing.T) { run.Regress(t, bigSpec) }
