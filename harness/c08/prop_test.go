// C08: bounds are the tight per-dimension box for every geometry and layout mix.
package c08

import (
	"encoding/json"
	"fmt"
	"math"
	"strings"
	"testing"

	geom "github.com/twpayne/go-geom"
	"github.com/twpayne/go-geom/encoding/geojson"
	"pgregory.net/rapid"

	"verifharness/internal/gen"
	"verifharness/internal/model"
	"verifharness/internal/run"
)

func TestMain(m *testing.M) { run.Main(m) }

// Case covers the sub-checks of C08 (Mode selects one).
type Case struct {
	Mode  string    `json:"mode"` // geom | extend | overlap | bbox
	Gs    []model.G `json:"gs,omitempty"`
	Perm  []int     `json:"perm,omitempty"`
	L0    int       `json:"l0,omitempty"`
	Route int       `json:"route,omitempty"`
	// overlap: two boxes given as (mins, maxs) and how they are built, a point, and the layout argument
	B1 Box       `json:"b1,omitempty"`
	B2 Box       `json:"b2,omitempty"`
	P  []model.F `json:"p,omitempty"`
	OL int       `json:"ol,omitempty"`
	// Deep (geom mode): the geometry is also measured at the bottom of a tower of that
	// many nested collections.
	Deep int `json:"deep,omitempty"`
	// Start (extend mode): the box that is extended already holds an extent, given to
	// it in one of the ways a box can be given one (and cloned, when Via ends in
	// "+clone"); nil = a new box of layout L0.
	Start *Box `json:"start,omitempty"`
}

// Box describes a Bounds to build.
type Box struct {
	Layout int       `json:"l"`
	Via    string    `json:"via"` // set | setcoords | extend
	A      []model.F `json:"a,omitempty"`
	B      []model.F `json:"b,omitempty"`
}

// dims names the dimensions a layout carries, in storage order.
func dims(l geom.Layout) []string {
	switch l {
	case geom.NoLayout:
		return nil
	case geom.XY:
		return []string{"X", "Y"}
	case geom.XYZ:
		return []string{"X", "Y", "Z"}
	case geom.XYM:
		return []string{"X", "Y", "M"}
	case geom.XYZM:
		return []string{"X", "Y", "Z", "M"}
	}
	d := []string{"X", "Y", "Z", "M"}
	for i := 4; i < int(l); i++ {
		d = append(d, fmt.Sprintf("E%d", i))
	}
	return d
}

type iv struct{ lo, hi float64 }

type ref map[string]iv

func (r ref) touch(names []string) {
	for _, n := range names {
		if _, ok := r[n]; !ok {
			r[n] = iv{math.Inf(1), math.Inf(-1)}
		}
	}
}

func (r ref) addGeom(g *model.G) {
	if g.IsCollection() {
		r.touch(dims(g.ReportedLayout()))
		for i := range g.Members {
			r.addGeom(&g.Members[i])
		}
		return
	}
	names := dims(g.Lay())
	r.touch(names)
	g.EachOrdinate(func(d int, v model.F) {
		x := r[names[d]]
		x.lo = math.Min(x.lo, v.V())
		x.hi = math.Max(x.hi, v.V())
		r[names[d]] = x
	})
}

func join(a, b geom.Layout) geom.Layout {
	switch {
	case a == geom.XYZ && b == geom.XYM, a == geom.XYM && b == geom.XYZ:
		return geom.XYZM
	case a == geom.XYM && b == geom.XYZM, a == geom.XYZM && b == geom.XYM:
		return geom.XYZM
	case b > a:
		return b
	}
	return a
}

func checkBounds(what string, b *geom.Bounds, wantLayout geom.Layout, r ref) error {
	if b == nil {
		return fmt.Errorf("%s: nil bounds", what)
	}
	if b.Layout() != wantLayout {
		return fmt.Errorf("%s: bounds layout %v, want %v", what, b.Layout(), wantLayout)
	}
	for i, n := range dims(wantLayout) {
		w, ok := r[n]
		if !ok {
			w = iv{math.Inf(1), math.Inf(-1)}
		}
		if b.Min(i) != w.lo || b.Max(i) != w.hi {
			return fmt.Errorf("%s: dimension %s (index %d): bounds [%v, %v], want [%v, %v]", what, n, i, b.Min(i), b.Max(i), w.lo, w.hi)
		}
	}
	return nil
}

var std = []geom.Layout{geom.XY, geom.XYZ, geom.XYM, geom.XYZM}

func genGeom(t *rapid.T, layouts []geom.Layout, depth int, floats int) *model.G {
	g := genGeom0(t, layouts, depth, floats)
	// rings closed the way measured data closes them: the last vertex returns to the first
	// in x, y (and z), with an M (or further ordinates) of its own - often the largest
	g.Walk(func(x *model.G) {
		closeXY := func(r [][]model.F) {
			if len(r) < 4 || len(r[0]) < 3 || !rapid.Bool().Draw(t, "closexy") {
				return
			}
			n := 2
			if x.Lay().ZIndex() >= 0 {
				n = 3
			}
			last := append([]model.F{}, r[len(r)-1]...)
			copy(last[:n], r[0][:n])
			if len(last) > n && rapid.Bool().Draw(t, "closingmax") {
				last[len(last)-1] = model.Of(1e6 + float64(len(r)))
			}
			r[len(r)-1] = last
		}
		switch x.Kind {
		case model.Polygon:
			for _, r := range x.C2 {
				closeXY(r)
			}
		case model.MultiPolygon:
			for _, p := range x.C3 {
				for _, r := range p {
					closeXY(r)
				}
			}
		case model.LinearRing:
			closeXY(x.C1)
		}
	})
	return g
}

func genGeom0(t *rapid.T, layouts []geom.Layout, depth int, floats int) *model.G {
	kinds := gen.AllKinds
	if floats&gen.Infs != 0 { // every mode but bbox: GeoJSON cannot carry a LinearRing
		kinds = append([]string{model.LinearRing}, gen.AllKinds...)
	}
	return gen.Tree(t, gen.TreeOpts{Layouts: layouts, Kinds: kinds, Floats: floats, MaxDepth: depth, MixLayouts: true, MaxParts: 3, MaxPts: 4, PEmpty: 25, LongPct: 1, SRID: gen.SRIDs})
}

func genBox(t *rapid.T, label string) Box {
	l := rapid.SampledFrom(std).Draw(t, label+"layout")
	n := l.Stride()
	b := Box{Layout: int(l), Via: rapid.SampledFrom([]string{"set", "setcoords", "extend", "extend-xy-only"}).Draw(t, label+"via")}
	for i := 0; i < n; i++ {
		b.A = append(b.A, model.Of(float64(rapid.IntRange(-4, 4).Draw(t, label+"a"))))
		b.B = append(b.B, model.Of(float64(rapid.IntRange(-4, 4).Draw(t, label+"b"))))
	}
	if rapid.IntRange(0, 9).Draw(t, label+"inf") == 0 {
		b.B[rapid.IntRange(0, n-1).Draw(t, label+"infdim")] = model.Of(math.Inf(1))
	}
	return b
}

func genCase(t *rapid.T) Case {
	mode := rapid.SampledFrom([]string{"geom", "geom", "extend", "extend", "overlap", "bbox"}).Draw(t, "mode")
	c := Case{Mode: mode, Route: rapid.IntRange(0, int(model.NumRoutes)-1).Draw(t, "route")}
	switch mode {
	case "geom":
		if rapid.IntRange(0, 3).Draw(t, "big") == 0 {
			// any layout, no collections mixing exotic layouts
			g := gen.Tree(t, gen.TreeOpts{Layouts: gen.LayoutsAll, Kinds: gen.SevenKinds, Floats: gen.NoNaN, MaxParts: 3, MaxPts: 4, PEmpty: 25})
			c.Gs = []model.G{*g}
		} else {
			c.Gs = []model.G{*genGeom(t, std, 3, gen.NoNaN)}
		}
		c.Deep = rapid.SampledFrom([]int{0, 0, 0, 0, 0, 0, 0, 0, 0, 0, 0, 0, 5, 16, 31, 32, 33, 34, 64, 65, 130, 257, 1000, 1030}).Draw(t, "deep")
	case "extend":
		n := rapid.IntRange(1, 6).Draw(t, "n")
		for i := 0; i < n; i++ {
			c.Gs = append(c.Gs, *genGeom(t, std, 2, gen.NoNaN))
		}
		c.L0 = int(rapid.SampledFrom([]geom.Layout{geom.NoLayout, geom.XY, geom.XYZ, geom.XYM, geom.XYZM}).Draw(t, "l0"))
		c.Perm = rapid.Permutation(seq(n)).Draw(t, "perm")
		if c.L0 != int(geom.NoLayout) && rapid.Bool().Draw(t, "started") {
			b := genBox(t, "start")
			b.Layout = c.L0
			b.A, b.B = b.A[:0], b.B[:0]
			for i := 0; i < geom.Layout(c.L0).Stride(); i++ {
				b.A = append(b.A, model.Of(float64(rapid.IntRange(-40, 40).Draw(t, "starta"))))
				b.B = append(b.B, model.Of(float64(rapid.IntRange(-40, 40).Draw(t, "startb"))))
			}
			if rapid.IntRange(0, 3).Draw(t, "startclone") == 0 {
				b.Via += "+clone"
			}
			c.Start = &b
		}
	case "overlap":
		c.B1, c.B2 = genBox(t, "b1"), genBox(t, "b2")
		s := min(geom.Layout(c.B1.Layout).Stride(), geom.Layout(c.B2.Layout).Stride())
		var ls []geom.Layout
		for _, l := range std {
			if l.Stride() <= s {
				ls = append(ls, l)
			}
		}
		ol := rapid.SampledFrom(ls).Draw(t, "ol")
		c.OL = int(ol)
		for i := 0; i < 4; i++ {
			c.P = append(c.P, model.Of(float64(rapid.IntRange(-5, 5).Draw(t, "p"))))
		}
	case "bbox":
		g := genGeom(t, []geom.Layout{geom.XY, geom.XYZ, geom.XYZM, geom.XYM}, 2, gen.SmallInt|gen.Moderate|gen.Decimalish)
		c.Gs = []model.G{*g}
	}
	return c
}

func seq(n int) []int {
	s := make([]int, n)
	for i := range s {
		s[i] = i
	}
	return s
}

func buildBox(b Box) *geom.Bounds {
	if via, ok := strings.CutSuffix(b.Via, "+clone"); ok {
		b.Via = via
		return buildBox(b).Clone()
	}
	l := geom.Layout(b.Layout)
	a, bb := model.Floats(b.A), model.Floats(b.B)
	switch b.Via {
	case "set":
		// Set wants mins then maxs
		lo, hi := make([]float64, len(a)), make([]float64, len(a))
		for i := range a {
			lo[i], hi[i] = math.Min(a[i], bb[i]), math.Max(a[i], bb[i])
		}
		return geom.NewBounds(l).Set(append(lo, hi...)...)
	case "setcoords":
		return geom.NewBounds(l).SetCoords(geom.Coord(a), geom.Coord(bb))
	case "extend-xy-only":
		// a box of a higher layout that has only seen XY data: its Z/M intervals stay empty
		return geom.NewBounds(l).Extend(geom.NewLineStringFlat(geom.XY, []float64{a[0], a[1], bb[0], bb[1]}))
	default:
		return geom.NewBounds(l).Extend(geom.NewLineStringFlat(l, append(append([]float64{}, a...), bb...)))
	}
}

func prop(c Case) error {
	switch c.Mode {
	case "geom":
		g := &c.Gs[0]
		t, err := model.Build(g, model.Route(c.Route))
		if err != nil {
			return fmt.Errorf("build: %v", err)
		}
		r := ref{}
		r.addGeom(g)
		held := model.Leaves(t) // the caller's aliases of the coordinates, taken before any query
		b := t.Bounds()
		if err := checkBounds(g.Kind+".Bounds()", b, g.ReportedLayout(), r); err != nil {
			return err
		}
		if g.Empty() && !b.IsEmpty() {
			return fmt.Errorf("%s without coordinates: Bounds().IsEmpty() = false", g.Kind)
		}
		if !g.Empty() && !g.IsCollection() && b.IsEmpty() {
			return fmt.Errorf("%s with coordinates: Bounds().IsEmpty() = true", g.Kind)
		}
		if err := checkPolygon(b); err != nil {
			return err
		}
		// the box returned belongs to the caller: extending it in place (an accumulator
		// started from the first geometry's bounds) changes no later answer, neither for
		// this geometry nor for a new geometry without coordinates of the same layout
		if !g.IsCollection() || g.ReportedLayout() != geom.NoLayout {
			far := make([]float64, b.Layout().Stride())
			for i := range far {
				far[i] = float64(1000 + i)
			}
			if b.Layout() != geom.NoLayout {
				b.Extend(geom.NewPointFlat(b.Layout(), far))
				for i := range far {
					far[i] = -far[i]
				}
				b.Extend(geom.NewPointFlat(b.Layout(), far))
				// ... and the box itself now covers the geometry and the two points
				rb := ref{}
				for k, v := range r {
					rb[k] = v
				}
				names := dims(b.Layout())
				rb.touch(names)
				for i, n := range names {
					x := rb[n]
					x.lo, x.hi = math.Min(x.lo, -float64(1000+i)), math.Max(x.hi, float64(1000+i))
					rb[n] = x
				}
				if err := checkBounds(g.Kind+".Bounds() extended by two further points", b, b.Layout(), rb); err != nil {
					return err
				}
			}
			if err := checkBounds(g.Kind+".Bounds() after the box returned earlier was extended by its caller", t.Bounds(), g.ReportedLayout(), r); err != nil {
				return err
			}
			if !g.IsCollection() {
				fresh := geom.NewLineString(g.Lay())
				if fb := fresh.Bounds(); !fb.IsEmpty() {
					return fmt.Errorf("a new LineString without coordinates has non-empty bounds %v after a box returned by %s.Bounds() was extended by its caller", fb, g.Kind)
				}
				if fb := geom.NewPointEmpty(g.Lay()).Bounds(); !fb.IsEmpty() {
					return fmt.Errorf("an empty Point has non-empty bounds %v after a box returned by %s.Bounds() was extended by its caller", fb, g.Kind)
				}
			}
		}
		// the bounds are those of the coordinates as they are now: every ordinate is
		// rewritten in place (x -> -x-1 swaps the roles of minimum and maximum) and the
		// bounds asked for again, on the same object
		for i := 0; i < 2; i++ { // asked again first: what is remembered may only be used from the second or third time on
			if err := checkBounds(g.Kind+".Bounds() asked again", t.Bounds(), g.ReportedLayout(), r); err != nil {
				return err
			}
		}
		for _, l := range held {
			for i := range l.Flat {
				l.Flat[i] = -l.Flat[i] - 1
			}
		}
		g2 := g.Mapped(func(x float64) float64 { return -x - 1 }) // from the model: the object is not read back
		r2 := ref{}
		r2.addGeom(g2)
		if err := checkBounds(g.Kind+".Bounds() after its ordinates were rewritten in place", t.Bounds(), g.ReportedLayout(), r2); err != nil {
			return err
		}
		// the same object at the bottom of a tower of nested collections: bounds cover every
		// member, however deep
		if c.Deep > 0 && g.ReportedLayout() != geom.NoLayout {
			top := t
			for i := 0; i < c.Deep; i++ {
				gc := geom.NewGeometryCollection()
				if err := gc.Push(top); err != nil {
					return fmt.Errorf("nesting level %d: %v", i, err)
				}
				top = gc
			}
			if err := checkBounds(fmt.Sprintf("Bounds() of %d nested collections around the %s", c.Deep, g.Kind), top.Bounds(), g.ReportedLayout(), r2); err != nil {
				return err
			}
			if err := checkBounds(fmt.Sprintf("NewBounds(XY).Extend(%d nested collections around the %s)", c.Deep, g.Kind), geom.NewBounds(geom.XY).Extend(top), join(geom.XY, g.ReportedLayout()), r2); err != nil {
				return err
			}
		}
		// a collection nested in the collection grows by a point of another layout (the
		// outer collection may have declared its layout before): the bounds of the outer
		// collection are those of everything it holds now
		if outer, ok := t.(*geom.GeometryCollection); ok {
			var nested func(c *geom.GeometryCollection) *geom.GeometryCollection
			nested = func(c *geom.GeometryCollection) *geom.GeometryCollection {
				for _, m := range c.Geoms() {
					if in, ok := m.(*geom.GeometryCollection); ok {
						if deeper := nested(in); deeper != nil && len(r2)%2 == 0 {
							return deeper
						}
						return in
					}
				}
				return nil
			}
			if in := nested(outer); in != nil {
				// the outer collection declares the layout its members have now, if they agree
				if l := outer.Layout(); l != geom.NoLayout {
					_ = outer.SetLayout(l)
				}
				pl := []geom.Layout{geom.XYZM, geom.XYZ, geom.XYM, geom.XY}[len(held)%4]
				co := []float64{2001, -2002, 2003, -2004}[:pl.Stride()]
				if err := in.Push(geom.NewPointFlat(pl, co)); err == nil {
					r3 := ref{}
					for k, v := range r2 {
						r3[k] = v
					}
					names := dims(pl)
					r3.touch(names)
					for i, n := range names {
						x := r3[n]
						x.lo, x.hi = math.Min(x.lo, co[i]), math.Max(x.hi, co[i])
						r3[n] = x
					}
					want := join(g.ReportedLayout(), pl)
					r3.touch(dims(want))
					if err := checkBounds(fmt.Sprintf("%s.Bounds() after a %v point was pushed into a collection nested in it", g.Kind, pl), outer.Bounds(), want, r3); err != nil {
						return err
					}
				}
			}
		}
		return nil
	case "extend":
		var ts []geom.T
		for i := range c.Gs {
			t, err := model.Build(&c.Gs[i], model.Route(c.Route))
			if err != nil {
				return fmt.Errorf("build: %v", err)
			}
			ts = append(ts, t)
		}
		r := ref{}
		want := geom.Layout(c.L0)
		r.touch(dims(want))
		for i := range c.Gs {
			want = join(want, c.Gs[i].ReportedLayout())
			r.addGeom(&c.Gs[i])
		}
		newBox := func() *geom.Bounds { return geom.NewBounds(geom.Layout(c.L0)) }
		if c.Start != nil {
			newBox = func() *geom.Bounds { return buildBox(*c.Start) }
			a, bb := model.Floats(c.Start.A), model.Floats(c.Start.B)
			for i, n := range dims(geom.Layout(c.L0)) {
				if strings.HasPrefix(c.Start.Via, "extend-xy-only") && i >= 2 {
					continue
				}
				x := r[n]
				x.lo, x.hi = math.Min(x.lo, math.Min(a[i], bb[i])), math.Max(x.hi, math.Max(a[i], bb[i]))
				r[n] = x
			}
		}
		b1 := newBox()
		for _, t := range ts {
			if ret := b1.Extend(t); ret != b1 {
				return fmt.Errorf("Extend did not return its receiver")
			}
		}
		if err := checkBounds("Extend in order", b1, want, r); err != nil {
			return err
		}
		b2 := newBox()
		for _, i := range c.Perm {
			b2.Extend(ts[i])
		}
		if err := checkBounds(fmt.Sprintf("Extend in order %v", c.Perm), b2, want, r); err != nil {
			return err
		}
		if err := checkPolygon(b1); err != nil {
			return err
		}
		// a box that is kept: extended by the geometries, given a new extent with Set (one far
		// point), and extended by the same objects once more - it covers them again
		{
			b4 := geom.NewBounds(geom.Layout(c.L0))
			for _, t := range ts {
				b4.Extend(t)
			}
			if l4 := b4.Layout(); l4 != geom.NoLayout {
				args := make([]float64, 2*l4.Stride())
				for i := range args {
					args[i] = 12345
				}
				b4.Set(args...)
				for _, t := range ts {
					b4.Extend(t)
				}
				r4 := ref{}
				r4.touch(dims(geom.Layout(c.L0)))
				for i := range c.Gs {
					r4.addGeom(&c.Gs[i])
				}
				for _, n := range dims(l4) {
					x, ok := r4[n]
					if !ok {
						x = iv{math.Inf(1), math.Inf(-1)}
					}
					x.lo, x.hi = math.Min(x.lo, 12345), math.Max(x.hi, 12345)
					r4[n] = x
				}
				if err := checkBounds("a box extended by the geometries, given the extent of one far point with Set and extended by the same geometries again", b4, want, r4); err != nil {
					return err
				}
			}
		}
		// the box is that of the coordinates as they are now: x and y of every coordinate
		// of every geometry exchanged in place, and a new box extended by the same objects
		swapped := false
		for _, t := range ts {
			if model.SwapXY(model.Leaves(t)) {
				swapped = true
			}
		}
		if swapped {
			r2 := ref{}
			r2.touch(dims(geom.Layout(c.L0)))
			for i := range c.Gs {
				r2.addGeom(c.Gs[i].SwappedXY())
			}
			b3 := geom.NewBounds(geom.Layout(c.L0))
			for _, t := range ts {
				b3.Extend(t)
			}
			if err := checkBounds("Extend after x and y of every geometry were exchanged in place", b3, want, r2); err != nil {
				return err
			}
			for i, t := range ts {
				r1 := ref{}
				r1.addGeom(c.Gs[i].SwappedXY())
				if err := checkBounds(fmt.Sprintf("Bounds() of geometry %d after its x and y were exchanged in place", i), t.Bounds(), c.Gs[i].ReportedLayout(), r1); err != nil {
					return err
				}
			}
		}
		return nil
	case "overlap":
		b1, b2 := buildBox(c.B1), buildBox(c.B2)
		ol := geom.Layout(c.OL)
		// the boxes hold what was put in
		for _, pair := range []struct {
			name string
			b    *geom.Bounds
			box  Box
		}{{"b1", b1, c.B1}, {"b2", b2, c.B2}} {
			name := pair.name
			a, bb := model.Floats(pair.box.A), model.Floats(pair.box.B)
			for i := range a {
				if pair.box.Via == "extend-xy-only" && i >= 2 {
					if pair.b.Min(i) != math.Inf(1) || pair.b.Max(i) != math.Inf(-1) {
						return fmt.Errorf("%s: dimension %d never saw data but holds [%v,%v]", name, i, pair.b.Min(i), pair.b.Max(i))
					}
					continue
				}
				if pair.b.Min(i) != math.Min(a[i], bb[i]) || pair.b.Max(i) != math.Max(a[i], bb[i]) {
					return fmt.Errorf("%s built via %s: dim %d = [%v,%v], want [%v,%v]", name, pair.box.Via, i, pair.b.Min(i), pair.b.Max(i), math.Min(a[i], bb[i]), math.Max(a[i], bb[i]))
				}
			}
		}
		want := true
		for i := 0; i < ol.Stride(); i++ {
			lo := math.Max(b1.Min(i), b2.Min(i))
			hi := math.Min(b1.Max(i), b2.Max(i))
			if !(lo <= hi) {
				want = false
			}
		}
		if got := b1.Overlaps(ol, b2); got != want {
			return fmt.Errorf("Overlaps(%v) = %v, closed-interval arithmetic says %v", ol, got, want)
		}
		if got := b2.Overlaps(ol, b1); got != want {
			return fmt.Errorf("Overlaps(%v) reversed = %v, closed-interval arithmetic says %v", ol, got, want)
		}
		// a box against itself (one object on both sides): it overlaps itself exactly when
		// it is not empty in any dimension asked about
		for _, pair := range []struct {
			name string
			b    *geom.Bounds
		}{{"b1", b1}, {"b2", b2}} {
			self := true
			for i := 0; i < ol.Stride(); i++ {
				if !(pair.b.Min(i) <= pair.b.Max(i)) {
					self = false
				}
			}
			if got := pair.b.Overlaps(ol, pair.b); got != self {
				return fmt.Errorf("%s.Overlaps(%v, %s) (the same box on both sides) = %v, closed-interval arithmetic says %v", pair.name, ol, pair.name, got, self)
			}
		}
		p := geom.Coord(model.Floats(c.P))
		wantP := true
		for i := 0; i < ol.Stride(); i++ {
			if !(b1.Min(i) <= p[i] && p[i] <= b1.Max(i)) {
				wantP = false
			}
		}
		if got := b1.OverlapsPoint(ol, p); got != wantP {
			return fmt.Errorf("OverlapsPoint(%v, %v) = %v, want %v", ol, p, got, wantP)
		}
		return nil
	case "bbox":
		g := &c.Gs[0]
		t, err := model.Build(g, model.Route(c.Route))
		if err != nil {
			return fmt.Errorf("build: %v", err)
		}
		if !bboxFinite(g) {
			// the bounding box of an empty geometry, or of a collection whose joined
			// layout has a dimension without any data, is not finite; JSON cannot carry it
			return nil
		}
		data, err := geojson.Marshal(t, geojson.EncodeGeometryWithBBox())
		if err != nil {
			return fmt.Errorf("geojson.Marshal with bbox: %v", err)
		}
		var doc struct {
			BBox []float64 `json:"bbox"`
		}
		if err := json.Unmarshal(data, &doc); err != nil {
			return fmt.Errorf("invalid JSON %s: %v", data, err)
		}
		r := ref{}
		r.addGeom(g)
		l := g.ReportedLayout()
		names := []string{"X", "Y"}
		if l.ZIndex() >= 0 {
			names = append(names, "Z")
		}
		if len(doc.BBox) != 2*len(names) {
			return fmt.Errorf("bbox %v has %d numbers, want %d (layout %v)", doc.BBox, len(doc.BBox), 2*len(names), l)
		}
		for i, n := range names {
			if doc.BBox[i] != r[n].lo || doc.BBox[len(names)+i] != r[n].hi {
				return fmt.Errorf("bbox %v: dimension %s want [%v, %v]", doc.BBox, n, r[n].lo, r[n].hi)
			}
		}
		return nil
	}
	return fmt.Errorf("bad mode %q", c.Mode)
}

func bboxFinite(g *model.G) bool {
	r := ref{}
	r.addGeom(g)
	names := []string{"X", "Y"}
	if g.ReportedLayout().ZIndex() >= 0 {
		names = append(names, "Z")
	}
	for _, n := range names {
		if x, ok := r[n]; !ok || x.hi < x.lo {
			return false
		}
	}
	return !g.Empty()
}

func checkPolygon(b *geom.Bounds) error {
	l := b.Layout()
	allData, noData := true, true
	for i := 0; i < l.Stride(); i++ {
		if b.Max(i) < b.Min(i) {
			allData = false
		} else {
			noData = false
		}
	}
	p := b.Polygon()
	if p == nil {
		return fmt.Errorf("Bounds.Polygon() = nil")
	}
	switch {
	case noData:
		if len(p.FlatCoords()) != 0 {
			return fmt.Errorf("Polygon() of a box without data = %v", p.FlatCoords())
		}
	case allData:
		x1, y1, x2, y2 := b.Min(0), b.Min(1), b.Max(0), b.Max(1)
		want := []float64{x1, y1, x1, y2, x2, y2, x2, y1, x1, y1}
		got := p.FlatCoords()
		if p.Layout() != geom.XY || len(got) != 10 || len(p.Ends()) != 1 || p.Ends()[0] != 10 {
			return fmt.Errorf("Polygon() = layout %v coords %v ends %v", p.Layout(), got, p.Ends())
		}
		for i := range want {
			if got[i] != want[i] {
				return fmt.Errorf("Polygon() = %v, want rectangle %v", got, want)
			}
		}
	}
	return nil
}

func classify(c Case) ([]string, bool) {
	cl := []string{"mode:" + c.Mode}
	nt := false
	switch c.Mode {
	case "geom", "bbox", "extend":
		layouts := map[geom.Layout]bool{}
		for i := range c.Gs {
			g := &c.Gs[i]
			g.Walk(func(x *model.G) {
				if !x.IsCollection() {
					layouts[x.Lay()] = true
				}
			})
			if g.Depth() >= 2 {
				cl = append(cl, "nested-collection")
				nt = true
			}
			if g.HasEmptyPart() || g.Empty() {
				cl = append(cl, "empty-member")
				nt = true
			}
		}
		if len(layouts) >= 2 {
			cl = append(cl, "mixed-layouts")
			nt = true
		}
		if layouts[geom.XYZ] && layouts[geom.XYM] {
			cl = append(cl, "XYZ+XYM")
		}
	case "overlap":
		nt = true
	}
	if c.Mode == "bbox" && !bboxFinite(&c.Gs[0]) {
		cl = append(cl, "bbox-not-finite-skipped")
		nt = false
	}
	return cl, nt
}

var spec = run.Spec[Case]{ID: "C08", Name: "bounds", Gen: genCase, Prop: prop, Classify: classify}

func TestPropBounds(t *testing.T) { run.Generated(t, spec) }
func TestRegress(t *testing.T)    { run.Regress(t, spec) }
func TestReplay(t *testing.T) {
	run.ReplayOne(t, spec)
	run.ReplayOne(t, concSpec)
	run.ReplayOne(t, bigSpec)
}
