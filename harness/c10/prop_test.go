// C10: the orientation predicate returns the exact sign.
package c10

import (
	"fmt"
	"math"
	"testing"

	geom "github.com/twpayne/go-geom"
	"github.com/twpayne/go-geom/bigxy"
	"github.com/twpayne/go-geom/xy"
	"github.com/twpayne/go-geom/xy/orientation"
	"pgregory.net/rapid"

	"verifharness/internal/ev"
	"verifharness/internal/exact"
	"verifharness/internal/model"
	"verifharness/internal/run"
)

func TestMain(m *testing.M) { run.Main(m) }

// Case is a triple of points (X, Y and optional extra ordinates).
type Case struct {
	Class string    `json:"class"`
	A     []model.F `json:"a"`
	B     []model.F `json:"b"`
	C     []model.F `json:"c"`
}

// inDomain forces v into the property's domain: every finite float64 (the
// statement says "any three points"; NaN and the infinities are not points).
func inDomain(v float64) float64 {
	switch {
	case math.IsNaN(v):
		return 0
	case math.IsInf(v, 0):
		return math.Copysign(math.MaxFloat64, v)
	}
	return v
}

// minExp..maxExp: binary exponents of every finite float64, subnormals included.
const (
	minExp = -1074
	maxExp = 1023
)

// ofExp returns +-(1.m) * 2^e, or the subnormal with its top bit at 2^e.
func ofExp(e int, m, s uint64) float64 {
	if e < -1022 {
		return math.Float64frombits(s<<63 | (1<<52|m)>>uint(-1022-e))
	}
	return math.Float64frombits(s<<63 | uint64(e+1023)<<52 | m)
}

func mag(t *rapid.T, label string, sharedExp int) float64 {
	switch rapid.IntRange(0, 23).Draw(t, label+"zero") {
	case 0, 1:
		return 0
	case 2:
		// the ends of the range: overflowing differences, products that underflow to nothing
		return rapid.SampledFrom([]float64{math.MaxFloat64, -math.MaxFloat64, math.SmallestNonzeroFloat64, -math.SmallestNonzeroFloat64, 0x1p-1022, -0x1p-1022, 0x1p1023}).Draw(t, label+"end")
	}
	e := sharedExp
	if e == 9999 {
		// moderate exponents as often as the whole range
		if rapid.Bool().Draw(t, label+"wide") {
			e = rapid.IntRange(minExp, maxExp).Draw(t, label+"e")
		} else {
			e = rapid.IntRange(-332, 332).Draw(t, label+"e")
		}
	} else if e > minExp+4 {
		e -= rapid.IntRange(0, 4).Draw(t, label+"de")
	}
	m := rapid.Uint64Range(0, 1<<52-1).Draw(t, label+"m")
	s := rapid.Uint64Range(0, 1).Draw(t, label+"s")
	return ofExp(e, m, s)
}

func nudge(t *rapid.T, v float64, label string) float64 {
	k := rapid.IntRange(-3, 3).Draw(t, label)
	for ; k > 0; k-- {
		v = math.Nextafter(v, math.Inf(1))
	}
	for ; k < 0; k++ {
		v = math.Nextafter(v, math.Inf(-1))
	}
	return inDomain(v)
}

func extras(t *rapid.T, n int, label string) []float64 {
	out := make([]float64, n)
	for i := range out {
		// a Z or M is often NaN ("no measure") or otherwise not a number to compute with
		switch rapid.IntRange(0, 5).Draw(t, label+"kind") {
		case 0, 1:
			out[i] = math.NaN()
		case 2:
			out[i] = math.Inf(1 - 2*rapid.IntRange(0, 1).Draw(t, label+"sign"))
		default:
			out[i] = rapid.Float64().Draw(t, label)
		}
	}
	return out
}

func genCase(t *rapid.T) Case {
	class := rapid.SampledFrom([]string{"near", "near", "near", "near-shared-exp", "near-small-int-dir", "shared", "axis", "random", "random-shared-exp", "grid-big", "filter-edge", "filter-edge", "int-bezout", "int-bezout", "whole-long-thin"}).Draw(t, "class")
	var a, b, c [2]float64
	shared := 9999
	if class == "near-shared-exp" || class == "random-shared-exp" {
		// all ordinates within a few binades of one exponent anywhere in the range: at the
		// low end every product of differences underflows, at the high end it overflows
		shared = rapid.SampledFrom([]int{minExp, -1060, -1022, -1000, -600, -540, -512, -500, -300, 0, 300, 500, 511, 512, 540, 1000, 1020, maxExp}).Draw(t, "sharedexp")
		if rapid.Bool().Draw(t, "sharedany") {
			shared = rapid.IntRange(minExp, maxExp).Draw(t, "sharedexpany")
		}
	}
	switch class {
	case "near", "near-shared-exp":
		a = [2]float64{mag(t, "ax", shared), mag(t, "ay", shared)}
		b = [2]float64{mag(t, "bx", shared), mag(t, "by", shared)}
		tt := rapid.SampledFrom([]float64{0.5, 0, 1, 2, -1, 0.25, 3, 1e-3, 1e3, 0.1}).Draw(t, "t")
		if rapid.IntRange(0, 3).Draw(t, "trand") == 0 {
			tt = rapid.Float64Range(-4, 4).Draw(t, "tval")
		}
		for i := 0; i < 2; i++ {
			c[i] = nudge(t, inDomain(a[i]+tt*(b[i]-a[i])), "nudge")
		}
	case "near-small-int-dir":
		// a + k*(dx,dy) with a large offset: exactly collinear lattice points, then nudged
		ox := mag(t, "ox", 9999)
		oy := mag(t, "oy", 9999)
		dx := float64(rapid.IntRange(-8, 8).Draw(t, "dx"))
		dy := float64(rapid.IntRange(-8, 8).Draw(t, "dy"))
		k1 := float64(rapid.IntRange(-5, 5).Draw(t, "k1"))
		k2 := float64(rapid.IntRange(-5, 5).Draw(t, "k2"))
		a = [2]float64{ox, oy}
		b = [2]float64{inDomain(ox + k1*dx), inDomain(oy + k1*dy)}
		c = [2]float64{nudge(t, inDomain(ox+k2*dx), "nx"), nudge(t, inDomain(oy+k2*dy), "ny")}
	case "shared":
		a = [2]float64{mag(t, "ax", shared), mag(t, "ay", shared)}
		b = [2]float64{mag(t, "bx", shared), mag(t, "by", shared)}
		switch rapid.IntRange(0, 3).Draw(t, "which") {
		case 0:
			c = a
		case 1:
			c = b
		case 2:
			c = a
			c[0] = nudge(t, c[0], "n")
		default:
			b = a
			c = [2]float64{mag(t, "cx", shared), mag(t, "cy", shared)}
		}
	case "axis":
		v := mag(t, "v", 9999)
		a = [2]float64{mag(t, "ax", shared), v}
		b = [2]float64{mag(t, "bx", shared), v}
		c = [2]float64{mag(t, "cx", shared), nudge(t, v, "n")}
		if rapid.Bool().Draw(t, "vertical") {
			a[0], a[1] = a[1], a[0]
			b[0], b[1] = b[1], b[0]
			c[0], c[1] = c[1], c[0]
		}
	case "random", "random-shared-exp":
		a = [2]float64{mag(t, "ax", shared), mag(t, "ay", shared)}
		b = [2]float64{mag(t, "bx", shared), mag(t, "by", shared)}
		c = [2]float64{mag(t, "cx", shared), mag(t, "cy", shared)}
	case "filter-edge":
		// aimed at the filter's own error bound: two points about 2^52 from the third, in
		// nearly the same direction, with odd integer ordinates, and the third with
		// ordinates next to +-1/2 - every difference a-c, b-c then rounds by (almost) half
		// an ulp, in a direction chosen by the sign of a tiny offset, and the determinant
		// is of the order of 2^-52 of the products it is the difference of. A bound that
		// forgets the rounding of the differences accepts wrong signs here.
		odd := func(l string) float64 {
			return float64(rapid.Int64Range(1<<51, 1<<52-1).Draw(t, l)*2 + 1)
		}
		a = [2]float64{odd("ax"), odd("ay")}
		if rapid.Bool().Draw(t, "aneg") {
			a[0] = -a[0]
		}
		mu := rapid.Float64Range(-0.45, 0.45).Draw(t, "mu")
		b = [2]float64{a[0] + math.Round(mu*a[0]) + float64(rapid.IntRange(-3, 3).Draw(t, "jx")), a[1] + math.Round(mu*a[1]) + float64(rapid.IntRange(-3, 3).Draw(t, "jy"))}
		half := func(l string) float64 {
			v := rapid.SampledFrom([]float64{0.5, 0.5, 0.25, 0.75, 1.5}).Draw(t, l+"h")
			v += rapid.SampledFrom([]float64{0, 0x1p-54, -0x1p-54, 0x1p-60, -0x1p-60, 0x1p-53, -0x1p-53}).Draw(t, l+"e")
			if rapid.Bool().Draw(t, l+"s") {
				v = -v
			}
			return v
		}
		c = [2]float64{half("cx"), half("cy")}
		// the roles of the three points in the call are drawn too
		switch rapid.IntRange(0, 2).Draw(t, "role") {
		case 1:
			a, c = c, a
		case 2:
			b, c = c, b
		}
	case "whole-long-thin":
		// a long thin triangle of whole numbers: a small origin (a multiple of a power of
		// two, so that its differences with large numbers can be exact), an end 2^40..2^61
		// away in a direction of small whole numbers, and the third point further along
		// the same line (or back towards the origin), a few units in the last place aside:
		// edge components that are whole, exactly computed, and wider than 53 bits together
		unit := math.Ldexp(1, rapid.SampledFrom([]int{0, 8, 16, 24, 31, 32}).Draw(t, "wshift"))
		w := func(l string) float64 { return float64(rapid.IntRange(-500, 500).Draw(t, l)) * unit }
		a = [2]float64{w("wax"), w("way")}
		u, v := float64(rapid.IntRange(-9, 9).Draw(t, "wu")), float64(rapid.IntRange(-9, 9).Draw(t, "wv"))
		if u == 0 && v == 0 {
			u = 1
		}
		m := math.Ldexp(float64(rapid.Int64Range(1<<20, 1<<21).Draw(t, "wm")), rapid.IntRange(20, 40).Draw(t, "wme"))
		b = [2]float64{a[0] + m*u, a[1] + m*v}
		tt := rapid.SampledFrom([]float64{1, 2, 3, 0.5, -0.5, 4, 7}).Draw(t, "wt")
		if rapid.Bool().Draw(t, "wfullbits") {
			// the same with every bit in use: an origin of arbitrary small whole numbers, an
			// end of 50-52 bits that is a multiple of 2^31 (so origin-to-end is exact and 52
			// bits wide), and a third point 2 to 2000 times further out
			a = [2]float64{float64(rapid.IntRange(-1000, 1000).Draw(t, "wfax")), float64(rapid.IntRange(-1000, 1000).Draw(t, "wfay"))}
			hi := func(l string) float64 {
				v := float64(rapid.Int64Range(1<<19, 1<<21-1).Draw(t, l)) * 0x1p31
				if rapid.Bool().Draw(t, l+"neg") {
					v = -v
				}
				return v
			}
			b = [2]float64{hi("wfbx"), hi("wfby")}
			tt = float64(rapid.IntRange(2, 2000).Draw(t, "wft"))
		}
		for i := 0; i < 2; i++ {
			c[i] = nudge(t, inDomain(b[i]+tt*(b[i]-a[i])), "wnudge")
		}
		switch rapid.IntRange(0, 2).Draw(t, "wrole") {
		case 1:
			a, c = c, a
		case 2:
			b, c = c, b
		}
	case "int-bezout":
		// whole numbers of a drawn width (8..52 bits) with a determinant of exactly -2..2: a
		// direction (dx,dy) of coprime numbers of that width, and (u,v) with dx*v - dy*u = 1
		// from the extended Euclidean algorithm; c = a + m*(dx,dy) + s*(u,v) is s lattice
		// steps off the line through a and b = a + (dx,dy). The products of the differences
		// need twice the width, so that from 27 bits on a float64 determinant rounds.
		k := uint(rapid.SampledFrom([]int{8, 16, 24, 25, 26, 27, 28, 30, 31, 32, 33, 40, 50, 52}).Draw(t, "bk"))
		if rapid.Bool().Draw(t, "bkany") {
			k = uint(rapid.IntRange(4, 52).Draw(t, "bkv"))
		}
		lo, hi := int64(1)<<(k-1), int64(1)<<k-1
		dx, dy := rapid.Int64Range(lo, hi).Draw(t, "bdx"), rapid.Int64Range(lo, hi).Draw(t, "bdy")
		// extended Euclid: g = gcd(dx,dy) = dx*x + dy*y
		x0, y0, x1, y1, r0, r1 := int64(1), int64(0), int64(0), int64(1), dx, dy
		for r1 != 0 {
			q := r0 / r1
			r0, r1 = r1, r0-q*r1
			x0, x1 = x1, x0-q*x1
			y0, y1 = y1, y0-q*y1
		}
		dx, dy = dx/r0, dy/r0 // coprime; dx*x0 + dy*y0 = 1 still holds for the reduced pair
		u, v := -y0, x0       // dx*v - dy*u = dx*x0 + dy*y0 = 1
		sdet := int64(rapid.SampledFrom([]int{1, -1, 1, -1, 0, 2, -2}).Draw(t, "bs"))
		m := int64(rapid.SampledFrom([]int{0, 1, 0, 1, -1, 2}).Draw(t, "bm"))
		if rapid.Bool().Draw(t, "bneg") {
			dx, u = -dx, -u
			sdet = -sdet
		}
		ox, oy := rapid.Int64Range(-hi, hi).Draw(t, "box")/2, rapid.Int64Range(-hi, hi).Draw(t, "boy")/2
		if rapid.Bool().Draw(t, "bcentre") {
			ox, oy = -dx/2, -dy/2 // the three points around the origin: every ordinate within the width
		}
		a = [2]float64{float64(ox), float64(oy)}
		b = [2]float64{float64(ox + dx), float64(oy + dy)}
		c = [2]float64{float64(ox + m*dx + sdet*u), float64(oy + m*dy + sdet*v)}
	case "grid-big":
		// integer-valued ordinates; widths at the limits of int32 / int64 / float64-mantissa
		// arithmetic are drawn as often as all other widths together, and every ordinate
		// is at an extreme of the range half of the time (fat triangles: large determinants)
		k := uint(rapid.IntRange(1, 62).Draw(t, "k"))
		if rapid.Bool().Draw(t, "edgewidth") {
			k = uint(rapid.SampledFrom([]int{15, 16, 26, 27, 30, 31, 32, 33, 52, 53, 54, 61, 62}).Draw(t, "kedge"))
		}
		lim := int64(1) << k
		p := func(l string) float64 {
			switch rapid.IntRange(0, 4).Draw(t, l+"ext") {
			case 0:
				return float64(lim)
			case 1:
				return float64(-lim)
			case 2:
				return float64(lim - 1) // the largest value of a two's-complement type of that width
			}
			return float64(rapid.Int64Range(-lim, lim).Draw(t, l))
		}
		a = [2]float64{p("ax"), p("ay")}
		b = [2]float64{p("bx"), p("by")}
		c = [2]float64{p("cx"), p("cy")}
	}
	ne := rapid.SampledFrom([]int{0, 0, 1, 2, 3}).Draw(t, "nextra")
	mk := func(p [2]float64, l string) []model.F {
		return model.Bits(append([]float64{p[0], p[1]}, extras(t, ne, l)...))
	}
	return Case{Class: class, A: mk(a, "ea"), B: mk(b, "eb"), C: mk(c, "ec")}
}

// rangeTrouble: a product of differences underflows (inexact or lost entirely)
// or overflows, so plain double arithmetic cannot be trusted whatever the filter.
func rangeTrouble(a, b, c []float64) bool {
	bad := func(x, y float64) bool {
		if x == 0 || y == 0 {
			return math.IsInf(x, 0) || math.IsInf(y, 0)
		}
		p := math.Abs(x * y)
		return !(p >= 0x1p-1022 && p <= math.MaxFloat64)
	}
	return bad(a[0]-c[0], b[1]-c[1]) || bad(a[1]-c[1], b[0]-c[0])
}

func filterUndecided(a, b, c []float64) bool {
	if rangeTrouble(a, b, c) {
		return true
	}
	detleft := (a[0] - c[0]) * (b[1] - c[1])
	detright := (a[1] - c[1]) * (b[0] - c[0])
	det := detleft - detright
	var detsum float64
	switch {
	case detleft > 0:
		if detright <= 0 {
			return false
		}
		detsum = detleft + detright
	case detleft < 0:
		if detright >= 0 {
			return false
		}
		detsum = -detleft - detright
	default:
		return false
	}
	errbound := 1e-15 * detsum
	return !(det >= errbound || -det >= errbound)
}

func exactSign(a, b, c []float64) int {
	return exact.Orient(exact.Pt(a[0], a[1]), exact.Pt(b[0], b[1]), exact.Pt(c[0], c[1]))
}

func prop(cs Case) error {
	a, b, c := model.Floats(cs.A), model.Floats(cs.B), model.Floats(cs.C)
	want := exactSign(a, b, c)
	// the package's other exported function runs first (whatever it returns, or panics
	// with, on these points): it shares nothing with the predicate that could change an
	// answer
	_ = run.Safe(func() error {
		_ = bigxy.Intersection(geom.Coord{a[0], a[1]}, geom.Coord{b[0], b[1]}, geom.Coord{c[0], c[1]}, geom.Coord{a[1], b[0]})
		_ = bigxy.Intersection(geom.Coord{0.1, 0.7}, geom.Coord{3.3, -1.9}, geom.Coord{-2.5, 0.3}, geom.Coord{4.7, 1.1})
		return nil
	})
	type fn struct {
		name string
		f    func(x, y, z geom.Coord) orientation.Type
	}
	for _, f := range []fn{{"bigxy.OrientationIndex", bigxy.OrientationIndex}, {"xy.OrientationIndex", xy.OrientationIndex}} {
		got := int(f.f(a, b, c))
		if got != want {
			return fmt.Errorf("%s(%v, %v, %v) = %d, exact sign %d", f.name, a[:2], b[:2], c[:2], got, want)
		}
		// consequences, on the library's own results
		if sw := int(f.f(b, a, c)); sw != -got {
			return fmt.Errorf("%s: exchanging two arguments gives %d, want %d", f.name, sw, -got)
		}
		if sw := int(f.f(a, c, b)); sw != -got {
			return fmt.Errorf("%s: exchanging last two arguments gives %d, want %d", f.name, sw, -got)
		}
		if r1, r2 := int(f.f(b, c, a)), int(f.f(c, a, b)); r1 != got || r2 != got {
			return fmt.Errorf("%s: cyclic rotations give %d, %d, want %d", f.name, r1, r2, got)
		}
		// points that coincide handed over as one and the same slice
		same := func(x, y []float64) bool {
			if len(x) != len(y) {
				return false
			}
			for i := range x {
				if math.Float64bits(x[i]) != math.Float64bits(y[i]) {
					return false
				}
			}
			return true
		}
		sa, sb, sc := a, b, c
		if same(sa, sb) {
			sb = sa
		}
		if same(sa, sc) {
			sc = sa
		} else if same(sb, sc) {
			sc = sb
		}
		if r := int(f.f(sa, sb, sc)); r != got {
			return fmt.Errorf("%s with coinciding points passed as one slice = %d, %d with separate slices", f.name, r, got)
		}
		// the caller's three buffers are used again: overwritten in place with the same
		// points in other roles, and asked again straight away (a loop over the vertices
		// of a ring does this with one Coord variable per role)
		p, q, r := append(geom.Coord{}, a...), append(geom.Coord{}, b...), append(geom.Coord{}, c...)
		load := func(dst geom.Coord, src []float64) geom.Coord {
			dst = dst[:0]
			return append(dst, src...) // same storage whenever it is large enough
		}
		if r0 := int(f.f(p, q, r)); r0 != got {
			return fmt.Errorf("%s on copies of the arguments = %d, want %d", f.name, r0, got)
		}
		for _, step := range []struct {
			what    string
			x, y, z []float64
			want    int
		}{
			{"first two exchanged", b, a, c, -got},
			{"first := third", c, a, c, 0},
			{"rotated", c, b, a, -got},
			{"second := first", c, c, a, 0},
			{"back to the start", a, b, c, got},
			{"only the first overwritten, with the second", b, b, c, 0},
			{"only the first overwritten, back", a, b, c, got},
		} {
			if cap(p) >= len(step.x) && cap(q) >= len(step.y) && cap(r) >= len(step.z) {
				p, q, r = load(p, step.x), load(q, step.y), load(r, step.z)
				if rr := int(f.f(p, q, r)); rr != step.want {
					return fmt.Errorf("%s after the caller overwrote its own three coordinates in place (%s) = %d, want %d", f.name, step.what, rr, step.want)
				}
			}
		}
		// the three coordinates as windows of one flat array (what Coord(i) and slicing
		// FlatCoords hand out: each window's capacity runs on over its neighbours), laid
		// out in every order; the answer is the same and the array is left as it was
		for _, order := range [][3]int{{0, 1, 2}, {0, 2, 1}, {1, 0, 2}, {1, 2, 0}, {2, 0, 1}, {2, 1, 0}} {
			src := [3][]float64{a, b, c}
			var flat []float64
			var off [3]int
			for _, k := range order {
				off[k] = len(flat)
				flat = append(flat, src[k]...)
			}
			flat = append(flat, 7, 7) // room behind the last window as well
			flat = flat[:len(flat)-2]
			before := append([]float64{}, flat[:cap(flat)]...)
			w := func(k int) geom.Coord { return geom.Coord(flat[off[k] : off[k]+len(src[k])]) }
			if r := int(f.f(w(0), w(1), w(2))); r != got {
				return fmt.Errorf("%s with the arguments as windows of one array laid out in order %v = %d, %d with separate slices", f.name, order, r, got)
			}
			now := flat[:cap(flat)]
			for i := range before {
				if math.Float64bits(before[i]) != math.Float64bits(now[i]) {
					return fmt.Errorf("%s with the arguments as windows of one array (order %v) changed element %d of the array from %v to %v", f.name, order, i, before[i], now[i])
				}
			}
		}
	}
	return nil
}

func classify(cs Case) ([]string, bool) {
	a, b, c := model.Floats(cs.A), model.Floats(cs.B), model.Floats(cs.C)
	und := filterUndecided(a, b, c)
	cl := []string{"class:" + cs.Class}
	if und {
		cl = append(cl, "filter-undecided", "undecided:"+cs.Class)
	}
	if rangeTrouble(a, b, c) {
		cl = append(cl, "product-underflows-or-overflows")
	}
	if exactSign(a, b, c) == 0 {
		cl = append(cl, "exactly-collinear")
	}
	return cl, und
}

var spec = run.Spec[Case]{ID: "C10", Name: "orient", Gen: genCase, Prop: prop, Classify: classify}

func TestPropOrient(t *testing.T) { run.Generated(t, spec) }
func TestRegress(t *testing.T)    { run.Regress(t, spec) }
func TestReplay(t *testing.T) {
	run.ReplayOne(t, spec)
	run.ReplayOne(t, concSpec)
}

// TestExhaustiveGrid enumerates every ordered triple of points of the n x n
// integer grid (n = 5 quick, 9 thorough), with extra ordinates on odd triples.
func TestExhaustiveGrid(t *testing.T) {
	n := 5
	if run.Thorough() {
		n = 9
	}
	shard, shards := run.Shard()
	pts := n * n
	total := 0
	for i := 0; i < pts; i++ {
		if i%shards != shard {
			continue
		}
		for j := 0; j < pts; j++ {
			for k := 0; k < pts; k++ {
				mk := func(p int) []model.F {
					c := []float64{float64(p % n), float64(p / n)}
					if (i+j+k)%2 == 1 {
						c = append(c, float64(p), math.NaN())
					}
					return model.Bits(c)
				}
				cs := Case{Class: "grid", A: mk(i), B: mk(j), C: mk(k)}
				total++
				h := uint64(n)<<60 | uint64(i)<<40 | uint64(j)<<20 | uint64(k)
				collinear := exactSign(model.Floats(cs.A), model.Floats(cs.B), model.Floats(cs.C)) == 0
				ev.Default.CaseHash(h, "grid", collinear, func() any { return cs })
				if !run.One(t, spec, cs) {
					return
				}
			}
		}
	}
	ev.Default.ExhaustiveSpace(fmt.Sprintf("all ordered triples of the %dx%d grid (this shard's share)", n, n), int64(total))
}
