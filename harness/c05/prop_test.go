// C05: WKT output round-trips and reads the same in an independent WKT reader.
package c05

import (
	"fmt"
	"strings"
	"testing"

	geom "github.com/twpayne/go-geom"
	"github.com/twpayne/go-geom/encoding/wkt"
	"pgregory.net/rapid"

	"verifharness/internal/gen"
	"verifharness/internal/model"
	"verifharness/internal/refwkt"
	"verifharness/internal/run"
)

func TestMain(m *testing.M) { run.Main(m) }

// Case is a geometry WKT can express, a spelling of it, and the build route.
type Case struct {
	G     model.G `json:"g"`
	Text  string  `json:"text"`
	Route int     `json:"route"`
	// Poison: a Marshal that fails half-way (a collection whose last member cannot
	// be written) precedes the calls under test; it must leave nothing behind.
	Poison bool `json:"poison,omitempty"`
	// Deep: the geometry is also written and parsed wrapped in this many nested
	// GEOMETRYCOLLECTIONs (WKT expresses any depth).
	Deep int `json:"deep,omitempty"`
}

func genCase(t *rapid.T) Case {
	floats := rapid.SampledFrom([]int{gen.SmallInt, gen.Finite, gen.Finite, gen.Decimalish | gen.SmallInt, gen.FullRange | gen.Denormal | gen.Zeros}).Draw(t, "floats")
	g := gen.Tree(t, gen.TreeOpts{
		Layouts: gen.Layouts4, Floats: floats, MaxDepth: 4, MaxParts: 4, MaxPts: 5,
		Valid: true, FixEmptyCollections: true, FixedCollectionPct: 50, PEmpty: 25, LongPct: 1, LongMax: 200, SRID: gen.SRIDs,
	})
	// a ring closed by a point that equals its first point but is not a copy of it: zeros
	// of the other sign
	g.Walk(func(x *model.G) {
		flip := func(r [][]model.F) {
			if len(r) < 4 {
				return
			}
			first, last := r[0], append([]model.F{}, r[len(r)-1]...)
			for i := range last {
				if first[i].V() == 0 && last[i].V() == 0 && rapid.Bool().Draw(t, "flipzero") {
					last[i] = model.Of(-first[i].V())
				}
			}
			r[len(r)-1] = last
		}
		switch x.Kind {
		case model.Polygon:
			for _, r := range x.C2 {
				flip(r)
			}
		case model.MultiPolygon:
			for _, p := range x.C3 {
				for _, r := range p {
					flip(r)
				}
			}
		}
	})
	text, err := refwkt.Write(g, func(n int, label string) int { return rapid.IntRange(0, n-1).Draw(t, label) })
	if err != nil {
		panic(err)
	}
	return Case{G: *g, Text: text, Route: rapid.IntRange(0, int(model.NumRoutes)-1).Draw(t, "route"), Poison: rapid.IntRange(0, 3).Draw(t, "poison") == 0, Deep: rapid.SampledFrom([]int{0, 0, 0, 0, 0, 0, 0, 0, 0, 0, 0, 0, 0, 0, 0, 0, 0, 0, 0, 0, 0, 0, 0, 0, 5, 16, 31, 32, 33, 64, 65, 130, 257, 999, 1000, 1030}).Draw(t, "deep")}
}

func same(what string, want *model.G, got *model.G) error {
	if d := model.Diff(want, got, false); d != "" {
		return fmt.Errorf("%s: %s", what, d)
	}
	return nil
}

func prop(c Case) error {
	g := &c.G
	t, err := model.Build(g, model.Route(c.Route))
	if err != nil {
		return fmt.Errorf("build: %v", err)
	}
	enc := wkt.NewEncoder() // one encoder value for every Encode call of the case, as a caller keeps it
	if c.Poison {
		bad := geom.NewGeometryCollection()
		if err := bad.Push(t, geom.NewPoint(geom.NoLayout)); err != nil {
			return fmt.Errorf("harness: cannot build the unencodable collection: %v", err)
		}
		if txt, err := wkt.Marshal(bad); err == nil {
			return fmt.Errorf("wkt.Marshal of a collection with a NoLayout member succeeded: %q", txt)
		}
		if txt, err := wkt.Marshal(bad, wkt.EncodeOptionWithMaxDecimalDigits(3)); err == nil {
			return fmt.Errorf("wkt.Marshal of a collection with a NoLayout member succeeded: %q", txt)
		}
		if txt, err := enc.Encode(bad); err == nil {
			return fmt.Errorf("Encoder.Encode of a collection with a NoLayout member succeeded: %q", txt)
		}
	}
	held := model.Leaves(t) // the caller's aliases of the coordinates, taken before any call
	// (a) the encoder's text is accepted by the library's own parser
	text, err := wkt.Marshal(t)
	if err != nil {
		return fmt.Errorf("wkt.Marshal: %v", err)
	}
	var keptTexts, keptCopies []string
	for i := 0; i < 2; i++ {
		got, err := enc.Encode(t)
		if err != nil || got != text {
			return fmt.Errorf("Encoder.Encode (call %d on an encoder value that is kept) = %q, %v; Marshal = %q", i+1, got, err, text)
		}
		keptTexts, keptCopies = append(keptTexts, got), append(keptCopies, strings.Clone(got))
	}
	// the texts returned are the caller's: they say the same after the same encoder has
	// written other texts, shorter and longer ones (a caller collects the rows of a file)
	for _, o := range []geom.T{geom.NewPointFlat(geom.XY, []float64{1, 2}), geom.NewPointEmpty(geom.XYZM), geom.NewLineStringFlat(geom.XYZ, make([]float64, 3*(len(text)/4+2)))} {
		got, err := enc.Encode(o)
		if err != nil {
			return fmt.Errorf("Encoder.Encode of a plain %T: %v", o, err)
		}
		keptTexts, keptCopies = append(keptTexts, got), append(keptCopies, strings.Clone(got))
	}
	for i := range keptTexts {
		if keptTexts[i] != keptCopies[i] {
			return fmt.Errorf("a text returned by Encoder.Encode changed when the same encoder encoded other geometries afterwards: now %q, was %q", clip(keptTexts[i]), clip(keptCopies[i]))
		}
	}
	back, err := wkt.Unmarshal(text)
	if err != nil {
		return fmt.Errorf("wkt.Unmarshal(Marshal(g)) failed: %v\ntext: %s", err, text)
	}
	bm, err := model.FromGeom(back)
	if err != nil {
		return fmt.Errorf("parsed geometry not well formed: %v\ntext: %s", err, text)
	}
	if err := same("Unmarshal(Marshal(g)) [text "+clip(text)+"]", g, bm); err != nil {
		return err
	}
	// (b) the independent reader understands the same text the same way
	rm, err := refwkt.Read(text)
	if err != nil {
		return fmt.Errorf("reference reader rejects the encoder's text: %v\ntext: %s", err, text)
	}
	if err := same("reference reader on Marshal(g) [text "+clip(text)+"]", g, rm); err != nil {
		return err
	}
	// (c) every standard spelling parses to the same geometry
	if sm, err := refwkt.Read(c.Text); err != nil {
		return fmt.Errorf("harness inconsistency: reference reader rejects the reference writer: %v\ntext: %q", err, c.Text)
	} else if err := same("harness inconsistency: reference reader on spelling", g, sm); err != nil {
		return err
	}
	sp, err := wkt.Unmarshal(c.Text)
	if err != nil {
		return fmt.Errorf("wkt.Unmarshal rejects a standard spelling: %v\nspelling: %q\ncanonical: %s", err, c.Text, text)
	}
	spm, err := model.FromGeom(sp)
	if err != nil {
		return fmt.Errorf("geometry parsed from spelling not well formed: %v", err)
	}
	if err := same(fmt.Sprintf("Unmarshal(spelling %q)", clip(c.Text)), g, spm); err != nil {
		return err
	}
	// the geometry at the bottom of a tower of nested collections
	if c.Deep > 0 && !(g.IsCollection() && g.Empty()) {
		var top geom.T = t
		gm := g.Clone()
		for i := 0; i < c.Deep; i++ {
			w := geom.NewGeometryCollection()
			if err := w.Push(top); err != nil {
				return fmt.Errorf("harness: cannot nest: %v", err)
			}
			top = w
			gm = &model.G{Kind: model.GeometryCollection, Members: []model.G{*gm}}
		}
		dtext, err := wkt.Marshal(top)
		if err != nil {
			return fmt.Errorf("wkt.Marshal of %d nested collections: %v", c.Deep, err)
		}
		dback, err := wkt.Unmarshal(dtext)
		if err != nil {
			return fmt.Errorf("wkt.Unmarshal rejects the encoder's text of %d nested collections: %v", c.Deep, err)
		}
		dm, err := model.FromGeom(dback)
		if err != nil {
			return fmt.Errorf("parsed geometry not well formed: %v", err)
		}
		if err := same(fmt.Sprintf("%d nested collections", c.Deep), gm, dm); err != nil {
			return err
		}
	}
	// what Unmarshal returned is the caller's: another text parsed afterwards changes nothing in it
	// (among them EMPTY geometries of every layout: values without coordinates are the
	// ones an implementation is tempted to share between results)
	for _, o := range []string{"LINESTRING Z (1 2 3, 4 5 6, 7 8 9)", "MULTIPOLYGON (((0 0, 9 0, 9 9, 0 0)), EMPTY)", "POINT (7 7)",
		"GEOMETRYCOLLECTION M EMPTY", "GEOMETRYCOLLECTION Z EMPTY", "GEOMETRYCOLLECTION ZM EMPTY", "GEOMETRYCOLLECTION EMPTY",
		"POINT M EMPTY", "POINT Z EMPTY", "POINT ZM EMPTY", "POINT EMPTY", "LINESTRING M EMPTY", "POLYGON ZM EMPTY", "MULTIPOINT Z (EMPTY)", "MULTIPOLYGON M EMPTY",
		"GEOMETRYCOLLECTION M (GEOMETRYCOLLECTION M EMPTY, POINT M EMPTY)"} {
		if _, err := wkt.Unmarshal(o); err != nil {
			return fmt.Errorf("wkt.Unmarshal(%q): %v", o, err)
		}
	}
	// ... nor a sibling of the case itself (same structure and emptiness, other ordinates)
	if st, err := refwkt.Write(g.Mapped(func(x float64) float64 { return 2*x + 1 }), nil); err == nil {
		for i := 0; i < 2; i++ {
			_, _ = wkt.Unmarshal(st)
		}
	}
	bm2, err := model.FromGeom(back)
	if err != nil {
		return fmt.Errorf("the geometry returned by wkt.Unmarshal is ill formed after later parses: %v", err)
	}
	if err := same("the geometry returned by Unmarshal, looked at again after later parses", g, bm2); err != nil {
		return err
	}
	// ... and the caller may do to it what it likes (every ordinate overwritten, EMPTY
	// points given coordinates, SRIDs changed): the same text parses as before
	model.Spoil(back)
	if again, err := wkt.Unmarshal(text); err != nil {
		return fmt.Errorf("wkt.Unmarshal of the same text after the caller overwrote the geometry parsed from it before: %v", err)
	} else if am, err := model.FromGeom(again); err != nil {
		return fmt.Errorf("parsed again after the caller overwrote the earlier result: %v", err)
	} else if err := same("the same text, parsed again after the caller overwrote the geometry parsed from it before,", g, am); err != nil {
		return err
	}
	// the same geometry object as a member in several places of a collection tree
	// (a value, not a cycle): GEOMETRYCOLLECTION(g, GEOMETRYCOLLECTION(g), g)
	{
		inner, outer := geom.NewGeometryCollection(), geom.NewGeometryCollection()
		if inner.Push(t) == nil && outer.Push(t, inner, t) == nil && !(g.IsCollection() && g.Empty()) {
			gm := &model.G{Kind: model.GeometryCollection, Members: []model.G{*g, {Kind: model.GeometryCollection, Members: []model.G{*g}}, *g}}
			text3, err := wkt.Marshal(outer)
			if err != nil {
				return fmt.Errorf("wkt.Marshal of a collection holding the same object three times: %v", err)
			}
			back3, err := wkt.Unmarshal(text3)
			if err != nil {
				return fmt.Errorf("wkt.Unmarshal of a collection holding the same object three times: %v\ntext: %s", err, clip(text3))
			}
			bm3, err := model.FromGeom(back3)
			if err != nil {
				return fmt.Errorf("parsed geometry not well formed: %v", err)
			}
			if err := same("collection holding the same object three times [text "+clip(text3)+"]", gm, bm3); err != nil {
				return err
			}
		}
	}
	// (d) the text is that of the coordinates as they are now: x and y of every
	// coordinate are exchanged in place (rings stay closed) and the same object is
	// marshalled again
	if !model.SwapXY(held) {
		return nil
	}
	g2 := g.SwappedXY() // from the model: the object is not read back
	text2, err := wkt.Marshal(t)
	if err != nil {
		return fmt.Errorf("wkt.Marshal after x and y were exchanged in place: %v", err)
	}
	rm2, err := refwkt.Read(text2)
	if err != nil {
		return fmt.Errorf("reference reader rejects the text written after x and y were exchanged in place: %v\ntext: %s", err, text2)
	}
	if err := same("Marshal of the same object after x and y were exchanged in place [text "+clip(text2)+"]", g2, rm2); err != nil {
		return err
	}
	// ... and so is the text of the encoder that wrote the object before the exchange
	if text3, err := enc.Encode(t); err != nil || text3 != text2 {
		return fmt.Errorf("the Encoder that wrote the object before x and y were exchanged in place now writes %q, %v; Marshal writes %q", clip(text3), err, clip(text2))
	}
	return nil
}

func clip(s string) string {
	if len(s) > 400 {
		return s[:400] + "..."
	}
	return s
}

func classify(c Case) ([]string, bool) {
	g := &c.G
	cl := []string{"kind:" + g.Kind, "layout:" + g.ReportedLayout().String()}
	nt := false
	if g.HasEmptyPart() {
		cl = append(cl, "EMPTY-member")
		nt = true
	}
	if g.EmptyBeforeNonEmpty() {
		cl = append(cl, "EMPTY-before-nonempty")
	}
	if g.Depth() >= 1 {
		cl = append(cl, fmt.Sprintf("depth:%d", g.Depth()))
		nt = true
	}
	if g.ReportedLayout() != geom.XY {
		nt = true
	}
	long := false
	g.EachOrdinate(func(_ int, v model.F) {
		if len(refwkt.Number(v.V(), 0)) > 17 {
			long = true
		}
	})
	if long {
		cl = append(cl, "long-number")
		nt = true
	}
	if c.Poison {
		cl = append(cl, "after-a-failed-Marshal")
	}
	return cl, nt
}

var spec = run.Spec[Case]{ID: "C05", Name: "wkt", Gen: genCase, Prop: prop, Classify: classify}

func TestPropWKT(t *testing.T) { run.Generated(t, spec) }
func TestRegress(t *testing.T) { run.Regress(t, spec) }
func TestReplay(t *testing.T) {
	run.ReplayOne(t, spec)
	run.ReplayOne(t, eSpec)
	run.ReplayOne(t, concSpec)
}
