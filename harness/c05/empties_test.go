package c05

import (
	"fmt"
	"hash/fnv"
	"sort"
	"strings"
	"testing"

	geom "github.com/twpayne/go-geom"
	"github.com/twpayne/go-geom/encoding/wkt"

	"verifharness/internal/ev"
	"verifharness/internal/model"
	"verifharness/internal/refwkt"
	"verifharness/internal/run"
)

// ECase is a tree of geometry collections written as a string: "()" is a collection
// without members and without a layout (what NewGeometryCollection returns), "(...)"
// a collection of the listed members, "F()" a member-less collection given the layout
// XY, and the letters p, z, m, l a point XY, a point XYZ, a point XYM and an empty
// line string XY.
type ECase struct {
	Tree string `json:"tree"`
}

func buildE(s string, pos *int) (geom.T, string, error) {
	switch ch := s[*pos]; ch {
	case 'p':
		*pos++
		return geom.NewPointFlat(geom.XY, []float64{1, 2}), "P", nil
	case 'z':
		*pos++
		return geom.NewPointFlat(geom.XYZ, []float64{1, 2, 3}), "P", nil
	case 'm':
		*pos++
		return geom.NewPointFlat(geom.XYM, []float64{1, 2, 3}), "P", nil
	case 'l':
		*pos++
		return geom.NewLineString(geom.XY), "L", nil
	case 'F', '(':
		gc := geom.NewGeometryCollection()
		if ch == 'F' {
			gc.MustSetLayout(geom.XY)
			*pos++
		}
		*pos++ // (
		shape := "C["
		for s[*pos] != ')' {
			m, ms, err := buildE(s, pos)
			if err != nil {
				return nil, "", err
			}
			if err := gc.Push(m); err != nil {
				return nil, "", err
			}
			shape += ms + ","
		}
		*pos++
		return gc, shape + "]", nil
	}
	return nil, "", fmt.Errorf("bad tree %q at %d", s, *pos)
}

func shapeE(g *model.G) string {
	switch g.Kind {
	case model.Point:
		return "P"
	case model.LineString:
		return "L"
	case model.GeometryCollection:
		s := "C["
		for i := range g.Members {
			s += shapeE(&g.Members[i]) + ","
		}
		return s + "]"
	}
	return "?" + g.Kind
}

func propE(c ECase) error {
	pos := 0
	t, want, err := buildE(c.Tree, &pos)
	if err != nil {
		return nil // a tree the library itself refuses to build (layout mismatch on Push) is not a case
	}
	text, err := wkt.Marshal(t)
	if err != nil {
		return fmt.Errorf("wkt.Marshal of the collection tree %s: %v", c.Tree, err)
	}
	if text2, err := wkt.NewEncoder().Encode(t); err != nil || text2 != text {
		return fmt.Errorf("Encoder.Encode of %s: %q, %v; Marshal gave %q", c.Tree, text2, err, text)
	}
	rm, err := refwkt.Read(text)
	if err != nil {
		return fmt.Errorf("the independent reader rejects %q (tree %s): %v", text, c.Tree, err)
	}
	if got := shapeE(rm); got != want {
		return fmt.Errorf("tree %s was written as %q, which reads as %s, want %s", c.Tree, text, got, want)
	}
	back, err := wkt.Unmarshal(text)
	if err != nil {
		return fmt.Errorf("wkt.Unmarshal rejects the encoder's own %q (tree %s): %v", text, c.Tree, err)
	}
	bm, err := model.FromGeom(back)
	if err != nil {
		return fmt.Errorf("parsed %q: %v", text, err)
	}
	if got := shapeE(bm); got != want {
		return fmt.Errorf("tree %s written as %q parses back as %s, want %s", c.Tree, text, got, want)
	}
	return nil
}

var eSpec = run.Spec[ECase]{ID: "C05", Name: "emptytrees", Prop: propE, Classify: func(c ECase) ([]string, bool) {
	return []string{"empty-collection-tree"}, strings.Count(c.Tree, "(") >= 2
}}

// TestExhaustiveEmptyTrees writes every collection tree of depth <= 3 and width <= 2
// over the leaves { collection without layout, collection with layout, point XY,
// point XYZ, point XYM, empty line string } (some 2 000 trees): nested collections
// that hold nothing but collections are where "empty" and "without a layout" part ways.
func TestExhaustiveEmptyTrees(t *testing.T) {
	shard, shards := run.Shard()
	all := map[string]bool{}
	// one layout per tree (WKT cannot mix them): XY leaves, or XYZ, or XYM
	for _, leaves := range [][]string{{"()", "F()", "p", "l"}, {"()", "z"}, {"()", "m"}} {
		enumTrees(leaves, all)
	}
	keys := make([]string, 0, len(all))
	for s := range all {
		keys = append(keys, s)
	}
	sort.Strings(keys)
	for i, s := range append([]string{"()", "F()"}, keys...) {
		if i%shards != shard {
			continue
		}
		c := ECase{Tree: s}
		h := fnv.New64a()
		h.Write([]byte(s))
		ev.Default.CaseHash(h.Sum64(), "empty-collection-tree", true, func() any { return c })
		if !run.One(t, eSpec, c) {
			return
		}
	}
}

func enumTrees(leaves []string, all map[string]bool) {
	level := append([]string{}, leaves...)
	for depth := 0; depth < 3; depth++ {
		var next []string
		for _, a := range level {
			next = append(next, "("+a+")")
			for _, b := range leaves {
				next = append(next, "("+a+b+")", "("+b+a+")")
			}
		}
		for _, s := range next {
			all[s] = true
		}
		// keep the next level bounded: only trees that still contain a member-less collection
		level = level[:0]
		for _, s := range next {
			if strings.Contains(s, "()") && len(level) < 400 {
				level = append(level, s)
			}
		}
	}
}

func TestRegressEmptyTrees(t *testing.T) { run.Regress(t, eSpec) }
