// C04: binary decoders are total, allocation-bounded and canonical on arbitrary bytes.
package c04

import (
	"bytes"
	"encoding/binary"
	"encoding/hex"
	"errors"
	"fmt"
	"math"
	"runtime"
	"testing"

	geom "github.com/twpayne/go-geom"
	"github.com/twpayne/go-geom/encoding/ewkb"
	"github.com/twpayne/go-geom/encoding/ewkbhex"
	"github.com/twpayne/go-geom/encoding/wkb"
	"github.com/twpayne/go-geom/encoding/wkbcommon"
	"github.com/twpayne/go-geom/encoding/wkbhex"
	"pgregory.net/rapid"

	"verifharness/internal/ev"
	"verifharness/internal/gen"
	"verifharness/internal/model"
	"verifharness/internal/refwkb"
	"verifharness/internal/run"
)

func TestMain(m *testing.M) { run.Main(m) }

// Case is a byte string, the dialect and the configured limits (-1 = disabled).
type Case struct {
	Class  string `json:"class"`
	Mode   string `json:"mode"` // ewkb | wkb-nan | wkb-err
	Data   []byte `json:"data"`
	Limits [3]int `json:"limits"`
	// forgery bookkeeping (Class == "forgery"): the overwritten field
	FOffset int    `json:"foffset,omitempty"`
	FLevel  int    `json:"flevel,omitempty"`
	FValue  uint32 `json:"fvalue,omitempty"`
	// Huge (Class == "huge"): Data is not stored but made from this - an honest
	// encoding of one line or one-ring polygon with more than a mebibyte of ordinates
	Huge *HugeSpec `json:"huge,omitempty"`
}

// HugeSpec describes one honest encoding whose single coordinate array is around
// 2^17 or 2^18 ordinates (1 or 2 MiB): whatever a decoder reads in blocks, in chunks
// or through a buffer of fixed size is filled many times over. The ordinates are the
// whole numbers 1, 2, 3, ... in order, so a block read to the wrong place shows.
type HugeSpec struct {
	Polygon  bool `json:"polygon"`
	Stride   int  `json:"stride"` // 2, 3 (Z) or 4
	Coords   int  `json:"coords"`
	XDR      bool `json:"xdr"`
	Trailing int  `json:"trailing,omitempty"` // bytes cut off the end (0 = honest)
}

func (h *HugeSpec) bytes(mode string) []byte {
	var bo binary.AppendByteOrder = binary.LittleEndian
	out := []byte{1}
	if h.XDR {
		bo, out[0] = binary.BigEndian, 0
	}
	typ := uint32(2)
	if h.Polygon {
		typ = 3
	}
	if mode == "ewkb" {
		typ |= map[int]uint32{2: 0, 3: 0x80000000, 4: 0xC0000000}[h.Stride]
	} else {
		typ += map[int]uint32{2: 0, 3: 1000, 4: 3000}[h.Stride]
	}
	out = bo.AppendUint32(out, typ)
	if h.Polygon {
		out = bo.AppendUint32(out, 1)
	}
	out = bo.AppendUint32(out, uint32(h.Coords))
	n := h.Coords * h.Stride
	for i := 0; i < n; i++ {
		v := float64(i + 1)
		if h.Polygon && i >= n-h.Stride {
			v = float64(i - (n - h.Stride) + 1) // the ring closes
		}
		out = bo.AppendUint64(out, math.Float64bits(v))
	}
	if h.Trailing >= len(out) {
		return out[:1]
	}
	return out[:len(out)-h.Trailing]
}

// full is the case with its Data in place.
func (c Case) full() Case {
	if c.Huge != nil {
		c.Data = c.Huge.bytes(c.Mode)
	}
	return c
}

// hostile counts: large round numbers, and the counts at which a product with a
// stride (2, 3, 4), with the size of an ordinate (8) or of a coordinate (16, 24, 32)
// first passes 2^31 or 2^32 (where arithmetic in 32 bits wraps to something small)
var hostile = func() []uint32 {
	out := []uint32{1 << 16, 1 << 24, 1 << 26, 1<<31 - 1, 1 << 31, 1<<32 - 1}
	for _, m := range []uint64{2, 3, 4, 8, 16, 24, 32} {
		for _, top := range []uint64{1 << 31, 1 << 32} {
			q := (top + m - 1) / m
			out = append(out, uint32(q), uint32(q+1), uint32(q+5))
		}
	}
	return out
}()

func refMode(mode string) refwkb.Mode {
	if mode == "ewkb" {
		return refwkb.EWKB
	}
	return refwkb.ISO
}

func genBase(t *rapid.T, mode string) (*model.G, []byte, []refwkb.Field) {
	g, b, f, _ := genBaseH(t, mode)
	return g, b, f
}

func genBaseH(t *rapid.T, mode string) (*model.G, []byte, []refwkb.Field, []int) {
	g, b, f, tw, _ := genBaseM(t, mode)
	return g, b, f, tw
}

// genBaseM: a reference encoding; in a third of them members use another byte
// order than their parents (each geometry has its own byte-order mark).
// SRIDsmall draws a member SRID.
func SRIDsmall(t *rapid.T) int {
	return rapid.SampledFrom([]int{0, 4326, 3857, 1, 27700, 4269}).Draw(t, "msrid")
}

func genBaseM(t *rapid.T, mode string) (*model.G, []byte, []refwkb.Field, []int, []bool) {
	o := gen.TreeOpts{
		Layouts: gen.Layouts4, Floats: gen.SmallInt | gen.CanonNaN | gen.Infs, MaxDepth: 3, MaxParts: 3, MaxPts: 4,
		MixLayouts: rapid.Bool().Draw(t, "mix"), FixEmptyCollections: true, PEmpty: 20, LongPct: 3, LongMax: 200,
	}
	if mode == "ewkb" {
		o.SRID = gen.SRIDs
	}
	if mode == "wkb-err" {
		o.NoEmptyPoint = true
	}
	g := gen.Tree(t, o)
	if mode == "ewkb" {
		// members of collections carry SRIDs of their own, at every depth
		first := true
		g.Walk(func(x *model.G) {
			if !first && rapid.Bool().Draw(t, "membersrid") {
				x.SRID = SRIDsmall(t)
			}
			first = false
		})
	}
	var flip func(int) bool
	if rapid.IntRange(0, 2).Draw(t, "mixedorder") == 0 {
		mask := rapid.Uint64().Draw(t, "flipmask")
		flip = func(n int) bool { return mask>>(uint(n)%64)&1 == 1 }
	}
	data, fields, tw, twbe, err := refwkb.EncodeMixed(g, rapid.Bool().Draw(t, "xdr"), refMode(mode), flip)
	if err != nil {
		// NoLayout etc. cannot happen with these options
		panic(err)
	}
	return g, data, fields, tw, twbe
}

func put32o(data []byte, off int, v uint32, bigEndian bool) {
	if bigEndian {
		binary.BigEndian.PutUint32(data[off:], v)
	} else {
		binary.LittleEndian.PutUint32(data[off:], v)
	}
}

func get32o(data []byte, off int, bigEndian bool) uint32 {
	if bigEndian {
		return binary.BigEndian.Uint32(data[off:])
	}
	return binary.LittleEndian.Uint32(data[off:])
}

func get32(data []byte, off int) uint32 {
	if data[0] == 0 {
		return binary.BigEndian.Uint32(data[off:])
	}
	return binary.LittleEndian.Uint32(data[off:])
}

func put32(data []byte, off int, v uint32) {
	if data[0] == 0 {
		binary.BigEndian.PutUint32(data[off:], v)
	} else {
		binary.LittleEndian.PutUint32(data[off:], v)
	}
}

// byteOrderAt finds the byte order governing the field at off: the nearest
// preceding geometry header is not tracked, so fields are only forged in
// encodings with a single byte order (the reference encoder's).

func genCase(t *rapid.T) Case {
	mode := rapid.SampledFrom([]string{"ewkb", "wkb-nan", "wkb-err"}).Draw(t, "mode")
	class := rapid.SampledFrom([]string{"forgery", "forgery", "mutant", "mutant", "mutant", "valid", "splice", "atlimit"}).Draw(t, "class")
	if rapid.IntRange(0, 29).Draw(t, "many") == 17 {
		class = "many"
	}
	if rapid.IntRange(0, 39).Draw(t, "tower") == 17 {
		// collection headers nested d deep, every one claiming as many members as its
		// limit allows (or one fewer, or one), the input ending after the innermost
		// header: no count is above its limit, and what the counts announce is d times
		// the limit - the bound allows the limit once
		lim := rapid.SampledFrom([]int{3, 64, 4096, 65536}).Draw(t, "tlimit")
		d := rapid.SampledFrom([]int{2, 10, 40, 100, 256, 300}).Draw(t, "tdepth")
		var bo binary.AppendByteOrder = binary.LittleEndian
		mark := byte(1)
		if rapid.Bool().Draw(t, "txdr") {
			bo, mark = binary.BigEndian, 0
		}
		var data []byte
		for i := 0; i < d; i++ {
			typ := uint32(7)
			if mode == "ewkb" {
				typ |= rapid.SampledFrom([]uint32{0, 0, 0x80000000, 0xC0000000}).Draw(t, "tflags")
			}
			n := rapid.SampledFrom([]int{lim, lim, lim, lim - 1, 1}).Draw(t, "tcount")
			data = append(data, mark)
			data = bo.AppendUint32(data, typ)
			data = bo.AppendUint32(data, uint32(n))
		}
		if rapid.Bool().Draw(t, "tleaf") {
			data = append(data, mark)
			data = bo.AppendUint32(data, 1)
			data = bo.AppendUint64(data, math.Float64bits(1.5))
			data = bo.AppendUint64(data, math.Float64bits(-2.5))
		}
		return Case{Class: "tower", Mode: mode, Limits: [3]int{lim, lim, lim}, Data: data}
	}
	if rapid.IntRange(0, 399).Draw(t, "huge") == 257 {
		stride := rapid.IntRange(2, 4).Draw(t, "hstride")
		ords := rapid.SampledFrom([]int{1 << 17, 1 << 18}).Draw(t, "hords") + rapid.SampledFrom([]int{-stride, 0, stride, 8 * stride, 9000 * stride}).Draw(t, "hd")
		h := &HugeSpec{Polygon: rapid.Bool().Draw(t, "hpoly"), Stride: stride, Coords: (ords + stride - 1) / stride, XDR: rapid.Bool().Draw(t, "hxdr")}
		if rapid.IntRange(0, 3).Draw(t, "htrunc") == 0 {
			h.Trailing = rapid.SampledFrom([]int{1, 8, 1 << 10, 1<<20 + 3}).Draw(t, "htrail")
		}
		return Case{Class: "huge", Mode: mode, Limits: [3]int{1 << 19, 1 << 19, 1 << 19}, Huge: h}
	}
	_, data, fields, typeWords, typeWordBE := genBaseM(t, mode)
	c := Case{Class: class, Mode: mode}
	limitSet := []int{0, 1, 3, 64, 4096}
	switch rapid.IntRange(0, 5).Draw(t, "limitclass") {
	case 0:
		c.Limits = [3]int{-1, -1, -1}
	case 1:
		for i := range c.Limits {
			c.Limits[i] = rapid.SampledFrom([]int{-1, 0, 1, 3, 64, 4096}).Draw(t, "limit")
		}
	default:
		for i := range c.Limits {
			c.Limits[i] = rapid.SampledFrom(limitSet).Draw(t, "limit")
		}
	}
	switch class {
	case "many":
		// an honest encoding with hundreds to a couple of thousand small components, all
		// present and all within the limits: what a decode allocates stays linear in the
		// input, however the components are appended
		n := rapid.SampledFrom([]int{300, 500, 1000, 1500}).Draw(t, "manyn")
		if rapid.Bool().Draw(t, "manyany") {
			n = rapid.IntRange(200, 1500).Draw(t, "manynv")
		}
		kind := rapid.SampledFrom([]string{model.Polygon, model.Polygon, model.MultiLineString, model.MultiPolygon, model.MultiPoint, model.GeometryCollection}).Draw(t, "manykind")
		l := rapid.SampledFrom([]geom.Layout{geom.XY, geom.XY, geom.XYZ, geom.XYZM}).Draw(t, "manylayout")
		pt := func(i, j int) []model.F {
			co := []model.F{model.Of(float64(i)), model.Of(float64(j)), model.Of(float64(i + j)), model.Of(1)}
			return co[:l.Stride()]
		}
		ring := func(i int) [][]model.F {
			if i%7 == 3 {
				return [][]model.F{}
			}
			return [][]model.F{pt(i, 0), pt(i+1, 0), pt(i, 1), pt(i, 0)}
		}
		g := &model.G{Kind: kind, Layout: int(l)}
		manymember := rapid.IntRange(0, 5).Draw(t, "manymember")
		for i := 0; i < n; i++ {
			switch kind {
			case model.Polygon:
				g.C2 = append(g.C2, ring(i))
			case model.MultiLineString:
				g.C2 = append(g.C2, ring(i)[:min(2, len(ring(i)))])
			case model.MultiPolygon:
				g.C3 = append(g.C3, [][][]model.F{ring(i)})
			case model.MultiPoint:
				g.C1 = append(g.C1, pt(i, -i))
			default:
				// members of one sort, or of all sorts in turn: what is counted per point, per
				// member-less collection or per collection closed reaches the hundreds
				var m model.G
				switch sort := manymember; {
				case sort == 0 || sort == 5 && i%5 == 0:
					m = model.G{Kind: model.Point, Layout: int(l), C0: pt(i, i)}
				case sort == 1 || sort == 5 && i%5 == 1:
					m = model.G{Kind: model.GeometryCollection}
				case sort == 2 || sort == 5 && i%5 == 2:
					m = model.G{Kind: model.GeometryCollection, Layout: int(l)}
				case sort == 3 || sort == 5 && i%5 == 3:
					m = model.G{Kind: model.GeometryCollection, Members: []model.G{{Kind: model.Point, Layout: int(l), C0: pt(i, i)}}}
				default:
					m = model.G{Kind: model.LineString, Layout: int(l), C1: [][]model.F{pt(i, 0), pt(i, 1)}}
				}
				g.Members = append(g.Members, m)
			}
		}
		var err error
		data, fields, typeWords, typeWordBE, err = refwkb.EncodeMixed(g, rapid.Bool().Draw(t, "mxdr"), refMode(mode), nil)
		if err != nil {
			panic(err)
		}
		lim := rapid.SampledFrom([]int{-1, n, n + 1, 4096}).Draw(t, "manylimit")
		c.Limits = [3]int{lim, lim, lim}
	case "atlimit":
		// a geometry with long first components whose ring / member / point count is raised
		// to exactly what its limit allows, the input ending where it ended before: nothing
		// is above a limit, so the decode runs into the end of the input - having allocated
		// no more than the bound allows, whatever it reserves ahead
		o := gen.TreeOpts{
			Layouts: gen.Layouts4, Kinds: []string{model.Polygon, model.MultiLineString, model.MultiPolygon, model.MultiPoint, model.LineString},
			Floats: gen.SmallInt, MaxParts: 3, MaxPts: 4, PEmpty: 5, LongPct: 70, LongMax: 300,
		}
		g := gen.Tree(t, o)
		var err error
		data, fields, typeWords, typeWordBE, err = refwkb.EncodeMixed(g, rapid.Bool().Draw(t, "axdr"), refMode(mode), nil)
		if err != nil {
			panic(err)
		}
		for i := range c.Limits {
			c.Limits[i] = rapid.SampledFrom([]int{64, 4096, 4096}).Draw(t, "alimit")
		}
		var cand []refwkb.Field
		for _, f := range fields {
			if f.Level > 0 && int(f.Value) <= c.Limits[f.Level-1] {
				cand = append(cand, f)
			}
		}
		if len(cand) == 0 {
			c.Class = "valid"
			break
		}
		// the outermost count first (it is the one that sees the long first component)
		f := cand[0]
		if rapid.IntRange(0, 3).Draw(t, "afield") == 0 {
			f = rapid.SampledFrom(cand).Draw(t, "afieldany")
		}
		put32o(data, f.Offset, uint32(c.Limits[f.Level-1]), f.BigEndian)
	case "valid":
		// half of the valid encodings are decoded under limits that are exactly the
		// largest count they hold at each level: a count equal to its limit does not
		// exceed it
		if rapid.Bool().Draw(t, "tight") {
			c.Limits = [3]int{0, 0, 0}
			for _, f := range fields {
				if f.Level > 0 && int(f.Value) > c.Limits[f.Level-1] {
					c.Limits[f.Level-1] = int(f.Value)
				}
			}
			c.Class = "valid-tight"
		}
	case "forgery":
		// limits large enough for the base geometry, one field pushed above its limit
		for i := range c.Limits {
			c.Limits[i] = rapid.SampledFrom([]int{8, 64, 4096}).Draw(t, "flimit")
		}
		var cand []refwkb.Field
		for _, f := range fields {
			if f.Level > 0 {
				cand = append(cand, f)
			}
		}
		if len(cand) == 0 {
			c.Class = "valid"
			break
		}
		f := rapid.SampledFrom(cand).Draw(t, "field")
		lim := c.Limits[f.Level-1]
		v := rapid.SampledFrom(append([]uint32{uint32(lim + 1)}, hostile...)).Draw(t, "forged")
		put32o(data, f.Offset, v, f.BigEndian)
		c.FOffset, c.FLevel, c.FValue = f.Offset, f.Level, v
	case "mutant":
		for m := rapid.IntRange(1, 3).Draw(t, "nmut"); m > 0 && len(data) > 0; m-- {
			switch rapid.IntRange(0, 8).Draw(t, "mut") {
			case 7, 8: // change the dimension flags / code or the type id of one (member) header
				if len(typeWords) > 0 {
					hi := rapid.IntRange(0, len(typeWords)-1).Draw(t, "header")
					off := typeWords[hi]
					if off+4 <= len(data) {
						v := get32o(data, off, typeWordBE[hi])
						if mode == "ewkb" {
							v ^= rapid.SampledFrom([]uint32{0x80000000, 0x40000000, 0xC0000000, 0x20000000, 1, 2, 3, 7}).Draw(t, "flip")
						} else {
							v = uint32(int64(v) + rapid.SampledFrom([]int64{1000, -1000, 2000, 1, -1, 3}).Draw(t, "delta"))
						}
						put32o(data, off, v, typeWordBE[hi])
					}
				}
			case 0: // truncate
				data = data[:rapid.IntRange(0, len(data)-1).Draw(t, "cut")]
			case 1: // bit flip
				i := rapid.IntRange(0, len(data)-1).Draw(t, "pos")
				data[i] ^= 1 << uint(rapid.IntRange(0, 7).Draw(t, "bit"))
			case 2: // overwrite a count field with a hostile or small value
				if len(fields) > 0 {
					f := rapid.SampledFrom(fields).Draw(t, "field")
					if f.Offset+4 <= len(data) {
						v := rapid.SampledFrom(append([]uint32{0, 1, 2, 5, 65, 4097}, hostile...)).Draw(t, "v")
						// a count that claims as much as its limit allows (and no more), with
						// nothing behind it: legal as far as the limit goes, so whatever is
						// reserved for it must still be within the bound
						if f.Level > 0 && c.Limits[f.Level-1] > 0 && rapid.Bool().Draw(t, "atlimit") {
							v = uint32(c.Limits[f.Level-1] - rapid.IntRange(0, 1).Draw(t, "below"))
						}
						put32o(data, f.Offset, v, f.BigEndian)
					}
				}
			case 3: // swap the byte-order byte of the top level
				data[0] ^= 1
			case 4: // corrupt the type word
				if len(data) >= 5 {
					v := rapid.SampledFrom([]uint32{0, 8, 15, 16, 17, 1001, 2003, 3007, 4001, 0x80000001, 0x40000002, 0xC0000003, 0x20000001, 0xE0000007, 0x10000001}).Draw(t, "type")
					put32(data, 1, v)
				}
			case 5: // random byte
				data[rapid.IntRange(0, len(data)-1).Draw(t, "pos")] = rapid.Byte().Draw(t, "b")
			default: // duplicate a slice
				i := rapid.IntRange(0, len(data)-1).Draw(t, "from")
				j := rapid.IntRange(i, len(data)).Draw(t, "to")
				data = append(data[:j:j], data[i:]...)
			}
		}
	case "splice":
		_, other, _ := genBase(t, mode)
		i := rapid.IntRange(0, len(data)).Draw(t, "i")
		j := rapid.IntRange(0, len(other)).Draw(t, "j")
		data = append(data[:i:i], other[j:]...)
	}
	c.Data = data
	return c
}

type decoder struct {
	unmarshal func([]byte) (geom.T, error)
	marshal   func(geom.T, binary.ByteOrder) ([]byte, error)
	hexDec    func(string) (geom.T, error)
}

func decoderFor(mode string) decoder {
	switch mode {
	case "ewkb":
		return decoder{ewkb.Unmarshal, ewkb.Marshal, ewkbhex.Decode}
	case "wkb-nan":
		opt := wkbcommon.WKBOptionEmptyPointHandling(wkbcommon.EmptyPointHandlingNaN)
		return decoder{
			func(b []byte) (geom.T, error) { return wkb.Unmarshal(b, opt) },
			func(g geom.T, bo binary.ByteOrder) ([]byte, error) { return wkb.Marshal(g, bo, opt) },
			func(s string) (geom.T, error) { return wkbhex.Decode(s, opt) },
		}
	}
	return decoder{
		func(b []byte) (geom.T, error) { return wkb.Unmarshal(b) },
		func(g geom.T, bo binary.ByteOrder) ([]byte, error) { return wkb.Marshal(g, bo) },
		func(s string) (geom.T, error) { return wkbhex.Decode(s) },
	}
}

// executable reports whether the case may be run: with a level's limit
// disabled, every count field of that level must be backed by input bytes.
func executable(c Case) bool {
	w := refwkb.Walk(c.Data, refMode(c.Mode))
	for i, f := range w.Fields {
		if f.Level == 0 {
			continue
		}
		if c.Limits[f.Level-1] < 0 && int64(f.Value) > int64(w.Remain[i]) {
			return false
		}
	}
	return true
}

func sumLimits(l [3]int) int {
	s := 0
	for _, v := range l {
		if v > 0 {
			s += v
		}
	}
	return s
}

func prop(c Case) error {
	c = c.full()
	if len(c.Data) > 1<<17 && c.Huge == nil {
		return nil
	}
	// the input is a window of a longer buffer (a row of a result set, a record of a
	// file), at one of the eight offsets relative to a machine word, with other bytes
	// behind it: where its numbers fall in memory is not the sender's concern
	{
		off := (len(c.Data)*7 + int(c.Limits[0]&3)) % 8
		buf := make([]byte, off+len(c.Data)+9)
		for i := range buf {
			buf[i] = 0xA5
		}
		copy(buf[off:], c.Data)
		c.Data = buf[off : off+len(c.Data) : off+len(c.Data)]
	}
	if !executable(c) {
		ev.Default.Count("skipped_unbacked_count_with_limit_disabled", 1)
		return nil
	}
	old := wkbcommon.MaxGeometryElements
	defer func() { wkbcommon.MaxGeometryElements = old }()
	wkbcommon.MaxGeometryElements = [4]int{0, c.Limits[0], c.Limits[1], c.Limits[2]}
	d := decoderFor(c.Mode)

	var g geom.T
	var derr error
	var alloc uint64
	if err := run.Bounded(func() error {
		var m0, m1 runtime.MemStats
		runtime.ReadMemStats(&m0)
		g, derr = d.unmarshal(c.Data)
		runtime.ReadMemStats(&m1)
		alloc = m1.TotalAlloc - m0.TotalAlloc
		return nil
	}); err != nil {
		return fmt.Errorf("Unmarshal: %v", err)
	}
	bound := uint64(4096 + 128*len(c.Data) + 256*sumLimits(c.Limits))
	ev.Default.MaxOf("alloc_over_bound", float64(alloc)/float64(bound))
	if alloc > bound {
		return fmt.Errorf("decode of %d bytes with limits %v allocated %d bytes > bound %d (error: %v)", len(c.Data), c.Limits, alloc, bound, derr)
	}
	if derr == nil && g == nil {
		return fmt.Errorf("Unmarshal returned nil, nil")
	}
	if derr != nil {
		if derr.Error() == "" {
			return fmt.Errorf("empty error text")
		}
	}
	// forged count: the first count field (in encoding order) above its limit decides
	w := refwkb.Walk(c.Data, refMode(c.Mode))
	exceeded := false
	if c.Class == "forgery" || c.Class == "valid" || c.Class == "valid-tight" {
		for _, f := range w.Fields {
			if f.Level == 0 || c.Limits[f.Level-1] < 0 || int64(f.Value) <= int64(c.Limits[f.Level-1]) {
				continue
			}
			exceeded = true
			var tl wkbcommon.ErrGeometryTooLarge
			if !errors.As(derr, &tl) {
				return fmt.Errorf("count field at offset %d (level %d) = %d exceeds limit %d but decode returned %v", f.Offset, f.Level, f.Value, c.Limits[f.Level-1], derr)
			}
			if tl.Level != f.Level || tl.N != int(f.Value) || tl.Limit != c.Limits[f.Level-1] {
				return fmt.Errorf("ErrGeometryTooLarge%+v, want {Level:%d N:%d Limit:%d}", tl, f.Level, f.Value, c.Limits[f.Level-1])
			}
			break
		}
	}
	if (c.Class == "valid" || c.Class == "valid-tight") && derr != nil {
		var tl wkbcommon.ErrGeometryTooLarge
		if !errors.As(derr, &tl) {
			return fmt.Errorf("valid encoding rejected: %v", derr)
		}
		if !exceeded {
			return fmt.Errorf("valid encoding in which no count exceeds its limit (limits %v) rejected: %v", c.Limits, derr)
		}
	}
	// wrappers agree on error / non-error
	if len(c.Data) > 0 {
		hg, herr := d.hexDec(hex.EncodeToString(c.Data))
		if (herr == nil) != (derr == nil) {
			return fmt.Errorf("hex Decode error %v, Unmarshal error %v", herr, derr)
		}
		if herr == nil {
			if err := sameAs("hex Decode vs Unmarshal", g, hg); err != nil {
				return err
			}
		}
		if err := scanAgrees(c, g, derr); err != nil {
			return err
		}
	}
	if derr != nil {
		return nil
	}
	if err := model.WellFormed(g); err != nil {
		return fmt.Errorf("decoded geometry not well formed: %v", err)
	}
	// canonical: re-encode and decode again
	var bo binary.ByteOrder = binary.LittleEndian
	if c.Data[0] == 0 {
		bo = binary.BigEndian
	}
	re, err := d.marshal(g, bo)
	if err != nil {
		return fmt.Errorf("re-encoding a decoded geometry failed: %v", err)
	}
	// the re-encoding is kept while other geometries are encoded (a caller re-encodes
	// many rows before it looks at any of them again)
	reKept := append([]byte(nil), re...)
	for _, o := range []geom.T{geom.NewPointFlat(geom.XY, []float64{-7, 9}), geom.NewLineStringFlat(geom.XYZ, []float64{1, 2, 3, 4, 5, 6, 7, 8, 9})} {
		if _, err := d.marshal(o, bo); err != nil {
			return fmt.Errorf("Marshal of a plain geometry: %v", err)
		}
	}
	if !bytes.Equal(re, reKept) {
		return fmt.Errorf("the re-encoding returned by Marshal changed when other geometries were marshalled afterwards:\n now % x\n was % x", re, reKept)
	}
	// the decoded geometry is the caller's: it stays what it is while a sibling (same
	// structure, EMPTY where it is EMPTY, other ordinates and SRIDs) is decoded
	if mg, err := model.FromGeom(g); err == nil {
		sib := mg.Mapped(func(x float64) float64 { return 2*x + 1 })
		var bump func(m *model.G)
		bump = func(m *model.G) {
			m.SRID += 1000
			for i := range m.Members {
				bump(&m.Members[i])
			}
		}
		bump(sib)
		if st, err := model.Build(sib, model.RouteFlat); err == nil {
			if sb, err := d.marshal(st, bo); err == nil {
				for i := 0; i < 2; i++ {
					_, _ = d.unmarshal(sb)
					_, _ = d.hexDec(hex.EncodeToString(sb))
				}
			}
		}
		now, err := model.FromGeom(g)
		if err != nil {
			return fmt.Errorf("the decoded geometry, looked at again after a sibling was decoded: %v", err)
		}
		if df := model.Diff(mg, now, true); df != "" {
			return fmt.Errorf("the decoded geometry changed when a sibling was decoded afterwards: %s", df)
		}
	}
	// the re-encoding may hold more elements per level than the (drawn) limits only
	// if the input did: decode it under the same limits
	g2, err := d.unmarshal(re)
	if err != nil {
		return fmt.Errorf("decoding the re-encoding failed: %v", err)
	}
	if err := sameAs("decode(encode(decode(x)))", g, g2); err != nil {
		return err
	}
	// the decoded geometry is the caller's to overwrite: the same input decodes as before
	before, err := model.FromGeom(g)
	if err != nil {
		return err
	}
	model.Spoil(g)
	model.Spoil(g2)
	g3, err := d.unmarshal(c.Data)
	if err != nil {
		return fmt.Errorf("the same input, decoded again after the caller overwrote the earlier result: %v", err)
	}
	after, err := model.FromGeom(g3)
	if err != nil {
		return fmt.Errorf("the same input, decoded again after the caller overwrote the earlier result: %v", err)
	}
	if df := model.Diff(before, after, true); df != "" {
		return fmt.Errorf("the same input decodes differently after the caller overwrote the geometry decoded from it before: %s", df)
	}
	return nil
}

func sameAs(what string, a, b geom.T) error {
	ma, err := model.FromGeom(a)
	if err != nil {
		return fmt.Errorf("%s: %v", what, err)
	}
	mb, err := model.FromGeom(b)
	if err != nil {
		return fmt.Errorf("%s: %v", what, err)
	}
	if d := model.Diff(ma, mb, true); d != "" {
		return fmt.Errorf("%s: %s", what, d)
	}
	return nil
}

func scanAgrees(c Case, g geom.T, derr error) error {
	type scanner interface{ Scan(any) error }
	var ws map[string]scanner
	src := append([]byte{}, c.Data...)
	if c.Mode == "ewkb" {
		ws = map[string]scanner{model.Point: &ewkb.Point{}, model.LineString: &ewkb.LineString{}, model.Polygon: &ewkb.Polygon{}, model.MultiPoint: &ewkb.MultiPoint{}, model.MultiLineString: &ewkb.MultiLineString{}, model.MultiPolygon: &ewkb.MultiPolygon{}, model.GeometryCollection: &ewkb.GeometryCollection{}}
	} else {
		if c.Mode == "wkb-nan" {
			// the wkb wrappers decode in the default mode: compare with that
			g, derr = wkb.Unmarshal(c.Data)
		}
		ws = map[string]scanner{model.Point: &wkb.Point{}, model.LineString: &wkb.LineString{}, model.Polygon: &wkb.Polygon{}, model.MultiPoint: &wkb.MultiPoint{}, model.MultiLineString: &wkb.MultiLineString{}, model.MultiPolygon: &wkb.MultiPolygon{}, model.GeometryCollection: &wkb.GeometryCollection{}}
		var any wkb.Geom
		if err := any.Scan(src); (err == nil) != (derr == nil) {
			return fmt.Errorf("wkb.Geom.Scan error %v, Unmarshal error %v", err, derr)
		}
	}
	kind := ""
	if derr == nil {
		kind = model.KindOf(g)
	}
	for _, k := range []string{model.Point, model.LineString, model.Polygon, model.MultiPoint, model.MultiLineString, model.MultiPolygon, model.GeometryCollection} {
		w := ws[k]
		err := run.Safe(func() error { return w.Scan(src) })
		if k == kind {
			if err != nil {
				return fmt.Errorf("Scan into the %s wrapper failed (%v) although Unmarshal succeeded", k, err)
			}
		} else if err == nil {
			return fmt.Errorf("Scan into the %s wrapper succeeded; Unmarshal: kind %q error %v", k, kind, derr)
		} else if err.Error() == "" {
			return fmt.Errorf("empty error text from the %s wrapper", k)
		}
	}
	return nil
}

func classify(c Case) ([]string, bool) {
	c = c.full()
	w := refwkb.Walk(c.Data, refMode(c.Mode))
	cl := []string{"class:" + c.Class, "mode:" + c.Mode}
	if w.OK {
		cl = append(cl, "walks-to-end")
	}
	if c.Limits == [3]int{-1, -1, -1} {
		cl = append(cl, "limits-disabled")
	}
	if !executable(c) {
		cl = append(cl, "skipped")
		return cl, false
	}
	return cl, w.PastType || c.Class == "forgery"
}

var spec = run.Spec[Case]{ID: "C04", Name: "decode", Gen: genCase, Prop: prop, Classify: classify}

func TestPropDecode(t *testing.T) { run.Generated(t, spec) }
func TestRegress(t *testing.T)    { run.Regress(t, spec) }
func TestReplay(t *testing.T)     { run.ReplayOne(t, spec) }

func fuzzSeeds(f *testing.F, mode string) {
	pt := &model.G{Kind: model.Point, Layout: 2, C0: model.Bits([]float64{1, 2, 3})}
	poly := &model.G{Kind: model.Polygon, Layout: 1, C2: [][][]model.F{{model.Bits([]float64{0, 0}), model.Bits([]float64{1, 0}), model.Bits([]float64{1, 1}), model.Bits([]float64{0, 0})}}}
	mp := &model.G{Kind: model.MultiPoint, Layout: 4, C1: [][]model.F{model.Bits([]float64{1, 2, 3, 4}), nil}}
	mpoly := &model.G{Kind: model.MultiPolygon, Layout: 3, SRID: 4326, C3: [][][][]model.F{{}, {{model.Bits([]float64{0, 0, 1}), model.Bits([]float64{1, 0, 1}), model.Bits([]float64{1, 1, 1}), model.Bits([]float64{0, 0, 1})}}}}
	gc := &model.G{Kind: model.GeometryCollection, SRID: 1 << 31, Members: []model.G{*pt, *poly, {Kind: model.GeometryCollection, Layout: 3}, *mp}}
	for _, g := range []*model.G{pt, poly, mp, mpoly, gc} {
		for _, xdr := range []bool{false, true} {
			b, fields, err := refwkb.Encode(g, xdr, refMode(mode))
			if err != nil {
				continue
			}
			f.Add(b)
			for _, fl := range fields {
				for _, v := range []uint32{65, 1 << 26, 1<<32 - 1} {
					m := append([]byte{}, b...)
					put32(m, fl.Offset, v)
					f.Add(m)
				}
			}
		}
	}
}

func fuzzTarget(f *testing.F, mode string) {
	fuzzSeeds(f, mode)
	f.Fuzz(func(t *testing.T, data []byte) {
		c := Case{Class: "fuzz", Mode: mode, Data: data, Limits: [3]int{64, 64, 64}}
		if err := run.Safe(func() error { return prop(c) }); err != nil {
			run.SaveReplay("C04", "decode", c, err.Error())
			t.Fatal(err)
		}
	})
}

func FuzzWKB(f *testing.F)  { fuzzTarget(f, "wkb-nan") }
func FuzzEWKB(f *testing.F) { fuzzTarget(f, "ewkb") }
func FuzzHex(f *testing.F) {
	f.Add("0101000000000000000000f03f0000000000000040")
	f.Add("0000000001")
	f.Add("01070000000100000001010000")
	f.Fuzz(func(t *testing.T, s string) {
		if len(s) > 1<<16 {
			return
		}
		old := wkbcommon.MaxGeometryElements
		defer func() { wkbcommon.MaxGeometryElements = old }()
		wkbcommon.MaxGeometryElements = [4]int{0, 64, 64, 64}
		err := run.Safe(func() error {
			for _, nd := range []struct {
				name string
				dec  func(string) (geom.T, error)
			}{{"wkbhex", func(s string) (geom.T, error) { return wkbhex.Decode(s) }}, {"ewkbhex", ewkbhex.Decode}} {
				name, dec := nd.name, nd.dec
				g, err := dec(s)
				if err != nil {
					continue
				}
				if err := model.WellFormed(g); err != nil {
					return fmt.Errorf("%s.Decode: %v", name, err)
				}
				raw, herr := hex.DecodeString(s)
				if herr != nil {
					return fmt.Errorf("%s.Decode accepted invalid hex %q", name, s)
				}
				_ = raw
			}
			return nil
		})
		if err != nil {
			run.SaveReplay("C04", "hex", s, err.Error())
			t.Fatal(err)
		}
	})
}

var _ = bytes.Equal
