// C17: queries, encoders and decoders are pure and safe to call concurrently.
package c17

import (
	"bytes"
	"encoding/binary"
	"encoding/hex"
	"encoding/json"
	"encoding/xml"
	"errors"
	"fmt"
	"github.com/twpayne/go-geom/sorting"
	"math"
	"os"
	"path/filepath"
	"sort"
	"strings"
	"sync"
	"testing"

	geom "github.com/twpayne/go-geom"
	"github.com/twpayne/go-geom/bigxy"
	"github.com/twpayne/go-geom/encoding/ewkb"
	"github.com/twpayne/go-geom/encoding/ewkbhex"
	"github.com/twpayne/go-geom/encoding/geojson"
	"github.com/twpayne/go-geom/encoding/igc"
	"github.com/twpayne/go-geom/encoding/kml"
	"github.com/twpayne/go-geom/encoding/wkb"
	"github.com/twpayne/go-geom/encoding/wkbcommon"
	"github.com/twpayne/go-geom/encoding/wkbhex"
	"github.com/twpayne/go-geom/encoding/wkt"
	"github.com/twpayne/go-geom/transform"
	"github.com/twpayne/go-geom/xy"
	"github.com/twpayne/go-geom/xy/lineintersector"
	"github.com/twpayne/go-geom/xyz"
	"pgregory.net/rapid"

	"verifharness/internal/gen"
	"verifharness/internal/model"
	"verifharness/internal/refwkb"
	"verifharness/internal/refwkt"
	"verifharness/internal/run"
)

func TestMain(m *testing.M) { run.Main(m) }

// Call is one call of the mix: a function of the inventory and pool indexes.
type Call struct {
	Fn string `json:"fn"`
	A  int    `json:"a"`
	B  int    `json:"b"`
}

// Case is a pool of geometries and a call mix.
type Case struct {
	Pool       []model.G `json:"pool"`
	Calls      []Call    `json:"calls"`
	Goroutines int       `json:"goroutines"`
}

// ---- pool -------------------------------------------------------------------

type item struct {
	g    *model.G
	t    geom.T
	flat []float64 // FlatCoords of a non-collection (aliases t's storage)
	wkb  []byte
	ewkb []byte
	wkt  string
	json []byte
	igc  []byte
	// the same encodings as text held in byte slices (what a database driver or a file
	// read hands over): hex of the EWKB and the WKT
	hexb []byte
	wktb []byte
}

func genPoolGeom(t *rapid.T) *model.G {
	switch rapid.IntRange(0, 6).Draw(t, "shape") {
	case 0: // many points: exercises the hull's >50-point path (collinear or scattered)
		n := rapid.IntRange(51, 90).Draw(t, "n")
		collinear := rapid.Bool().Draw(t, "collinear")
		g := &model.G{Kind: model.LineString, Layout: int(rapid.SampledFrom([]geom.Layout{geom.XY, geom.XYZ}).Draw(t, "layout"))}
		for i := 0; i < n; i++ {
			x, y := float64(rapid.IntRange(-50, 50).Draw(t, "x")), float64(rapid.IntRange(-50, 50).Draw(t, "y"))
			if collinear {
				x, y = 0, float64(n-i)
			}
			c := []float64{x, y}
			if g.Layout == int(geom.XYZ) {
				c = append(c, float64(i))
			}
			g.C1 = append(g.C1, model.Bits(c))
		}
		return g
	case 2: // a polygon (or two) without area: the centroid falls back to the rings' lines
		g := &model.G{Kind: model.MultiPolygon, Layout: int(geom.XY)}
		np := rapid.IntRange(1, 2).Draw(t, "np")
		for i := 0; i < np; i++ {
			ax, ay := float64(rapid.IntRange(-20, 20).Draw(t, "ax")), float64(rapid.IntRange(-20, 20).Draw(t, "ay"))
			dx, dy := float64(rapid.IntRange(1, 5).Draw(t, "dx")), float64(rapid.IntRange(-5, 5).Draw(t, "dy"))
			k := float64(rapid.IntRange(2, 6).Draw(t, "k"))
			ring := [][]model.F{model.Bits([]float64{ax, ay}), model.Bits([]float64{ax + dx, ay + dy}), model.Bits([]float64{ax + k*dx, ay + k*dy}), model.Bits([]float64{ax, ay})}
			g.C3 = append(g.C3, [][][]model.F{ring})
		}
		if np == 1 && rapid.Bool().Draw(t, "asPolygon") {
			g.Kind, g.C2, g.C3 = model.Polygon, g.C3[0], nil
		}
		return g
	case 3: // a polygon with holes whose rings close in x,y(,z) only: the measure M of the closing
		// vertex differs from the first one (a measure along the ring naturally does). Ring
		// functions receive sub-slices of the polygon's array: anything written past the
		// ring's end lands in the next ring.
		l := rapid.SampledFrom([]geom.Layout{geom.XYM, geom.XYZM}).Draw(t, "layout")
		g := &model.G{Kind: model.Polygon, Layout: int(l)}
		nr := rapid.IntRange(2, 3).Draw(t, "nr")
		for r := 0; r < nr; r++ {
			cx, cy := float64(rapid.IntRange(-9, 9).Draw(t, "cx")), float64(rapid.IntRange(-9, 9).Draw(t, "cy"))
			w, h := float64(rapid.IntRange(1, 6).Draw(t, "w")), float64(rapid.IntRange(1, 6).Draw(t, "h"))
			xs := [][2]float64{{cx, cy}, {cx + w, cy}, {cx + w, cy + h}, {cx, cy + h}, {cx, cy}}
			var ring [][]model.F
			for i, q := range xs {
				c := []float64{q[0], q[1]}
				if l == geom.XYZM {
					c = append(c, 7)
				}
				c = append(c, float64(10*r+i)) // M: 0,1,2,3,4 - the closing vertex has its own
				ring = append(ring, model.Bits(c))
			}
			g.C2 = append(g.C2, ring)
		}
		return g
	case 1: // a flight track for the IGC encoder
		n := rapid.IntRange(0, 6).Draw(t, "n")
		g := &model.G{Kind: model.LineString, Layout: 5}
		// half of the tracks leave the range that a B record can represent (the
		// encoder clamps those: it must do so without touching the argument)
		lonMax, latMax := 179, 89
		if rapid.Bool().Draw(t, "outOfRange") {
			lonMax, latMax = 400, 200
		}
		for i := 0; i < n; i++ {
			g.C1 = append(g.C1, model.Bits([]float64{float64(rapid.IntRange(-lonMax, lonMax).Draw(t, "lon")), float64(rapid.IntRange(-latMax, latMax).Draw(t, "lat")), float64(rapid.IntRange(0, 9000).Draw(t, "alt")), float64(1000000000 + 60*i), float64(i)}))
		}
		return g
	}
	return gen.Tree(t, gen.TreeOpts{
		// (zeros of either sign among the ordinates: -0 and 0 are equal and not the same)
		Layouts: gen.Layouts4, Floats: gen.SmallInt | gen.Moderate | gen.Zeros, MaxDepth: 2, MaxParts: 3, MaxPts: 5,
		Valid: true, FixEmptyCollections: true, PEmpty: 15, SRID: gen.SRIDs,
	})
}

var inventory = []string{
	"Area", "Length", "Bounds", "Coords", "Empty", "Clone", "Parts", "BoundsOverlap", "BoundsPolygon",
	"xy.Orientation", "xy.PointInRing", "xy.IsOnLine", "xy.RingCCW", "xy.SignedArea", "xy.Distances", "xy.ConvexHull", "xy.ConvexHullFlat", "xy.Centroid", "xy.Simplify", "xy.Angles", "xy.Intersect", "xy.IntersectNonRobust",
	"xyz.Distances", "bigxy.Orientation", "bigxy.Intersection", "transform.UniqueCoords",
	"wkb.Marshal", "ewkb.Marshal", "wkbhex.Encode", "ewkbhex.Encode", "wkt.Marshal", "wkt.MarshalDigits", "geojson.Marshal", "geojson.MarshalBBox", "geojson.Feature", "igc.Encode", "kml.Encode",
	"wkb.Unmarshal", "ewkb.Unmarshal", "ewkb.Scan", "wkt.Unmarshal", "geojson.Unmarshal", "igc.Read",
	"xy.Misc", "xy.CentroidsWithExtras", "wkb.WriteRead", "wkb.WriteFailing", "wkb.WriteFailing", "hex.Decode", "geojson.FeatureCollection", "decode.CrossFormat", "decode.CrossFormat", "decode.Truncated", "decode.Truncated", "exact.Burst", "exact.Burst",
	"geojson.MarshalSharedOpts", "geojson.MarshalSharedOpts", "wkt.MarshalSharedOpts", "wkb.UnmarshalSharedOpts", "geojson.MarshalSharedSlice", "geojson.MarshalSharedSlice",
	"ls.Interpolate", "ls.Interpolate", "ls.Interpolate", "decode.Owned", "decode.Owned", "decode.Owned",
}

// failingWriter accepts left more bytes and fails every Write after that.
type failingWriter struct{ left, n int }

func (w *failingWriter) Write(p []byte) (int, error) {
	if len(p) > w.left {
		k := w.left
		w.left = 0
		w.n += k
		return k, errors.New("writer gave up")
	}
	w.left -= len(p)
	w.n += len(p)
	return len(p), nil
}

// Option values are plain values that callers naturally create once and pass to
// many calls: these are shared by all goroutines of a case.
var (
	sharedGeoJSONDigits []geojson.EncodeGeometryOption
	sharedGeoJSONBBox   geojson.EncodeGeometryOption
	sharedWKTDigits     []wkt.EncodeOption
	// a whole option slice kept by the caller and passed as opts... to many calls
	sharedGeoJSONSlices [][]geojson.EncodeGeometryOption
	sharedWKBNaN        wkbcommon.WKBOption
)

// resetShared creates the shared option values afresh: every evaluation of the
// property starts from the same state (a case must not inherit damage done by an
// earlier one).
func resetShared() {
	sharedGeoJSONDigits = []geojson.EncodeGeometryOption{geojson.EncodeGeometryWithMaxDecimalDigits(2), geojson.EncodeGeometryWithMaxDecimalDigits(5)}
	sharedGeoJSONBBox = geojson.EncodeGeometryWithBBox()
	sharedWKTDigits = []wkt.EncodeOption{wkt.EncodeOptionWithMaxDecimalDigits(1), wkt.EncodeOptionWithMaxDecimalDigits(4)}
	sharedGeoJSONSlices = [][]geojson.EncodeGeometryOption{
		{geojson.EncodeGeometryWithBBox(), geojson.EncodeGeometryWithMaxDecimalDigits(3)},
		{geojson.EncodeGeometryWithMaxDecimalDigits(1), geojson.EncodeGeometryWithBBox()},
	}
	sharedWKBNaN = wkbcommon.WKBOptionEmptyPointHandling(wkbcommon.EmptyPointHandlingNaN)
}

func genCase(t *rapid.T) Case {
	c := Case{Goroutines: rapid.IntRange(4, 16).Draw(t, "goroutines")}
	np := rapid.IntRange(3, 8).Draw(t, "npool")
	// items 0 and 1: two zig-zag lines that cross each other properly many times,
	// so that the proper-intersection and hull paths run on shared coordinates
	for k := 0; k < 2; k++ {
		g := &model.G{Kind: model.LineString, Layout: int(rapid.SampledFrom([]geom.Layout{geom.XY, geom.XYZ}).Draw(t, "zlayout"))}
		n := rapid.IntRange(4, 12).Draw(t, "zn")
		for i := 0; i < n; i++ {
			x, y := float64(3*i+k)+0.5*float64(k), float64(7*((i+k)%2))+float64(rapid.IntRange(0, 2).Draw(t, "zy"))+0.25
			if k == 1 {
				x, y = y, x
			}
			c2 := []float64{x, y}
			if g.Layout == int(geom.XYZ) {
				c2 = append(c2, float64(i))
			}
			g.C1 = append(g.C1, model.Bits(c2))
		}
		c.Pool = append(c.Pool, *g)
	}
	// item 2: a track - an XYM line whose measure never decreases and stands still
	// over runs of vertices (repeated timestamps), what Interpolate searches in
	{
		g := &model.G{Kind: model.LineString, Layout: int(geom.XYM)}
		m := float64(rapid.IntRange(-5, 5).Draw(t, "tm0"))
		for i, n := 0, rapid.IntRange(2, 14).Draw(t, "tn"); i < n; i++ {
			if rapid.IntRange(0, 2).Draw(t, "tstep") != 0 {
				m += float64(rapid.IntRange(1, 3).Draw(t, "tdm")) * 2.5
			}
			g.C1 = append(g.C1, model.Bits([]float64{float64(i), float64(i % 3), m}))
		}
		c.Pool = append(c.Pool, *g)
	}
	for i := 3; i < np; i++ {
		// one case in three holds a long line as its last item: 512 to 700 vertices
		// (code that stages, pools or batches works differently from some size on, and
		// none of the other items has more than a few dozen ordinates)
		if i == np-1 && rapid.IntRange(0, 2).Draw(t, "long") == 0 {
			g := &model.G{Kind: model.LineString, Layout: int(rapid.SampledFrom([]geom.Layout{geom.XY, geom.XYZ}).Draw(t, "longlayout"))}
			d := float64(rapid.IntRange(-8, 8).Draw(t, "longd"))
			for j, n := 0, rapid.IntRange(512, 700).Draw(t, "longn"); j < n; j++ {
				c2 := []float64{float64(j)*0.5 + d, float64((j*7)%13) + 0.25}
				if g.Layout == int(geom.XYZ) {
					c2 = append(c2, float64(j%5))
				}
				g.C1 = append(g.C1, model.Bits(c2))
			}
			c.Pool = append(c.Pool, *g)
			continue
		}
		c.Pool = append(c.Pool, *genPoolGeom(t))
	}
	nc := rapid.IntRange(60, 240).Draw(t, "ncalls")
	// one mix in eight is a burst: 260-420 calls of two functions only (a counter or a
	// stamp inside pooled state wraps after 256 uses of the same thing, not of anything)
	var burst []string
	if rapid.IntRange(0, 7).Draw(t, "burst") == 0 {
		burst = []string{rapid.SampledFrom(inventory).Draw(t, "burstfn1"), rapid.SampledFrom(inventory).Draw(t, "burstfn2")}
		nc = rapid.IntRange(260, 420).Draw(t, "nburst")
	}
	for i := 0; i < nc; i++ {
		if burst != nil {
			c.Calls = append(c.Calls, Call{
				Fn: burst[rapid.IntRange(0, 1).Draw(t, "bfn")],
				A:  rapid.IntRange(0, np-1).Draw(t, "a"),
				B:  rapid.IntRange(0, np-1).Draw(t, "b"),
			})
			continue
		}
		c.Calls = append(c.Calls, Call{
			Fn: rapid.SampledFrom(inventory).Draw(t, "fn"),
			A:  rapid.IntRange(0, np-1).Draw(t, "a"),
			B:  rapid.IntRange(0, np-1).Draw(t, "b"),
		})
	}
	return c
}

func buildPool(c Case) ([]*item, error) {
	var pool []*item
	for i := range c.Pool {
		g := &c.Pool[i]
		t, err := model.Build(g, model.RouteSetCoords)
		if err != nil {
			return nil, err
		}
		// members of a collection carry SRIDs of their own (no decoder produces that, a
		// caller who assembles a collection from stored geometries does)
		var stamp func(t geom.T, n *int)
		stamp = func(t geom.T, n *int) {
			if gc, ok := t.(*geom.GeometryCollection); ok {
				for _, m := range gc.Geoms() {
					*n++
					if *n%2 == 1 {
						_, _ = geom.SetSRID(m, 3000+*n)
					}
					stamp(m, n)
				}
			}
		}
		n := i
		stamp(t, &n)
		it := &item{g: g, t: t}
		if !g.IsCollection() {
			it.flat = t.FlatCoords()
		}
		// the encodings are parts of longer buffers (a row of a result set, a record of
		// a file), at offsets 0, 3, 7, 1 and 4 in turn: where the ordinates fall relative
		// to a machine word is not the caller's concern
		inBuffer := func(b []byte, k int) []byte {
			off := []int{0, 3, 7, 1, 4}[k%5]
			buf := make([]byte, off+len(b)+5)
			copy(buf[off:], b)
			return buf[off : off+len(b) : off+len(b)]
		}
		if b, _, err := refwkb.Encode(g, i%2 == 1, refwkb.ISO); err == nil {
			it.wkb = inBuffer(b, i)
		}
		if b, _, err := refwkb.Encode(g, i%2 == 0, refwkb.EWKB); err == nil {
			it.ewkb = inBuffer(b, i+2)
		}
		if s, err := refwkt.Write(g, nil); err == nil {
			it.wkt = s
			it.wktb = []byte(s)
		}
		if it.ewkb != nil {
			it.hexb = []byte(hex.EncodeToString(it.ewkb))
			if i%3 == 0 {
				it.hexb = bytes.ToUpper(it.hexb)
			}
		}
		// the inputs of the decoders are rendered from a second, private object:
		// nothing may touch the pool object before the first snapshot is taken
		t2, err := model.Build(g, model.RouteSetCoords)
		if err != nil {
			return nil, err
		}
		if g.Layout != 5 {
			if b, err := geojson.Marshal(t2); err == nil {
				it.json = b
				// what files carry in front of a document: a byte-order mark, white space
				switch i % 3 {
				case 1:
					it.json = append([]byte(" \n\t"), b...)
				case 2:
					it.json = append([]byte("\xef\xbb\xbf"), b...)
				}
			}
		} else if ls, ok := t2.(*geom.LineString); ok {
			var buf bytes.Buffer
			if err := igc.NewEncoder(&buf, igc.A("XXX")).Encode(ls); err == nil {
				it.igc = buf.Bytes()
			}
		}
		pool = append(pool, it)
	}
	return pool, nil
}

// ---- canonical results ------------------------------------------------------

func fl(v float64) string { return fmt.Sprintf("%x", math.Float64bits(v)) }

func fls(vs []float64) string {
	var sb strings.Builder
	for _, v := range vs {
		sb.WriteString(fl(v))
		sb.WriteByte(',')
	}
	return sb.String()
}

func canonGeom(t geom.T, err error) string {
	if err != nil {
		return "err:" + err.Error()
	}
	if t == nil {
		return "nil"
	}
	m, merr := model.FromGeom(t)
	if merr != nil {
		return "illformed:" + merr.Error()
	}
	b, _ := json.Marshal(m)
	return string(b)
}

func coordsAt(flat []float64, stride, i int) geom.Coord {
	n := len(flat) / stride
	if n == 0 {
		return nil
	}
	i %= n
	return geom.Coord(flat[i*stride : (i+1)*stride])
}

// exec runs one call and returns a canonical rendering of its result. Calls
// whose documented preconditions the drawn arguments do not meet return "n/a".
func exec(pool []*item, c Call) string {
	r, _ := execKeep(pool, c)
	return r
}

// execKeep is exec that also returns a function re-rendering the retained
// result object (nil when the result is a plain value): a result must not
// change after it was returned (e.g. because it aliases a shared buffer that a
// later call overwrites).
func execKeep(pool []*item, c Call) (string, func() string) {
	var keep func() string
	geomRes := func(t geom.T, err error) string {
		if err == nil && t != nil {
			keep = func() string { return canonGeom(t, nil) }
		}
		return canonGeom(t, err)
	}
	bytesRes := func(b []byte, err error) string {
		if err == nil {
			keep = func() string { return fmt.Sprintf("%x %v", b, nil) }
		}
		return fmt.Sprintf("%x %v", b, err)
	}
	textRes := func(b []byte, err error) string {
		if err == nil {
			keep = func() string { return fmt.Sprint(string(b), nil) }
		}
		return fmt.Sprint(string(b), err)
	}
	return execInner(pool, c, geomRes, bytesRes, textRes), keep
}

func execInner(pool []*item, c Call, geomRes func(geom.T, error) string, bytesRes, textRes func([]byte, error) string) string {
	a, b := pool[c.A%len(pool)], pool[c.B%len(pool)]
	t := a.t
	stride := t.Stride()
	switch c.Fn {
	case "Area":
		if m, ok := t.(interface{ Area() float64 }); ok {
			return fl(m.Area())
		}
	case "Length":
		if m, ok := t.(interface{ Length() float64 }); ok {
			return fl(m.Length())
		}
	case "Bounds":
		bd := t.Bounds()
		s := bd.Layout().String()
		for i := 0; i < bd.Layout().Stride(); i++ {
			s += fl(bd.Min(i)) + ":" + fl(bd.Max(i)) + ";"
		}
		return s + fmt.Sprint(bd.IsEmpty())
	case "Coords":
		if a.g.IsCollection() || a.g.Kind == model.Point && a.g.C0 == nil {
			return "n/a"
		}
		m, err := model.FromCoords(t)
		if err != nil {
			return "err:" + err.Error()
		}
		j, _ := json.Marshal(m)
		return string(j)
	case "Empty":
		return fmt.Sprint(t.Empty(), t.Layout(), t.Stride(), t.SRID())
	case "Clone":
		switch r := t.(type) {
		case *geom.Point:
			return canonGeom(r.Clone(), nil)
		case *geom.LineString:
			return canonGeom(r.Clone(), nil)
		case *geom.Polygon:
			return canonGeom(r.Clone(), nil)
		case *geom.MultiPoint:
			return canonGeom(r.Clone(), nil)
		case *geom.MultiLineString:
			return canonGeom(r.Clone(), nil)
		case *geom.MultiPolygon:
			return geomRes(r.Clone(), nil)
		}
	case "Parts":
		var sb strings.Builder
		switch r := t.(type) {
		case *geom.Polygon:
			for i := 0; i < r.NumLinearRings(); i++ {
				sb.WriteString(canonGeom(r.LinearRing(i), nil))
			}
		case *geom.MultiPoint:
			for i := 0; i < r.NumPoints(); i++ {
				sb.WriteString(canonGeom(r.Point(i), nil))
			}
		case *geom.MultiLineString:
			for i := 0; i < r.NumLineStrings(); i++ {
				sb.WriteString(canonGeom(r.LineString(i), nil))
			}
		case *geom.MultiPolygon:
			for i := 0; i < r.NumPolygons(); i++ {
				sb.WriteString(canonGeom(r.Polygon(i), nil))
			}
		case *geom.GeometryCollection:
			sb.WriteString(fmt.Sprint(r.NumGeoms(), r.Layout(), r.Empty()))
			for i := 0; i < r.NumGeoms(); i++ {
				sb.WriteString(canonGeom(r.Geom(i), nil))
			}
		case *geom.LineString:
			if r.NumCoords() > 0 {
				sb.WriteString(fls(r.Coord(c.B % r.NumCoords())))
			}
		}
		return sb.String()
	case "ls.Interpolate":
		// a line's own search and slicing methods: answers are functions of the line and
		// the arguments (a track is asked about many instants, in any order)
		ls, ok := t.(*geom.LineString)
		if !ok || ls.NumCoords() == 0 {
			return ""
		}
		n := ls.NumCoords()
		j, dim := c.B%n, (c.A+c.B)%stride
		if ls.Layout() == geom.XYM && c.B%4 != 0 {
			dim = 2
		}
		val := ls.Coord(j)[dim]
		switch (c.A + c.B/n) % 4 {
		case 1:
			if j+1 < n {
				val = (val + ls.Coord(j + 1)[dim]) / 2
			}
		case 2:
			val = math.Nextafter(val, math.Inf(1))
		case 3:
			val -= 1e9
		}
		idx, frac := ls.Interpolate(val, dim)
		lo, hi := j, j+(c.A+c.B)%(n-j+1)
		return fmt.Sprint(idx, fl(frac), ls.Coord(j).X(), ls.Coord(j).Y(), ls.Coord(j).Equal(ls.Layout(), ls.Coord(lo)), ls.Coord(j).Clone()) + canonGeom(ls.SubLineString(lo, hi), nil)
	case "BoundsOverlap":
		if a.g.Layout == 5 || b.g.Layout == 5 {
			return "n/a"
		}
		b1, b2 := t.Bounds(), b.t.Bounds()
		if b1.Layout().Stride() < 2 || b2.Layout().Stride() < 2 {
			return "n/a"
		}
		return fmt.Sprint(b1.Overlaps(geom.XY, b2), b1.OverlapsPoint(geom.XY, geom.Coord{0, 0}))
	case "BoundsPolygon":
		return canonGeom(t.Bounds().Polygon(), nil)
	case "xy.Orientation", "bigxy.Orientation", "xy.Angles", "bigxy.Intersection", "xy.Intersect", "xy.IntersectNonRobust", "xy.Distances", "xyz.Distances":
		if a.flat == nil || b.flat == nil || len(a.flat) < 2*stride || len(b.flat) < 2*b.t.Stride() {
			return "n/a"
		}
		p0, p1 := coordsAt(a.flat, stride, c.B), coordsAt(a.flat, stride, c.B+1)
		q0, q1 := coordsAt(b.flat, b.t.Stride(), c.A), coordsAt(b.flat, b.t.Stride(), c.A+1)
		switch c.Fn {
		case "xy.Orientation":
			return fmt.Sprint(xy.OrientationIndex(p0, p1, q0))
		case "bigxy.Orientation":
			return fmt.Sprint(bigxy.OrientationIndex(p0, p1, q0))
		case "exact.Burst":
			// a few hundred evaluations that the floating-point filter cannot decide (points on
			// and a few ulps beside the line p0-p1, a point on and beside the edges of a
			// triangle): goroutines of the concurrent phase spend their time inside the
			// extended-precision path at the same moment
			var sb strings.Builder
			dx, dy := p1[0]-p0[0], p1[1]-p0[1]
			if dx == 0 && dy == 0 {
				dx = 1
			}
			tri := []float64{p0[0], p0[1], p0[0] + dx, p0[1] + dy, p0[0] - dy, p0[1] + dx, p0[0], p0[1]}
			for i := 0; i < 240; i++ {
				tt := float64(i%17) / 16
				x, y := p0[0]+tt*dx, p0[1]+tt*dy
				switch i % 5 {
				case 1:
					x = math.Nextafter(x, math.Inf(1))
				case 2:
					y = math.Nextafter(y, math.Inf(-1))
				case 3:
					x, y = math.Nextafter(x, math.Inf(-1)), math.Nextafter(y, math.Inf(1))
				}
				pt := geom.Coord{x, y}
				sb.WriteString(fmt.Sprint(int(bigxy.OrientationIndex(p0, geom.Coord{p0[0] + dx, p0[1] + dy}, pt)), int(xy.LocatePointInRing(geom.XY, pt, tri)), xy.IsOnLine(geom.XY, pt, tri[:4]), ";"))
			}
			return sb.String()
		case "xy.Angles":
			return fl(xy.Angle(p0, p1)) + fl(xy.AngleBetween(p0, p1, q0)) + fl(xy.AngleBetweenOriented(p0, p1, q0)) + fl(xy.InteriorAngle(p0, p1, q0)) + fmt.Sprint(xy.IsAcute(p0, p1, q0), xy.IsObtuse(p0, p1, q0)) + fl(xy.AngleFromOrigin(p0)) + fl(xy.Normalize(xy.Angle(q0, q1))) + fl(xy.NormalizePositive(xy.Angle(q0, q1))) + fl(xy.Diff(xy.Angle(p0, p1), xy.Angle(q0, q1))) + fmt.Sprint(xy.AngleOrientation(xy.Angle(p0, p1), xy.Angle(q0, q1)))
		case "bigxy.Intersection":
			// documented: parallel (and therefore degenerate) lines are not handled
			if (p1[0]-p0[0])*(q1[1]-q0[1])-(p1[1]-p0[1])*(q1[0]-q0[0]) == 0 {
				return "n/a"
			}
			return fls(bigxy.Intersection(p0, p1, q0, q1))
		case "xy.Intersect", "xy.IntersectNonRobust":
			var st lineintersector.Strategy = lineintersector.RobustLineIntersector{}
			if c.Fn == "xy.IntersectNonRobust" {
				st = lineintersector.NonRobustLineIntersector{}
			}
			r := lineintersector.LineIntersectsLine(st, p0, p1, q0, q1)
			s := fmt.Sprint(r.Type(), r.HasIntersection())
			for _, p := range r.Intersection() {
				s += fls(p[:2])
			}
			return s + fmt.Sprint(lineintersector.PointIntersectsLine(st, q0, p0, p1))
		case "xy.Distances":
			return fl(xy.DistanceFromPointToLine(q0, p0, p1)) + fl(xy.DistanceFromLineToLine(p0, p1, q0, q1)) + fl(xy.Distance(p0, q0)) + fl(xy.DistanceFromPointToLineString(t.Layout(), q0, a.flat)) + fmt.Sprint(xy.IsPointWithinLineBounds(q0, p0, p1), xy.DoLinesOverlap(p0, p1, q0, q1))
		case "xyz.Distances":
			if stride < 3 || b.t.Stride() < 3 {
				return "n/a"
			}
			return fl(xyz.Distance(p0, q0)) + fl(xyz.DistancePointToLine(q0, p0, p1)) + fl(xyz.DistanceLineToLine(p0, p1, q0, q1)) + fl(xyz.VectorDot(p0, p1, q0, q1)) + fl(xyz.VectorLength(p0))
		}
	case "xy.Misc":
		if a.flat == nil || b.flat == nil || len(a.flat) < 2*stride || len(b.flat) < 2*b.t.Stride() || stride < 2 || b.t.Stride() < 2 {
			return "n/a"
		}
		p0, p1 := coordsAt(a.flat, stride, c.B), coordsAt(a.flat, stride, c.B+1)
		q0 := coordsAt(b.flat, b.t.Stride(), c.A)
		out := fmt.Sprint(xy.Equal(a.flat, 0, b.flat, 0), xy.Equal(a.flat, stride, a.flat, stride), sorting.IsLess2D(p0, q0), p0.Equal(geom.XY, q0), fls(p0.Clone()))
		if !(p0[0] == p1[0] && p0[1] == p1[1]) {
			out += fl(xy.PerpendicularDistanceFromPointToLine(q0, p0, p1))
		}
		if stride >= 3 && b.t.Stride() >= 3 {
			out += fmt.Sprint(xyz.Equals(p0, q0)) + fls(xyz.VectorNormalize(p1))
		}
		return out
	case "xy.CentroidsWithExtras":
		// the per-kind entry points with an extra argument (the same object twice)
		switch r := t.(type) {
		case *geom.Point:
			if a.g.C0 == nil {
				return "n/a"
			}
			return fls(xy.PointsCentroid(r, r)) + fls(xy.PointsCentroidFlat(r.Layout(), r.FlatCoords()))
		case *geom.MultiPoint:
			if a.g.Empty() || a.g.HasEmptyPart() {
				return "n/a"
			}
			return fls(xy.MultiPointCentroid(r)) + fls(xy.PointsCentroidFlat(r.Layout(), r.FlatCoords()))
		case *geom.LineString:
			if a.g.Layout == 5 || !(r.Length() > 0) {
				return "n/a"
			}
			return fls(xy.LinesCentroid(r, r))
		case *geom.MultiLineString:
			if a.g.HasEmptyPart() || !(r.Length() > 0) {
				return "n/a"
			}
			return fls(xy.MultiLineCentroid(r))
		case *geom.Polygon:
			if a.g.Empty() || a.g.HasEmptyPart() {
				return "n/a"
			}
			return fls(xy.PolygonsCentroid(r, r)) + fls(xy.LinearRingsCentroid(r.LinearRing(0), r.LinearRing(0)))
		case *geom.MultiPolygon:
			if a.g.Empty() || a.g.HasEmptyPart() {
				return "n/a"
			}
			return fls(xy.MultiPolygonCentroid(r))
		}
		return "n/a"
	case "wkb.WriteRead":
		if a.wkb == nil {
			return "n/a"
		}
		var buf bytes.Buffer
		if err := wkb.Write(&buf, wkb.XDR, t, sharedWKBNaN); err != nil {
			return "err:" + err.Error()
		}
		out := fmt.Sprintf("%x", buf.Bytes())
		return out + canonGeom(wkb.Read(bytes.NewReader(a.wkb), sharedWKBNaN))
	case "wkb.WriteFailing":
		// the writer gives up after k bytes: in the byte-order mark, in the header,
		// at the first ordinate, in the middle; the caller keeps the geometry either way
		if a.wkb == nil || a.ewkb == nil {
			return "n/a"
		}
		var sb strings.Builder
		for _, k := range []int{0, 3, 9, 13, 21, len(a.wkb) / 2, len(a.wkb) - 1} {
			for _, bo := range []binary.ByteOrder{wkb.XDR, wkb.NDR} {
				w1 := &failingWriter{left: k}
				err1 := wkb.Write(w1, bo, t, sharedWKBNaN)
				w2 := &failingWriter{left: k}
				err2 := ewkb.Write(w2, bo, t)
				fmt.Fprintf(&sb, "%d:%v/%d:%v;", w1.n, err1, w2.n, err2)
			}
		}
		return sb.String()
	case "hex.Decode":
		if a.wkb == nil || a.ewkb == nil {
			return "n/a"
		}
		g1, err1 := wkbhex.Decode(hex.EncodeToString(a.wkb), sharedWKBNaN)
		return canonGeom(g1, err1) + canonGeom(ewkbhex.Decode(strings.ToUpper(hex.EncodeToString(a.ewkb))))
	case "geojson.FeatureCollection":
		if a.g.Layout == 5 || b.g.Layout == 5 {
			return "n/a"
		}
		fc := &geojson.FeatureCollection{Features: []*geojson.Feature{{ID: "a", Geometry: t}, {ID: "b", Geometry: b.t, Properties: map[string]interface{}{"n": 1.0}}, {ID: "null"}}}
		bts, err := json.Marshal(fc)
		if err != nil {
			return "err:" + err.Error()
		}
		var back geojson.FeatureCollection
		if err := json.Unmarshal(bts, &back); err != nil {
			return string(bts) + " err:" + err.Error()
		}
		out := string(bts)
		for _, f := range back.Features {
			out += "|" + canonGeom(f.Geometry, nil)
		}
		return out
	case "xy.PointInRing", "xy.RingCCW", "xy.SignedArea":
		// needs a closed ring of at least 4 coordinates: take the first ring of a polygon
		var ring []float64
		switch r := t.(type) {
		case *geom.Polygon:
			if r.NumLinearRings() > 0 {
				ring = r.LinearRing(0).FlatCoords()
			}
		case *geom.MultiPolygon:
			for i := 0; i < r.NumPolygons() && ring == nil; i++ {
				if p := r.Polygon(i); p.NumLinearRings() > 0 {
					ring = p.LinearRing(0).FlatCoords()
				}
			}
		}
		if len(ring) < 4*stride {
			return "n/a"
		}
		switch c.Fn {
		case "xy.PointInRing":
			p := geom.Coord(ring[:stride])
			q := geom.Coord{float64(c.B) - 2, float64(c.A) - 2}
			return fmt.Sprint(xy.LocatePointInRing(t.Layout(), p, ring), xy.IsPointInRing(t.Layout(), q, ring))
		case "xy.RingCCW":
			return fmt.Sprint(xy.IsRingCounterClockwise(t.Layout(), ring))
		default:
			return fl(xy.SignedArea(t.Layout(), ring))
		}
	case "xy.IsOnLine":
		if a.flat == nil || len(a.flat) < 2*stride {
			return "n/a"
		}
		return fmt.Sprint(xy.IsOnLine(t.Layout(), coordsAt(a.flat, stride, c.B), a.flat))
	case "xy.ConvexHull":
		if a.g.IsCollection() {
			return "n/a"
		}
		return geomRes(xy.ConvexHull(t), nil)
	case "xy.ConvexHullFlat":
		if a.flat == nil {
			return "n/a"
		}
		return geomRes(xy.ConvexHullFlat(t.Layout(), a.flat), nil)
	case "xy.Centroid":
		// preconditions: non-empty, lines of positive length, polygons with a shell of >= 4 coordinates
		if a.g.IsCollection() || a.g.Empty() || a.g.HasEmptyPart() {
			return "n/a"
		}
		switch a.g.Kind {
		case model.LineString, model.MultiLineString:
			if m := t.(interface{ Length() float64 }); !(m.Length() > 0) {
				return "n/a"
			}
		}
		cc, err := xy.Centroid(t)
		if err != nil {
			return "err:" + err.Error()
		}
		return fls(cc)
	case "xy.Simplify":
		if a.flat == nil {
			return "n/a"
		}
		return fmt.Sprint(xy.SimplifyFlatCoords(a.flat, float64(c.B), stride))
	case "transform.UniqueCoords":
		if a.flat == nil {
			return "n/a"
		}
		return fls(transform.UniqueCoords(t.Layout(), cmp2d{}, a.flat))
	case "wkb.Marshal":
		return bytesRes(wkb.Marshal(t, wkb.NDR, wkbcommon.WKBOptionEmptyPointHandling(wkbcommon.EmptyPointHandlingNaN)))
	case "ewkb.Marshal":
		return bytesRes(ewkb.Marshal(t, ewkb.XDR))
	case "wkbhex.Encode":
		s, err := wkbhex.Encode(t, wkbhex.XDR)
		return fmt.Sprint(s, err)
	case "ewkbhex.Encode":
		s, err := ewkbhex.Encode(t, ewkbhex.NDR)
		return fmt.Sprint(s, err)
	case "wkt.Marshal":
		s, err := wkt.Marshal(t)
		return fmt.Sprint(s, err)
	case "wkt.MarshalDigits":
		s, err := wkt.Marshal(t, wkt.EncodeOptionWithMaxDecimalDigits(c.B%6))
		return fmt.Sprint(s, err)
	case "geojson.Marshal":
		if a.g.Layout == 5 {
			return "n/a"
		}
		bts, err := geojson.Marshal(t, geojson.EncodeGeometryWithMaxDecimalDigits(c.B%6))
		return textRes(bts, err)
	case "geojson.MarshalSharedOpts":
		if a.g.Layout == 5 {
			return "n/a"
		}
		opts := []geojson.EncodeGeometryOption{sharedGeoJSONDigits[c.B%2]}
		if !a.g.Empty() && !a.g.IsCollection() && c.B%3 == 0 {
			opts = append(opts, sharedGeoJSONBBox)
		}
		bts, err := geojson.Marshal(t, opts...)
		return textRes(bts, err)
	case "geojson.MarshalSharedSlice":
		if a.g.Layout == 5 || a.g.Empty() || a.g.IsCollection() || a.g.HasEmptyPart() {
			return "n/a"
		}
		bts, err := geojson.Marshal(t, sharedGeoJSONSlices[c.B%2]...)
		return textRes(bts, err)
	case "wkt.MarshalSharedOpts":
		s, err := wkt.Marshal(t, sharedWKTDigits[c.B%2])
		return fmt.Sprint(s, err)
	case "wkb.UnmarshalSharedOpts":
		if a.wkb == nil {
			return "n/a"
		}
		return geomRes(wkb.Unmarshal(a.wkb, sharedWKBNaN))
	case "geojson.MarshalBBox":
		if a.g.Layout == 5 || a.g.Empty() || a.g.IsCollection() {
			return "n/a"
		}
		bts, err := geojson.Marshal(t, geojson.EncodeGeometryWithBBox())
		return textRes(bts, err)
	case "geojson.Feature":
		if a.g.Layout == 5 {
			return "n/a"
		}
		f := &geojson.Feature{ID: "x", Geometry: t, Properties: map[string]interface{}{"k": 1.5, "a": []interface{}{"b", nil}}}
		bts, err := json.Marshal(f)
		return textRes(bts, err)
	case "igc.Encode":
		ls, ok := t.(*geom.LineString)
		if !ok || stride < 4 {
			return "n/a"
		}
		var buf bytes.Buffer
		err := igc.NewEncoder(&buf, igc.A("XYZ")).Encode(ls)
		return fmt.Sprint(buf.String(), err)
	case "kml.Encode":
		if a.g.Layout == 5 {
			return "n/a"
		}
		if (a.g.Kind == model.Point && a.g.C0 == nil) || a.g.HasEmptyPart() || a.g.Empty() {
			// the element tree of a geometry with empty parts cannot always be written
			// as XML (a MultiPoint leaves gaps); building it must still leave the
			// geometry as it was, which the snapshots around this call decide
			if _, err := kml.Encode(t); err != nil {
				return "err:" + err.Error()
			}
			return "built"
		}
		e, err := kml.Encode(t)
		if err != nil {
			return "err:" + err.Error()
		}
		var buf bytes.Buffer
		if err := xml.NewEncoder(&buf).Encode(e); err != nil {
			return "err:" + err.Error()
		}
		return buf.String()
	case "decode.Owned":
		// what a decoder returns is the caller's: overwritten (every ordinate, EMPTY
		// points given coordinates, SRIDs changed), the same input decodes as before
		var dec func() (geom.T, error)
		switch c.B % 4 {
		case 0:
			if a.wkb == nil {
				return "n/a"
			}
			dec = func() (geom.T, error) {
				return wkb.Unmarshal(a.wkb, wkbcommon.WKBOptionEmptyPointHandling(wkbcommon.EmptyPointHandlingNaN))
			}
		case 1:
			if a.ewkb == nil {
				return "n/a"
			}
			dec = func() (geom.T, error) { return ewkb.Unmarshal(a.ewkb) }
		case 2:
			if a.wktb == nil {
				return "n/a"
			}
			dec = func() (geom.T, error) { return wkt.Unmarshal(string(a.wktb)) }
		default:
			if a.json == nil {
				return "n/a"
			}
			dec = func() (geom.T, error) {
				var g geom.T
				err := geojson.Unmarshal(a.json, &g)
				return g, err
			}
		}
		g1, err := dec()
		first := canonGeom(g1, err)
		if err == nil && g1 != nil {
			model.Spoil(g1)
		}
		g2, err := dec()
		return first + " / " + canonGeom(g2, err)
	case "wkb.Unmarshal":
		if a.wkb == nil {
			return "n/a"
		}
		return geomRes(wkb.Unmarshal(a.wkb, wkbcommon.WKBOptionEmptyPointHandling(wkbcommon.EmptyPointHandlingNaN)))
	case "ewkb.Unmarshal":
		if a.ewkb == nil {
			return "n/a"
		}
		return geomRes(ewkb.Unmarshal(a.ewkb))
	case "ewkb.Scan":
		if a.ewkb == nil {
			return "n/a"
		}
		var p ewkb.Polygon
		err := p.Scan(a.ewkb)
		if err != nil {
			return "err:" + err.Error()
		}
		return canonGeom(p.Polygon, nil)
	case "decode.Truncated":
		// decodes that fail half-way (the input cut inside a count, a coordinate array, a
		// token): whatever a failing call leaves behind must not reach the calls around it
		var sb strings.Builder
		for k, in := range [][]byte{a.ewkb, a.wkb, a.json, a.wktb, a.igc} {
			if len(in) < 2 {
				continue
			}
			cut := in[:1+(len(in)-2)*(1+(c.B+k)%7)/8]
			switch k {
			case 0:
				sb.WriteString(canonGeom(ewkb.Unmarshal(cut)))
				sb.WriteString(canonGeom(ewkb.Read(bytes.NewReader(cut))))
			case 1:
				sb.WriteString(canonGeom(wkb.Unmarshal(cut, sharedWKBNaN)))
				sb.WriteString(canonGeom(wkb.Read(bytes.NewReader(cut), sharedWKBNaN)))
			case 2:
				var g geom.T
				err := geojson.Unmarshal(cut, &g)
				sb.WriteString(canonGeom(g, err))
			case 3:
				sb.WriteString(canonGeom(wkt.Unmarshal(string(cut))))
			case 4:
				t, err := igc.Read(bytes.NewReader(cut))
				if t != nil && t.LineString != nil {
					sb.WriteString(canonGeom(t.LineString, nil))
				}
				sb.WriteString(fmt.Sprint(err))
			}
		}
		return sb.String()
	case "decode.CrossFormat":
		// every decoder is handed every byte slice of the item, also those of another
		// format (text where binary is expected and the other way round): whatever it
		// answers, the bytes are the caller's
		inputs := [][]byte{a.ewkb, a.wkb, a.hexb, a.wktb, a.json, a.igc}
		in := inputs[c.B%len(inputs)]
		if in == nil {
			return "n/a"
		}
		res := func(g geom.T, err error) string {
			if err != nil {
				return "err:" + err.Error()
			}
			return canonGeom(g, nil)
		}
		var sb strings.Builder
		var w0 ewkb.Point
		sb.WriteString(res(w0.Point, w0.Scan(in)))
		var w1 ewkb.LineString
		sb.WriteString(res(w1.LineString, w1.Scan(in)))
		var w2 ewkb.Polygon
		sb.WriteString(res(w2.Polygon, w2.Scan(in)))
		var w3 ewkb.MultiPoint
		sb.WriteString(res(w3.MultiPoint, w3.Scan(in)))
		var w4 ewkb.MultiLineString
		sb.WriteString(res(w4.MultiLineString, w4.Scan(in)))
		var w5 ewkb.MultiPolygon
		sb.WriteString(res(w5.MultiPolygon, w5.Scan(in)))
		var w6 ewkb.GeometryCollection
		sb.WriteString(res(w6.GeometryCollection, w6.Scan(in)))
		var v wkb.Geom
		sb.WriteString(res(v.T, v.Scan(in)))
		sb.WriteString(res(ewkb.Unmarshal(in)))
		sb.WriteString(res(wkb.Unmarshal(in)))
		var gj geom.T
		sb.WriteString(res(gj, geojson.Unmarshal(in, &gj)))
		sb.WriteString(res(ewkb.Read(bytes.NewReader(in))))
		return sb.String()
	case "wkt.Unmarshal":
		if a.wkt == "" {
			return "n/a"
		}
		return geomRes(wkt.Unmarshal(a.wkt))
	case "geojson.Unmarshal":
		if a.json == nil {
			return "n/a"
		}
		var g geom.T
		err := geojson.Unmarshal(a.json, &g)
		return geomRes(g, err)
	case "igc.Read":
		if a.igc == nil {
			return "n/a"
		}
		tr, err := igc.Read(bytes.NewReader(a.igc))
		return canonGeom(tr.LineString, nil) + fmt.Sprint(tr.Headers, err)
	}
	return "n/a"
}

type cmp2d struct{}

func (cmp2d) IsEquals(x, y geom.Coord) bool { return x[0] == y[0] && x[1] == y[1] }
func (cmp2d) IsLess(x, y geom.Coord) bool {
	return x[0] < y[0] || x[0] == y[0] && x[1] < y[1]
}

// ---- snapshots --------------------------------------------------------------

func snapGeom(t geom.T, sb *strings.Builder) {
	if gc, ok := t.(*geom.GeometryCollection); ok {
		fmt.Fprintf(sb, "GC%d,%v,%d[", gc.NumGeoms(), gc.Layout(), gc.SRID())
		for i := 0; i < gc.NumGeoms(); i++ {
			snapGeom(gc.Geom(i), sb)
		}
		sb.WriteString("]")
		return
	}
	f := t.FlatCoords()
	fmt.Fprintf(sb, "%T,%v,%d,%d:", t, t.Layout(), t.SRID(), len(f))
	sb.WriteString(fls(f[:cap(f)])) // including spare capacity
	fmt.Fprint(sb, t.Ends(), t.Endss())
}

func snapPool(pool []*item) string {
	var sb strings.Builder
	for _, it := range pool {
		snapGeom(it.t, &sb)
		fmt.Fprintf(&sb, "|%x|%x|%s|%s|%x|%s|%s\n", it.wkb, it.ewkb, it.wkt, it.json, it.igc, it.hexb, it.wktb)
	}
	fmt.Fprint(&sb, wkbcommon.MaxGeometryElements, geojson.DefaultLayout)
	return sb.String()
}

func raceLogSize() int64 {
	p := os.Getenv("VERIF_RACELOG")
	if p == "" {
		return 0
	}
	files, _ := filepath.Glob(p + "*")
	var n int64
	for _, f := range files {
		if st, err := os.Stat(f); err == nil {
			n += st.Size()
		}
	}
	return n
}

func raceLogText() string {
	files, _ := filepath.Glob(os.Getenv("VERIF_RACELOG") + "*")
	sort.Strings(files)
	var sb strings.Builder
	for _, f := range files {
		b, _ := os.ReadFile(f)
		sb.Write(b)
	}
	s := sb.String()
	if len(s) > 6000 {
		s = s[:6000] + "..."
	}
	return s
}

func prop(c Case) error {
	resetShared()
	pool, err := buildPool(c)
	if err != nil {
		return fmt.Errorf("build pool: %v", err)
	}
	// phase A: alone, one call at a time, arguments compared bitwise around every call
	want := make([]string, len(c.Calls))
	keeps := make([]func() string, len(c.Calls))
	before := snapPool(pool)
	for i, call := range c.Calls {
		var res string
		if err := run.Safe(func() error { res, keeps[i] = execKeep(pool, call); return nil }); err != nil {
			return fmt.Errorf("call %d %+v: %v", i, call, err)
		}
		want[i] = res
		if after := snapPool(pool); after != before {
			return fmt.Errorf("call %d %+v modified its arguments or a package variable:\n%s", i, call, diffLine(before, after))
		}
	}
	// results must not change after they were returned
	for i, k := range keeps {
		if k != nil {
			if now := k(); now != want[i] {
				return fmt.Errorf("the result of call %d %+v changed after it was returned (it aliases state that a later call modified):\n returned %s\n now      %s", i, c.Calls[i], clip(want[i]), clip(now))
			}
		}
	}
	// phase A2: the same calls in reverse order: "the result it returns when run
	// alone" cannot depend on which calls ran before it (pooled or cached state)
	for i := len(c.Calls) - 1; i >= 0; i-- {
		var res string
		if err := run.Safe(func() error { res = exec(pool, c.Calls[i]); return nil }); err != nil {
			return fmt.Errorf("call %d %+v (reverse order): %v", i, c.Calls[i], err)
		}
		if res != want[i] {
			return fmt.Errorf("call %d %+v returned a different result when the calls were run in reverse order (it depends on earlier calls):\n first pass   %s\n reverse pass %s", i, c.Calls[i], clip(want[i]), clip(res))
		}
	}
	if after := snapPool(pool); after != before {
		return fmt.Errorf("arguments changed during the reverse pass:\n%s", diffLine(before, after))
	}
	// phase B: the same mix from many goroutines on the same pool
	raceBefore := raceLogSize()
	for rep := 0; rep < 3; rep++ {
		g := c.Goroutines
		if g < 2 {
			g = 2
		}
		got := make([]string, len(c.Calls))
		errs := make([]error, g)
		var wg sync.WaitGroup
		start := make(chan struct{})
		for w := 0; w < g; w++ {
			wg.Add(1)
			go func(w int) {
				defer wg.Done()
				<-start
				errs[w] = run.Safe(func() error {
					for i := (w + rep) % g; i < len(c.Calls); i += g {
						got[i] = exec(pool, c.Calls[i])
					}
					return nil
				})
			}(w)
		}
		close(start)
		wg.Wait()
		for w, e := range errs {
			if e != nil {
				return fmt.Errorf("goroutine %d (repetition %d): %v", w, rep, e)
			}
		}
		for i := range got {
			if got[i] != want[i] {
				return fmt.Errorf("call %d %+v returned a different result when run concurrently (repetition %d):\n alone      %s\n concurrent %s", i, c.Calls[i], rep, clip(want[i]), clip(got[i]))
			}
		}
		if after := snapPool(pool); after != before {
			return fmt.Errorf("arguments changed during the concurrent phase (repetition %d):\n%s", rep, diffLine(before, after))
		}
	}
	if raceLogSize() > raceBefore {
		return fmt.Errorf("the race detector reported a data race during the concurrent phase:\n%s", raceLogText())
	}
	return nil
}

func clip(s string) string {
	if len(s) > 300 {
		return s[:300] + "..."
	}
	return s
}

func diffLine(a, b string) string {
	la, lb := strings.Split(a, "\n"), strings.Split(b, "\n")
	for i := range la {
		if i < len(lb) && la[i] != lb[i] {
			return fmt.Sprintf("pool item %d:\n before %s\n after  %s", i, clip(la[i]), clip(lb[i]))
		}
	}
	return "snapshots differ"
}

func classify(c Case) ([]string, bool) {
	pk := map[string]bool{}
	hull50 := false
	for _, call := range c.Calls {
		pk[strings.SplitN(call.Fn, ".", 2)[0]] = true
		if strings.HasPrefix(call.Fn, "xy.ConvexHull") && c.Pool[call.A%len(c.Pool)].NumCoords() > 50 {
			hull50 = true
		}
	}
	cl := []string{}
	if hull50 {
		cl = append(cl, "hull>50")
	}
	return cl, len(pk) >= 3 && hull50
}

var spec = run.Spec[Case]{ID: "C17", Name: "mix", Gen: genCase, Prop: prop, Classify: classify}

func TestPropMix(t *testing.T) { run.Generated(t, spec) }
func TestRace(t *testing.T)    { run.Generated(t, spec) } // same property, run from the -race binary by the driver
func TestRegress(t *testing.T) { run.Regress(t, spec) }
func TestReplay(t *testing.T) {
	run.ReplayOne(t, spec)
	run.ReplayOne(t, stressSpec)
}
