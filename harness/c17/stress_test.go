package c17

import (
	"fmt"
	"math"
	"sync"
	"testing"

	geom "github.com/twpayne/go-geom"
	"github.com/twpayne/go-geom/bigxy"
	"github.com/twpayne/go-geom/xy"
	"github.com/twpayne/go-geom/xy/lineintersector"

	"verifharness/internal/ev"
	"verifharness/internal/run"
)

// StressCase: G goroutines evaluate the same K inputs of one function at the same
// time, each starting at another input; every result must equal the one the call
// returned when it ran alone. The inputs are ones the floating-point filters cannot
// decide (exactly collinear, or a unit in the last place beside), so that all
// goroutines are inside the extended-precision paths at once - the mixes of
// TestPropMix reach those paths too, but spend most of their time elsewhere.
type StressCase struct {
	Fn    string `json:"fn"`
	K     int    `json:"k"`
	G     int    `json:"g"`
	Round int    `json:"round"`
}

func stressInputs(k, round int) [][4]geom.Coord {
	out := make([][4]geom.Coord, 0, k)
	for i := 0; i < k; i++ {
		j := i + 7919*round
		p0 := geom.Coord{float64(j%977) + 0.5, float64((3*j)%1013) - 400.25}
		dx, dy := float64(1+j%13), float64(2+(j/13)%11)
		p1 := geom.Coord{p0[0] + 8*dx, p0[1] + 8*dy}
		tt := float64(j%9) - 2 // -2..6: before, on and beyond the segment
		q := geom.Coord{p0[0] + tt*dx, p0[1] + tt*dy}
		switch j % 4 {
		case 1:
			q[0] = math.Nextafter(q[0], math.Inf(1))
		case 2:
			q[1] = math.Nextafter(q[1], math.Inf(-1))
		}
		r := geom.Coord{q[0] + 3*dx, q[1] + 3*dy} // q-r: a segment on (or a hair beside) the line p0-p1
		out = append(out, [4]geom.Coord{p0, p1, q, r})
	}
	return out
}

func stressCall(fn string, in [4]geom.Coord) string {
	p0, p1, q, r := in[0], in[1], in[2], in[3]
	switch fn {
	case "orientation":
		return fmt.Sprint(bigxy.OrientationIndex(p0, p1, q), xy.OrientationIndex(p1, q, p0))
	case "ring":
		// the triangle p0, p1, p0 rotated: q lies on or beside its first edge
		ring := []float64{p0[0], p0[1], p1[0], p1[1], p0[0] - (p1[1] - p0[1]), p0[1] + (p1[0] - p0[0]), p0[0], p0[1]}
		return fmt.Sprint(xy.LocatePointInRing(geom.XY, q, ring), xy.IsPointInRing(geom.XY, q, ring), xy.IsOnLine(geom.XY, q, ring[:4]))
	case "intersect":
		res := lineintersector.LineIntersectsLine(lineintersector.RobustLineIntersector{}, p0, p1, q, r)
		s := fmt.Sprint(res.Type())
		for _, c := range res.Intersection() {
			s += fmt.Sprintf(" %x,%x", math.Float64bits(c[0]), math.Float64bits(c[1]))
		}
		return s
	case "hull":
		flat := []float64{p0[0], p0[1], q[0], q[1], p1[0], p1[1], r[0], r[1], (p0[0] + p1[0]) / 2, (p0[1] + p1[1]) / 2, p0[0], p0[1]}
		h := xy.ConvexHullFlat(geom.XY, flat)
		s := fmt.Sprintf("%T", h)
		for _, v := range h.FlatCoords() {
			s += fmt.Sprintf(" %x", math.Float64bits(v))
		}
		return s
	}
	panic("bad fn " + fn)
}

func propStress(c StressCase) error {
	in := stressInputs(c.K, c.Round)
	alone := make([]string, len(in))
	for i := range in {
		alone[i] = stressCall(c.Fn, in[i])
	}
	var mu sync.Mutex
	var first error
	var wg sync.WaitGroup
	for g := 0; g < c.G; g++ {
		wg.Add(1)
		go func(g int) {
			defer wg.Done()
			err := run.Safe(func() error {
				for n := 0; n < len(in); n++ {
					i := (n + g*len(in)/c.G) % len(in)
					if got := stressCall(c.Fn, in[i]); got != alone[i] {
						return fmt.Errorf("%s on input %d %v: %q next to %d other goroutines, %q when run alone", c.Fn, i, in[i], got, c.G-1, alone[i])
					}
				}
				return nil
			})
			if err != nil {
				mu.Lock()
				if first == nil {
					first = err
				}
				mu.Unlock()
			}
		}(g)
	}
	wg.Wait()
	return first
}

var stressSpec = run.Spec[StressCase]{ID: "C17", Name: "stress", Prop: propStress, Classify: func(c StressCase) ([]string, bool) {
	return []string{"stress:" + c.Fn}, true
}}

// TestExhaustiveStress (also part of the -race run, as TestRaceStress).
func TestExhaustiveStress(t *testing.T) { stress(t) }
func TestRaceStress(t *testing.T)       { stress(t) }

func stress(t *testing.T) {
	shard, shards := run.Shard()
	rounds := 4
	if run.Thorough() {
		rounds = 40
	}
	n := 0
	for round := 0; round < rounds; round++ {
		for _, fn := range []string{"orientation", "ring", "intersect", "hull"} {
			n++
			if n%shards != shard {
				continue
			}
			c := StressCase{Fn: fn, K: 1500, G: 16, Round: round}
			ev.Default.CaseHash(uint64(round)<<8|uint64(len(fn)), "stress:"+fn, true, func() any { return c })
			if !run.One(t, stressSpec, c) {
				return
			}
		}
	}
}

func TestRegressStress(t *testing.T) { run.Regress(t, stressSpec) }
