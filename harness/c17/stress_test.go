package c17

import (
	"bytes"
	"encoding/json"
	"fmt"
	"math"
	"strings"
	"sync"
	"testing"

	geom "github.com/twpayne/go-geom"
	"github.com/twpayne/go-geom/bigxy"
	"github.com/twpayne/go-geom/encoding/ewkb"
	"github.com/twpayne/go-geom/encoding/geojson"
	"github.com/twpayne/go-geom/encoding/wkb"
	"github.com/twpayne/go-geom/encoding/wkt"
	"github.com/twpayne/go-geom/xy"
	"github.com/twpayne/go-geom/xy/lineintersector"

	"verifharness/internal/ev"
	"verifharness/internal/model"
	"verifharness/internal/refwkb"
	"verifharness/internal/refwkt"
	"verifharness/internal/run"
)

// StressCase: G goroutines evaluate the same K inputs of one function at the same
// time, each starting at another input; every result must equal the one the call
// returned when it ran alone. The inputs are ones the floating-point filters cannot
// decide (exactly collinear, or a unit in the last place beside), so that all
// goroutines are inside the extended-precision paths at once - the mixes of
// TestPropMix reach those paths too, but spend most of their time elsewhere.
type StressCase struct {
	Fn    string `json:"fn"`
	K     int    `json:"k"`
	G     int    `json:"g"`
	Round int    `json:"round"`
}

func stressInputs(k, round int) [][4]geom.Coord {
	out := make([][4]geom.Coord, 0, k)
	for i := 0; i < k; i++ {
		j := i + 7919*round
		p0 := geom.Coord{float64(j%977) + 0.5, float64((3*j)%1013) - 400.25}
		dx, dy := float64(1+j%13), float64(2+(j/13)%11)
		p1 := geom.Coord{p0[0] + 8*dx, p0[1] + 8*dy}
		tt := float64(j%9) - 2 // -2..6: before, on and beyond the segment
		q := geom.Coord{p0[0] + tt*dx, p0[1] + tt*dy}
		switch j % 4 {
		case 1:
			q[0] = math.Nextafter(q[0], math.Inf(1))
		case 2:
			q[1] = math.Nextafter(q[1], math.Inf(-1))
		}
		r := geom.Coord{q[0] + 3*dx, q[1] + 3*dy} // q-r: a segment on (or a hair beside) the line p0-p1
		out = append(out, [4]geom.Coord{p0, p1, q, r})
	}
	return out
}

func stressCall(fn string, in [4]geom.Coord, salt int) string {
	p0, p1, q, r := in[0], in[1], in[2], in[3]
	switch fn {
	case "orientation":
		return fmt.Sprint(bigxy.OrientationIndex(p0, p1, q), xy.OrientationIndex(p1, q, p0))
	case "ring":
		// the triangle p0, p1, p0 rotated: q lies on or beside its first edge
		ring := []float64{p0[0], p0[1], p1[0], p1[1], p0[0] - (p1[1] - p0[1]), p0[1] + (p1[0] - p0[0]), p0[0], p0[1]}
		return fmt.Sprint(xy.LocatePointInRing(geom.XY, q, ring), xy.IsPointInRing(geom.XY, q, ring), xy.IsOnLine(geom.XY, q, ring[:4]))
	case "intersect":
		res := lineintersector.LineIntersectsLine(lineintersector.RobustLineIntersector{}, p0, p1, q, r)
		s := fmt.Sprint(res.Type())
		for _, c := range res.Intersection() {
			s += fmt.Sprintf(" %x,%x", math.Float64bits(c[0]), math.Float64bits(c[1]))
		}
		return s
	case "crossing":
		// ordinates that are not short binary fractions (so that every step rounds), and an
		// end point of the second segment computed onto the first one: a crossing, a touch
		// or a miss within rounding of that end point - where the computed point may fall
		// outside an envelope and the implementation falls back on an end point
		// The first segment is long and shallow (a thin envelope); the second is short,
		// starts on it and ends below its envelope at the place nearest to the mean of
		// the four points, which is the end point the fall-back then picks.
		L, h := 7+p0[0]*0.01, 0.013*(1+float64(int(p1[1])%9))
		fr := q[0]*0.37 + q[1]*0.011
		fr -= math.Floor(fr)
		// (the crossing sits near the origin, where the spacing of the doubles is as fine
		// as the error of the computation: that is where a computed point leaves an envelope)
		a := geom.Coord{-fr*L + p0[0]*1e-4/3, -fr*h + p0[1]*1e-5/7}
		b := geom.Coord{a[0] + L, a[1] + h}
		qq := geom.Coord{a[0] + fr*(b[0]-a[0]), a[1] + fr*(b[1]-a[1])}
		r2 := geom.Coord{qq[0] + (1-2*fr)*L/3, qq[1] - 0.5}
		if int(r[0])%2 == 0 { // mirrored: above the envelope
			r2[1] = qq[1] + 0.5 + h
		}
		keep := [4]geom.Coord{a.Clone(), b.Clone(), qq.Clone(), r2.Clone()}
		res := lineintersector.LineIntersectsLine(lineintersector.RobustLineIntersector{}, a, b, qq, r2)
		for k, c := range []geom.Coord{a, b, qq, r2} {
			if c[0] != keep[k][0] || c[1] != keep[k][1] {
				return fmt.Sprintf("INPUT MODIFIED: argument %d of LineIntersectsLine(%v, %v, %v, %v) is now %v", k, keep[0], keep[1], keep[2], keep[3], c)
			}
		}
		s := fmt.Sprint(res.Type())
		for _, c := range res.Intersection() {
			s += fmt.Sprintf(" %x,%x", math.Float64bits(c[0]), math.Float64bits(c[1]))
			for k, e := range keep {
				if c[0] == e[0] && c[1] == e[1] {
					s += fmt.Sprintf(" =end%d", k)
				}
			}
		}
		return s
	case "geojson-empty":
		// every caller encodes a geometry without coordinates, writes over what Encode
		// returned to it (its own value), and marshals another one
		kinds := []geom.T{geom.NewPointEmpty(geom.XY), geom.NewLineString(geom.XYZ), geom.NewPolygon(geom.XY), geom.NewMultiPoint(geom.XY), geom.NewMultiLineString(geom.XY), geom.NewMultiPolygon(geom.XYZ), geom.NewGeometryCollection()}
		k := int(math.Abs(p0[0]*4)) % len(kinds)
		gg, err := geojson.Encode(kinds[k])
		if err != nil {
			return "err:" + err.Error()
		}
		first, _ := json.Marshal(gg)
		if gg.Coordinates != nil {
			for i := range *gg.Coordinates {
				(*gg.Coordinates)[i] = byte('0' + salt%10)
			}
			*gg.Coordinates = append(*gg.Coordinates, byte('0'+salt%10))
		}
		if gg.Geometries != nil {
			for i := range *gg.Geometries {
				(*gg.Geometries)[i] = byte('0' + salt%10)
			}
		}
		second, err := geojson.Marshal(kinds[(k+1+int(math.Abs(q[1])))%len(kinds)])
		return fmt.Sprint(string(first), " ", string(second), " ", err)
	case "wkt-case":
		// keywords in a letter case of their own per input (the parser is case-insensitive):
		// a steady supply of spellings no earlier call has seen
		// (the letter case - not the keyword - also depends on salt, which differs for every
		// call of the concurrent phase: the answer does not)
		kw := []string{"multilinestring", "linestring", "multipolygon", "geometrycollection", "polygon"}[int(math.Abs(q[0]))%5]
		bits := int(math.Abs(p0[0]*8)) ^ int(math.Abs(p0[1]*4))<<7 ^ int(math.Abs(q[1]))<<3
		caseBits := bits ^ salt*40503
		sp := []byte(kw)
		for i := range sp {
			if caseBits>>(uint(i)%20)&1 == 1 {
				sp[i] -= 'a' - 'A'
			}
		}
		suffix := []string{"", " z", " Z", " m", " zM", "Zm"}[bits%6]
		text := string(sp) + suffix + " empty"
		if bits%3 == 0 {
			text = string(sp) + suffix + " EMPTY"
		}
		t, err := wkt.Unmarshal(text)
		if err != nil {
			return "err:" + err.Error()
		}
		return fmt.Sprintf("%T %v", t, t.Layout())
	case "decode-deep":
		// a point under 20-60 nested collections in four formats: every decoder keeps
		// track of how deep it is, and what one call has open is its own business
		depth := 20 + int(math.Abs(p0[0]*4))%41
		g := model.G{Kind: model.Point, Layout: int(geom.XY), C0: model.Bits([]float64{p0[0], p0[1]})}
		for i := 0; i < depth; i++ {
			g = model.G{Kind: model.GeometryCollection, Members: []model.G{g}}
		}
		wb, _, err := refwkb.Encode(&g, depth%2 == 0, refwkb.ISO)
		if err != nil {
			return "harness: " + err.Error()
		}
		eb, _, _ := refwkb.Encode(&g, depth%2 == 1, refwkb.EWKB)
		wt, err := refwkt.Write(&g, nil)
		if err != nil {
			return "harness: " + err.Error()
		}
		js := strings.Repeat(`{"type":"GeometryCollection","geometries":[`, depth) + fmt.Sprintf(`{"type":"Point","coordinates":[%v,%v]}`, p0[0], p0[1]) + strings.Repeat(`]}`, depth)
		levels := func(t geom.T, err error) string {
			if err != nil {
				return "err:" + err.Error()
			}
			n := 0
			for {
				gc, ok := t.(*geom.GeometryCollection)
				if !ok || gc.NumGeoms() != 1 {
					break
				}
				t = gc.Geom(0)
				n++
			}
			return fmt.Sprintf("%d levels, then %T %v", n, t, t.FlatCoords())
		}
		var jg geom.T
		jerr := geojson.Unmarshal([]byte(js), &jg)
		return fmt.Sprint(levels(wkb.Unmarshal(wb)), "|", levels(ewkb.Unmarshal(eb)), "|", levels(wkt.Unmarshal(wt)), "|", levels(jg, jerr), "|", levels(wkb.Read(bytes.NewReader(wb))))
	case "hull":
		flat := []float64{p0[0], p0[1], q[0], q[1], p1[0], p1[1], r[0], r[1], (p0[0] + p1[0]) / 2, (p0[1] + p1[1]) / 2, p0[0], p0[1]}
		h := xy.ConvexHullFlat(geom.XY, flat)
		s := fmt.Sprintf("%T", h)
		for _, v := range h.FlatCoords() {
			s += fmt.Sprintf(" %x", math.Float64bits(v))
		}
		return s
	}
	panic("bad fn " + fn)
}

func propStress(c StressCase) error {
	in := stressInputs(c.K, c.Round)
	alone := make([]string, len(in))
	for i := range in {
		alone[i] = stressCall(c.Fn, in[i], 0)
		if strings.HasPrefix(alone[i], "INPUT MODIFIED") {
			return fmt.Errorf("%s on input %d: %s", c.Fn, i, alone[i])
		}
	}
	var mu sync.Mutex
	var first error
	var wg sync.WaitGroup
	for g := 0; g < c.G; g++ {
		wg.Add(1)
		go func(g int) {
			defer wg.Done()
			err := run.Safe(func() error {
				for n := 0; n < len(in); n++ {
					i := (n + g*len(in)/c.G) % len(in)
					if got := stressCall(c.Fn, in[i], 1+g+c.G*(n+len(in)*c.Round)); got != alone[i] {
						return fmt.Errorf("%s on input %d %v: %q next to %d other goroutines, %q when run alone", c.Fn, i, in[i], got, c.G-1, alone[i])
					}
				}
				return nil
			})
			if err != nil {
				mu.Lock()
				if first == nil {
					first = err
				}
				mu.Unlock()
			}
		}(g)
	}
	wg.Wait()
	if first != nil {
		return first
	}
	// and nothing handed over was written to
	fresh := stressInputs(c.K, c.Round)
	for i := range in {
		for k := range in[i] {
			for d := range in[i][k] {
				if math.Float64bits(in[i][k][d]) != math.Float64bits(fresh[i][k][d]) {
					return fmt.Errorf("%s changed ordinate %d of argument %d of input %d from %v to %v", c.Fn, d, k, i, fresh[i][k][d], in[i][k][d])
				}
			}
		}
	}
	return nil
}

var stressSpec = run.Spec[StressCase]{ID: "C17", Name: "stress", Prop: propStress, Classify: func(c StressCase) ([]string, bool) {
	return []string{"stress:" + c.Fn}, true
}}

// TestExhaustiveStress (also part of the -race run, as TestRaceStress).
func TestExhaustiveStress(t *testing.T) { stress(t) }
func TestRaceStress(t *testing.T)       { stress(t) }

func stress(t *testing.T) {
	shard, shards := run.Shard()
	rounds := 4
	if run.Thorough() {
		rounds = 40
	}
	n := 0
	for round := 0; round < rounds; round++ {
		for _, fn := range []string{"orientation", "ring", "intersect", "crossing", "hull", "decode-deep", "wkt-case", "geojson-empty"} {
			n++
			if n%shards != shard {
				continue
			}
			c := StressCase{Fn: fn, K: 1500, G: 16, Round: round}
			if fn == "decode-deep" {
				c.K = 150
			}
			ev.Default.CaseHash(uint64(round)<<8|uint64(len(fn)), "stress:"+fn, true, func() any { return c })
			if !run.One(t, stressSpec, c) {
				return
			}
		}
	}
}

func TestRegressStress(t *testing.T) { run.Regress(t, stressSpec) }
