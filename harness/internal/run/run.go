// Package run is the glue between a property package (generator + oracle over
// a JSON-serialisable case type), pgregory.net/rapid, the evidence collector
// and the ./check driver.
//
// Environment (set by the driver):
//
//	VERIF_EV_OUT      prefix of the shard evidence files to write
//	VERIF_REPLAY_OUT  path of the replay file to write when an oracle fails
//	VERIF_REPLAY      path of a replay file to execute (TestReplay)
//	VERIF_REGRESS_DIR directory with saved cases (TestRegress)
//	VERIF_TIER        quick | thorough
//	VERIF_SHARD       shard index (0-based), VERIF_SHARDS number of shards
package run

import (
	"encoding/json"
	"fmt"
	"os"
	"path/filepath"
	"regexp"
	"runtime"
	"runtime/debug"
	"sort"
	"strconv"
	"strings"
	"sync"
	"syscall"
	"testing"
	"time"

	"pgregory.net/rapid"

	"verifharness/internal/ev"
)

// Spec describes one generated check of a property.
type Spec[C any] struct {
	// ID is the property id, Name distinguishes several specs of one property.
	ID, Name string
	// Gen draws a case.
	Gen func(*rapid.T) C
	// Prop is the oracle: nil means the property held on c.
	Prop func(C) error
	// Classify returns histogram labels and whether c is non-trivial.
	Classify func(C) ([]string, bool)
}

// Replay is the on-disk form of a failing (or saved) case.
type Replay struct {
	Property string          `json:"property"`
	Spec     string          `json:"spec"`
	Message  string          `json:"message,omitempty"`
	Case     json.RawMessage `json:"case"`
}

var (
	replayMu      sync.Mutex
	replayWritten bool
)

// Tier returns the tier of this run.
func Tier() string {
	if os.Getenv("VERIF_TIER") == "thorough" {
		return "thorough"
	}
	return "quick"
}

// Thorough reports whether this is the thorough tier.
func Thorough() bool { return Tier() == "thorough" }

// Shard returns the shard index and the number of shards.
func Shard() (int, int) {
	i, _ := strconv.Atoi(os.Getenv("VERIF_SHARD"))
	n, _ := strconv.Atoi(os.Getenv("VERIF_SHARDS"))
	if n < 1 {
		n = 1
	}
	return i, n
}

// Main runs the tests of a property package and flushes the evidence.
func Main(m *testing.M) {
	code := m.Run()
	if p := os.Getenv("VERIF_EV_OUT"); p != "" {
		if err := ev.Default.Flush(p); err != nil {
			fmt.Fprintln(os.Stderr, "evidence flush:", err)
			if code == 0 {
				code = 2
			}
		}
	}
	os.Exit(code)
}

// SaveReplay writes the replay file for a failing case (first failure wins).
func SaveReplay(id, spec string, c any, msg string) {
	replayMu.Lock()
	defer replayMu.Unlock()
	p := os.Getenv("VERIF_REPLAY_OUT")
	if p == "" || replayWritten {
		return
	}
	b, err := json.Marshal(c)
	if err != nil {
		b, _ = json.Marshal(fmt.Sprintf("unmarshalable case: %v", err))
	}
	r := Replay{Property: id, Spec: spec, Message: msg, Case: b}
	out, _ := json.MarshalIndent(r, "", " ")
	_ = os.MkdirAll(filepath.Dir(p), 0o755)
	if err := os.WriteFile(p, out, 0o644); err == nil {
		replayWritten = true
	}
}

// Safe runs f and converts a panic into an error that carries the stack.
func Safe(f func() error) (err error) {
	defer func() {
		if r := recover(); r != nil {
			err = fmt.Errorf("panic: %v\n%s", r, trimStack(debug.Stack()))
		}
	}()
	return f()
}

var (
	reArgs = regexp.MustCompile(`\(0x[^)]*\)|\(\{[^)]*\)|\(\.\.\.\)`)
	reOff  = regexp.MustCompile(` \+0x[0-9a-f]+$`)
)

// trimStack makes a stack trace deterministic (rapid requires the same error
// text when it re-runs a case): goroutine ids, argument words and pc offsets
// are dropped, and only the frames below the panic are kept.
func trimStack(b []byte) string {
	lines := strings.Split(string(b), "\n")
	var out []string
	seenPanic := false
	for _, l := range lines {
		if strings.HasPrefix(l, "goroutine ") {
			continue
		}
		if !seenPanic {
			if strings.HasPrefix(l, "panic(") {
				seenPanic = true
			}
			continue
		}
		if strings.HasPrefix(l, "verifharness/internal/run.") || strings.HasPrefix(l, "pgregory.net/rapid.") || strings.HasPrefix(l, "testing.") {
			break
		}
		l = reArgs.ReplaceAllString(l, "()")
		l = reOff.ReplaceAllString(l, "")
		out = append(out, l)
		if len(out) >= 24 {
			break
		}
	}
	return strings.Join(out, "\n")
}

// Generated drives s with rapid. The number of checks comes from
// -rapid.checks; the seed from -rapid.seed (both set by the driver).
func Generated[C any](t *testing.T, s Spec[C]) {
	t.Helper()
	var (
		last    C
		haveErr bool
		lastMsg string
	)
	defer func() {
		if t.Failed() && haveErr {
			SaveReplay(s.ID, s.Name, last, lastMsg)
		}
	}()
	n := 0
	rapid.Check(t, func(rt *rapid.T) {
		c := s.Gen(rt)
		// self-check of the harness: a case must survive its JSON form, otherwise
		// replay files would not reproduce what was evaluated
		if n++; n <= 200 || n%64 == 0 {
			if err := jsonStable(c); err != nil {
				fmt.Fprintf(os.Stderr, "HARNESS ERROR %s/%s: %v\n", s.ID, s.Name, err)
				os.Exit(2)
			}
		}
		// the oracle first: a classifier may itself call the code under test, and must
		// not meet a hang or a crash before the oracle (which bounds both) has seen the case
		// (every generated case is small: one that burns a minute of CPU, or parks
		// forever, has not terminated - whichever step of the oracle it is in)
		if err := boundedCPU(func() error { return s.Prop(c) }, 60); err != nil {
			ev.Default.Case(c, []string{"failed"}, true)
			last, haveErr, lastMsg = c, true, err.Error()
			rt.Fatalf("%s/%s: %v", s.ID, s.Name, err)
		}
		classes, nt := []string(nil), true
		if s.Classify != nil {
			classes, nt = s.Classify(c)
		}
		ev.Default.Case(c, classes, nt)
	})
}

func jsonStable[C any](c C) error {
	b1, err := json.Marshal(c)
	if err != nil {
		return fmt.Errorf("case does not marshal: %v", err)
	}
	var c2 C
	if err := json.Unmarshal(b1, &c2); err != nil {
		return fmt.Errorf("case does not unmarshal: %v", err)
	}
	b2, err := json.Marshal(c2)
	if err != nil || string(b1) != string(b2) {
		return fmt.Errorf("case changes through its JSON form:\n %s\n %s", b1, b2)
	}
	return nil
}

// One evaluates the oracle on a single directly constructed case (used by the
// exhaustive loops); it returns false after recording the failure.
func One[C any](t *testing.T, s Spec[C], c C) bool {
	if err := Safe(func() error { return s.Prop(c) }); err != nil {
		SaveReplay(s.ID, s.Name, c, err.Error())
		t.Errorf("%s/%s: %v", s.ID, s.Name, err)
		return false
	}
	return true
}

// Regress replays every saved case of this spec found under
// $VERIF_REGRESS_DIR (files named <spec>*.json or whose "spec" field matches).
func Regress[C any](t *testing.T, s Spec[C]) {
	dir := os.Getenv("VERIF_REGRESS_DIR")
	if dir == "" {
		t.Skip("no regress dir")
	}
	files, _ := filepath.Glob(filepath.Join(dir, "*.json"))
	sort.Strings(files)
	n := 0
	for _, f := range files {
		r, c, ok := load[C](t, f, s)
		if !ok {
			continue
		}
		_ = r
		n++
		if err := Safe(func() error { return s.Prop(c) }); err != nil {
			ev.Default.Case(c, []string{"regress", "failed"}, true)
			SaveReplay(s.ID, s.Name, c, err.Error())
			t.Errorf("%s/%s regress %s: %v", s.ID, s.Name, filepath.Base(f), err)
			continue
		}
		classes, nt := []string(nil), true
		if s.Classify != nil {
			classes, nt = s.Classify(c)
		}
		ev.Default.Case(c, append(classes, "regress"), nt)
	}
	t.Logf("replayed %d saved cases", n)
}

func load[C any](t *testing.T, f string, s Spec[C]) (Replay, C, bool) {
	var c C
	var r Replay
	b, err := os.ReadFile(f)
	if err != nil {
		t.Fatalf("read %s: %v", f, err)
	}
	if err := json.Unmarshal(b, &r); err != nil {
		t.Fatalf("parse %s: %v", f, err)
	}
	if r.Spec != s.Name {
		return r, c, false
	}
	if err := json.Unmarshal(r.Case, &c); err != nil {
		t.Fatalf("parse case in %s: %v", f, err)
	}
	return r, c, true
}

// ReplayOne executes the case in $VERIF_REPLAY if it belongs to s. It reports
// the oracle's verdict through t.
func ReplayOne[C any](t *testing.T, s Spec[C]) {
	f := os.Getenv("VERIF_REPLAY")
	if f == "" {
		t.Skip("no replay file")
	}
	_, c, ok := load[C](t, f, s)
	if !ok {
		return
	}
	classes, nt := []string(nil), true
	if s.Classify != nil {
		classes, nt = s.Classify(c)
	}
	ev.Default.Case(c, append(classes, "replay"), nt)
	if err := Safe(func() error { return s.Prop(c) }); err != nil {
		SaveReplay(s.ID, s.Name, c, err.Error())
		t.Errorf("%s/%s replay: %v", s.ID, s.Name, err)
	} else {
		t.Logf("%s/%s replay: property holds on this case", s.ID, s.Name)
	}
}

func cpuSeconds() float64 {
	var ru syscall.Rusage
	if err := syscall.Getrusage(syscall.RUSAGE_SELF, &ru); err != nil {
		return 0
	}
	return float64(ru.Utime.Sec+ru.Stime.Sec) + float64(ru.Utime.Usec+ru.Stime.Usec)/1e6
}

// boundedBody exists to give the goroutine that runs a bounded call a frame that can be
// found in a goroutine dump.
//
//go:noinline
func boundedBody(f func() error) error { return Safe(f) }

// blockedState returns the wait state of the goroutine running boundedBody if that
// state is one a goroutine only leaves when another goroutine acts (channel send or
// receive, select, lock, wait group, condition variable), "" otherwise.
func blockedState() string {
	buf := make([]byte, 1<<20)
	buf = buf[:runtime.Stack(buf, true)]
	for _, g := range strings.Split(string(buf), "\n\n") {
		if !strings.Contains(g, "run.boundedBody(") {
			continue
		}
		head, _, _ := strings.Cut(g, "\n")
		i, j := strings.IndexByte(head, '['), strings.IndexByte(head, ']')
		if i < 0 || j < i {
			return ""
		}
		st, _, _ := strings.Cut(head[i+1:j], ",")
		for _, b := range []string{"chan send", "chan receive", "select", "semacquire", "sync.Mutex.Lock", "sync.RWMutex", "sync.WaitGroup.Wait", "sync.Cond.Wait"} {
			if strings.HasPrefix(st, b) {
				return st
			}
		}
		return ""
	}
	return ""
}

// Bounded is the termination oracle: it runs f (normal cost: microseconds) in
// its own goroutine and reports a violation only if the process has burnt more
// than 20 s of CPU time on it, or if the call sits parked on a channel, lock or
// wait group for ten seconds while the process consumes no CPU (a deadlock: that
// state does not depend on the machine's load); any other stall without CPU
// consumption is inconclusive and ends the process with status 2. Panics in f are returned
// as errors.
func Bounded(f func() error) error { return boundedCPU(f, 20) }

// boundedCPU is Bounded with the CPU budget (seconds) as a parameter.
func boundedCPU(f func() error, cpuLimit float64) error {
	done := make(chan error, 1)
	go func() { done <- boundedBody(f) }()
	select {
	case err := <-done:
		return err
	case <-time.After(2 * time.Second):
	}
	cpu0 := cpuSeconds()
	start := time.Now()
	blocked := 0
	tick := time.NewTicker(time.Second)
	defer tick.Stop()
	for {
		select {
		case err := <-done:
			return err
		case <-tick.C:
			// a goroutine that is parked on a channel, a lock or a wait group is not
			// waiting for the machine: ten seconds in that state without any CPU
			// consumed by the process is a deadlock, whatever the load
			if st := blockedState(); st != "" {
				blocked++
				if blocked >= 10 && cpuSeconds()-cpu0 < 0.5 {
					return fmt.Errorf("did not terminate: the call has been parked in state %q for %d s without consuming CPU (deadlock)", st, blocked)
				}
			} else {
				blocked = 0
			}
			if used := cpuSeconds() - cpu0; used > cpuLimit {
				return fmt.Errorf("did not terminate: %.0f s of CPU consumed on a single input (normal cost: microseconds)", used)
			}
			if time.Since(start) > 5*time.Minute {
				fmt.Fprintln(os.Stderr, "INCONCLUSIVE: a case stalled for 5 minutes without consuming CPU")
				os.Exit(2)
			}
		}
	}
}
