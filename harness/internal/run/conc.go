package run

import (
	"fmt"
	"sync"
	"testing"

	"pgregory.net/rapid"

	"verifharness/internal/ev"
)

// ConcCase: G goroutines evaluate K generated cases of a property (the generator's
// examples number Round*K+1 ... Round*K+K, those the filter keeps) at the same time,
// each case building values of its own and each goroutine starting at another case.
// Nothing is shared between goroutines, so every case must go exactly as it goes
// alone: what the library does to one value is no other value's business.
type ConcCase struct {
	Round int `json:"round"`
	K     int `json:"k"`
	G     int `json:"g"`
}

// ConcSpec derives the concurrent property of a spec. keep (may be nil) leaves out
// cases that set a package variable of the library, which callers must not do from
// several goroutines.
func ConcSpec[C any](s Spec[C], keep func(C) bool) Spec[ConcCase] {
	gen := rapid.Custom(s.Gen)
	prop := func(cc ConcCase) error {
		var cases []C
		for i := 0; i < cc.K; i++ {
			c := gen.Example(cc.Round*cc.K + i + 1)
			if keep == nil || keep(c) {
				cases = append(cases, c)
			}
		}
		if len(cases) == 0 {
			return nil
		}
		for i, c := range cases {
			if err := Safe(func() error { return s.Prop(c) }); err != nil {
				return fmt.Errorf("case %d of round %d, alone: %v", i, cc.Round, err)
			}
		}
		for rep := 0; rep < 3; rep++ {
			errs := make([]error, cc.G)
			var wg sync.WaitGroup
			start := make(chan struct{})
			for w := 0; w < cc.G; w++ {
				wg.Add(1)
				go func(w int) {
					defer wg.Done()
					<-start
					for j := 0; j < len(cases) && errs[w] == nil; j++ {
						i := (j + w*(rep+1)) % len(cases)
						if err := Safe(func() error { return s.Prop(cases[i]) }); err != nil {
							errs[w] = fmt.Errorf("case %d of round %d, which holds alone, fails while %d other goroutines evaluate cases on values of their own: %v", i, cc.Round, cc.G-1, err)
						}
					}
				}(w)
			}
			close(start)
			wg.Wait()
			for _, e := range errs {
				if e != nil {
					return e
				}
			}
		}
		return nil
	}
	return Spec[ConcCase]{ID: s.ID, Name: "concurrent", Prop: prop, Classify: func(c ConcCase) ([]string, bool) {
		return []string{"concurrent-cases", fmt.Sprintf("goroutines:%d", c.G)}, true
	}}
}

// ConcurrentSweep runs rounds of 24 cases in 8 or 16 goroutines (this shard's share).
func ConcurrentSweep(t *testing.T, cs Spec[ConcCase], rounds int) {
	shard, shards := Shard()
	for r := 0; r < rounds; r++ {
		if r%shards != shard {
			continue
		}
		c := ConcCase{Round: r, K: 24, G: 8 + 8*(r%2)}
		ev.Default.CaseHash(uint64(r)|1<<52, "concurrent", true, func() any { return c })
		if !One(t, cs, c) {
			return
		}
	}
}
