// Package refwkt is an independent WKT writer (with spelling variants) and a
// recursive-descent reader of the OGC 06-103r4 / PostGIS WKT grammar. The
// reader uses only strconv.ParseFloat and shares no code with go-geom.
package refwkt

import (
	"fmt"
	"strconv"
	"strings"

	geom "github.com/twpayne/go-geom"

	"verifharness/internal/model"
)

// Chooser supplies the spelling choices: Choose(n, label) returns 0..n-1.
// A nil Chooser always returns 0 (canonical spelling: upper case, single
// spaces, detached suffix, parenthesised multipoint members, shortest 'f').
type Chooser func(n int, label string) int

func (c Chooser) pick(n int, label string) int {
	if c == nil || n <= 1 {
		return 0
	}
	return c(n, label)
}

var keyword = map[string]string{
	model.Point: "POINT", model.LineString: "LINESTRING", model.LinearRing: "LINESTRING", model.Polygon: "POLYGON",
	model.MultiPoint: "MULTIPOINT", model.MultiLineString: "MULTILINESTRING", model.MultiPolygon: "MULTIPOLYGON",
	model.GeometryCollection: "GEOMETRYCOLLECTION",
}

type writer struct {
	sb strings.Builder
	c  Chooser
	// tagged is the nesting depth inside collections written with a Z/M/ZM tag
	tagged int
}

var spaces = []string{" ", "\t", "\n", "\r", "\r\n"}

// ws writes 0..3 whitespace characters (at least min).
func (w *writer) ws(min int) {
	n := min + w.c.pick(3, "ws")
	if w.c == nil {
		n = min
	}
	for i := 0; i < n; i++ {
		if w.c == nil {
			w.sb.WriteString(" ")
		} else {
			w.sb.WriteString(spaces[w.c.pick(len(spaces), "wschar")])
		}
	}
}

func (w *writer) word(s string) {
	mode := w.c.pick(4, "case") // 0 upper, 1 lower, 2 title, 3 per letter
	for i, r := range s {
		up := true
		switch mode {
		case 1:
			up = false
		case 2:
			up = i == 0
		case 3:
			up = w.c.pick(2, "letter") == 0
		}
		if up {
			w.sb.WriteString(strings.ToUpper(string(r)))
		} else {
			w.sb.WriteString(strings.ToLower(string(r)))
		}
	}
}

// Number formats v in one of the standard spellings; every spelling parses
// back to exactly v.
func Number(v float64, style int) string {
	f := strconv.FormatFloat(v, 'f', -1, 64)
	switch style {
	case 1:
		return strconv.FormatFloat(v, 'e', -1, 64)
	case 2:
		return strconv.FormatFloat(v, 'E', -1, 64)
	case 3:
		return strconv.FormatFloat(v, 'g', -1, 64)
	case 4:
		if !strings.ContainsAny(f, ".eE") {
			return f + ".0"
		}
	case 5:
		// exponent without a sign for non-negative exponents: 1.5e3
		s := strconv.FormatFloat(v, 'e', -1, 64)
		return strings.Replace(s, "e+", "e", 1)
	case 6:
		if !strings.ContainsAny(f, ".eE") {
			return f + "."
		}
	case 7, 8, 9:
		// scientific notation that is not normalised (15e2, 0.015e5, 0e5, -0.0E-7): the
		// same decimal number with the point moved and the exponent adjusted
		if v != v || v > 1.7e308 || v < -1.7e308 {
			return f
		}
		s := strconv.FormatFloat(v, 'e', -1, 64) // d[.ddd]e±xx
		mant, exps, _ := strings.Cut(s, "e")
		x, _ := strconv.Atoi(exps)
		neg := strings.HasPrefix(mant, "-")
		mant = strings.TrimPrefix(mant, "-")
		ip, fp, _ := strings.Cut(mant, ".")
		switch style {
		case 7: // all digits before the point
			x -= len(fp)
			ip, fp = ip+fp, ""
		case 8: // a zero before the point
			x += len(ip)
			ip, fp = "0", ip+fp
		default: // exponent moved by a few places, padded with zeros
			x -= 3
			fp += "000"
			ip, fp = ip+fp[:3], fp[3:]
		}
		if v == 0 {
			x = []int{5, -7, 10}[style-7] // any exponent: the number is zero
		}
		out := ip
		if fp != "" {
			out += "." + fp
		}
		if neg {
			out = "-" + out
		}
		e := "e"
		if style == 8 {
			e = "E"
		}
		if x >= 0 && style == 9 {
			return out + e + "+" + strconv.Itoa(x)
		}
		return out + e + strconv.Itoa(x)
	}
	return f
}

func (w *writer) coord(c []model.F) {
	for i, v := range c {
		if i > 0 {
			w.ws(1)
		}
		w.sb.WriteString(Number(v.V(), w.c.pick(10, "numstyle")))
	}
}

// writtenEmpty reports whether g is spelled "<KEYWORD> EMPTY".
func writtenEmpty(g *model.G) bool {
	switch g.Kind {
	case model.Point:
		return g.C0 == nil
	case model.LineString, model.LinearRing, model.MultiPoint:
		return len(g.C1) == 0
	case model.Polygon, model.MultiLineString:
		return len(g.C2) == 0
	case model.MultiPolygon:
		return len(g.C3) == 0
	case model.GeometryCollection:
		return len(g.Members) == 0
	}
	return false
}

func (w *writer) tag(g *model.G, l geom.Layout) {
	kind := g.Kind
	w.word(keyword[kind])
	// A base-type EMPTY member of a collection tagged Z/M/ZM takes the
	// collection's dimension (PostGIS; documented in go-geom's lexer): the
	// suffix may be left out there.
	if w.tagged > 0 && l != geom.XY && writtenEmpty(g) && w.c.pick(4, "untaggedEmpty") == 1 {
		return
	}
	suffix := ""
	switch l {
	case geom.XYZ:
		suffix = "Z"
	case geom.XYM:
		suffix = "M"
	case geom.XYZM:
		suffix = "ZM"
	}
	if suffix != "" {
		if w.c.pick(2, "attached") == 1 {
			w.word(suffix) // POINTZ
		} else {
			w.ws(1)
			w.word(suffix)
		}
	}
}

func (w *writer) empty() {
	w.ws(1)
	w.word("EMPTY")
}

func (w *writer) open()  { w.ws(0); w.sb.WriteString("("); w.ws(0) }
func (w *writer) close() { w.ws(0); w.sb.WriteString(")") }
func (w *writer) comma() { w.ws(0); w.sb.WriteString(","); w.ws(0) }

func (w *writer) line(cs [][]model.F) {
	w.open()
	for i, c := range cs {
		if i > 0 {
			w.comma()
		}
		w.coord(c)
	}
	w.close()
}

func (w *writer) rings(rs [][][]model.F) {
	w.open()
	for i, r := range rs {
		if i > 0 {
			w.comma()
		}
		w.line(r)
	}
	w.close()
}

func (w *writer) memberEmpty() {
	w.ws(0)
	w.word("EMPTY")
}

func (w *writer) geom(g *model.G) error {
	l := g.ReportedLayout()
	if g.IsCollection() && len(g.Members) == 0 && l == geom.NoLayout {
		l = geom.XY
	}
	switch l {
	case geom.XY, geom.XYZ, geom.XYM, geom.XYZM:
	default:
		return fmt.Errorf("refwkt: layout %v not expressible", l)
	}
	w.tag(g, l)
	switch g.Kind {
	case model.Point:
		if g.C0 == nil {
			w.empty()
			return nil
		}
		w.open()
		w.coord(g.C0)
		w.close()
	case model.LineString, model.LinearRing:
		if len(g.C1) == 0 {
			w.empty()
			return nil
		}
		w.line(g.C1)
	case model.Polygon:
		if len(g.C2) == 0 {
			w.empty()
			return nil
		}
		w.rings(g.C2)
	case model.MultiPoint:
		if len(g.C1) == 0 {
			w.empty()
			return nil
		}
		w.open()
		for i, c := range g.C1 {
			if i > 0 {
				w.comma()
			}
			if c == nil {
				w.memberEmpty()
			} else if w.c.pick(2, "bare") == 1 {
				w.coord(c)
			} else {
				w.open()
				w.coord(c)
				w.close()
			}
		}
		w.close()
	case model.MultiLineString:
		if len(g.C2) == 0 {
			w.empty()
			return nil
		}
		w.open()
		for i, cs := range g.C2 {
			if i > 0 {
				w.comma()
			}
			if len(cs) == 0 {
				w.memberEmpty()
			} else {
				w.line(cs)
			}
		}
		w.close()
	case model.MultiPolygon:
		if len(g.C3) == 0 {
			w.empty()
			return nil
		}
		w.open()
		for i, rs := range g.C3 {
			if i > 0 {
				w.comma()
			}
			if len(rs) == 0 {
				w.memberEmpty()
			} else {
				w.rings(rs)
			}
		}
		w.close()
	case model.GeometryCollection:
		if len(g.Members) == 0 {
			w.empty()
			return nil
		}
		w.open()
		if l != geom.XY {
			w.tagged++
		}
		for i := range g.Members {
			if i > 0 {
				w.comma()
			}
			if err := w.geom(&g.Members[i]); err != nil {
				return err
			}
		}
		if l != geom.XY {
			w.tagged--
		}
		w.close()
	default:
		return fmt.Errorf("refwkt: kind %q", g.Kind)
	}
	return nil
}

// Write spells g as WKT with the choices of c (nil = canonical).
func Write(g *model.G, c Chooser) (string, error) {
	w := &writer{c: c}
	w.ws(0)
	if err := w.geom(g); err != nil {
		return "", err
	}
	w.ws(0)
	return w.sb.String(), nil
}

// ---- tokens ----------------------------------------------------------------

// Token kinds.
const (
	TWord = iota
	TNum
	TPunct
)

// Token is one lexical token.
type Token struct {
	Kind int
	Text string
	Val  float64
	Pos  int
}

func isSpace(b byte) bool {
	return b == ' ' || b == '\t' || b == '\n' || b == '\r' || b == '\f' || b == '\v'
}
func isAlpha(b byte) bool { return b >= 'a' && b <= 'z' || b >= 'A' && b <= 'Z' }
func isNumCh(b byte) bool {
	return b >= '0' && b <= '9' || b == '.' || b == '-' || b == '+' || b == 'e' || b == 'E'
}

// Tokens splits s into words, numbers and punctuation.
func Tokens(s string) ([]Token, error) {
	var out []Token
	for i := 0; i < len(s); {
		b := s[i]
		switch {
		case isSpace(b):
			i++
		case b == '(' || b == ')' || b == ',':
			out = append(out, Token{Kind: TPunct, Text: string(b), Pos: i})
			i++
		case isAlpha(b):
			j := i
			for j < len(s) && isAlpha(s[j]) {
				j++
			}
			out = append(out, Token{Kind: TWord, Text: strings.ToUpper(s[i:j]), Pos: i})
			i = j
		case b >= '0' && b <= '9' || b == '.' || b == '-':
			j := i
			for j < len(s) && isNumCh(s[j]) {
				j++
			}
			v, err := strconv.ParseFloat(s[i:j], 64)
			if err != nil {
				return nil, fmt.Errorf("refwkt: bad number %q at %d", s[i:j], i)
			}
			out = append(out, Token{Kind: TNum, Text: s[i:j], Val: v, Pos: i})
			i = j
		default:
			return nil, fmt.Errorf("refwkt: bad character %q at %d", b, i)
		}
	}
	return out, nil
}

// ---- reader ----------------------------------------------------------------

type parser struct {
	toks []Token
	i    int
}

func (p *parser) peek() *Token {
	if p.i < len(p.toks) {
		return &p.toks[p.i]
	}
	return nil
}

func (p *parser) punct(s string) bool {
	if t := p.peek(); t != nil && t.Kind == TPunct && t.Text == s {
		p.i++
		return true
	}
	return false
}

func (p *parser) word(s string) bool {
	if t := p.peek(); t != nil && t.Kind == TWord && t.Text == s {
		p.i++
		return true
	}
	return false
}

var kinds = map[string]string{
	"POINT": model.Point, "LINESTRING": model.LineString, "POLYGON": model.Polygon, "MULTIPOINT": model.MultiPoint,
	"MULTILINESTRING": model.MultiLineString, "MULTIPOLYGON": model.MultiPolygon, "GEOMETRYCOLLECTION": model.GeometryCollection,
}

func layoutOf(n int, tagged geom.Layout) (geom.Layout, error) {
	if tagged != geom.NoLayout {
		if tagged.Stride() != n {
			return 0, fmt.Errorf("refwkt: %d ordinates in a %v geometry", n, tagged)
		}
		return tagged, nil
	}
	switch n {
	case 2:
		return geom.XY, nil
	case 3:
		return geom.XYZ, nil
	case 4:
		return geom.XYZM, nil
	}
	return 0, fmt.Errorf("refwkt: %d ordinates", n)
}

func (p *parser) coord() ([]model.F, error) {
	var c []model.F
	for {
		t := p.peek()
		if t == nil || t.Kind != TNum {
			break
		}
		c = append(c, model.Of(t.Val))
		p.i++
	}
	if len(c) < 2 || len(c) > 4 {
		return nil, fmt.Errorf("refwkt: coordinate with %d ordinates", len(c))
	}
	return c, nil
}

func (p *parser) line() ([][]model.F, error) {
	if !p.punct("(") {
		return nil, fmt.Errorf("refwkt: expected (")
	}
	var cs [][]model.F
	for {
		c, err := p.coord()
		if err != nil {
			return nil, err
		}
		cs = append(cs, c)
		if p.punct(",") {
			continue
		}
		break
	}
	if !p.punct(")") {
		return nil, fmt.Errorf("refwkt: expected )")
	}
	return cs, nil
}

func (p *parser) rings() ([][][]model.F, error) {
	if !p.punct("(") {
		return nil, fmt.Errorf("refwkt: expected (")
	}
	var rs [][][]model.F
	for {
		r, err := p.line()
		if err != nil {
			return nil, err
		}
		rs = append(rs, r)
		if p.punct(",") {
			continue
		}
		break
	}
	if !p.punct(")") {
		return nil, fmt.Errorf("refwkt: expected )")
	}
	return rs, nil
}

// geometry parses one tagged geometry; outer is the layout imposed by an
// enclosing tagged collection (NoLayout = none).
func (p *parser) geometry(outer geom.Layout) (*model.G, error) {
	t := p.peek()
	if t == nil || t.Kind != TWord {
		return nil, fmt.Errorf("refwkt: expected a geometry keyword")
	}
	name := t.Text
	tagged := geom.NoLayout
	// attached suffix
	for _, suf := range []struct {
		s string
		l geom.Layout
	}{{"ZM", geom.XYZM}, {"Z", geom.XYZ}, {"M", geom.XYM}} {
		if strings.HasSuffix(name, suf.s) {
			if _, ok := kinds[strings.TrimSuffix(name, suf.s)]; ok {
				name = strings.TrimSuffix(name, suf.s)
				tagged = suf.l
				break
			}
		}
	}
	kind, ok := kinds[name]
	if !ok {
		return nil, fmt.Errorf("refwkt: unknown keyword %q", t.Text)
	}
	p.i++
	if tagged == geom.NoLayout {
		switch {
		case p.word("ZM"):
			tagged = geom.XYZM
		case p.word("Z"):
			tagged = geom.XYZ
		case p.word("M"):
			tagged = geom.XYM
		}
	}
	g := &model.G{Kind: kind}
	setLayout := func(n int) error {
		l, err := layoutOf(n, tagged)
		if err != nil {
			return err
		}
		if g.Layout != 0 && geom.Layout(g.Layout) != l {
			return fmt.Errorf("refwkt: mixed dimensions")
		}
		g.Layout = int(l)
		return nil
	}
	emptyLayout := func() {
		switch {
		case tagged != geom.NoLayout:
			g.Layout = int(tagged)
		case outer != geom.NoLayout:
			// an untagged EMPTY inside a tagged collection takes its dimension
			g.Layout = int(outer)
		default:
			g.Layout = int(geom.XY)
		}
	}
	if p.word("EMPTY") {
		emptyLayout()
		switch kind {
		case model.LineString:
			g.C1 = [][]model.F{}
		case model.MultiPoint:
			g.C1 = [][]model.F{}
		}
		return g, nil
	}
	each1 := func(cs [][]model.F) error {
		for _, c := range cs {
			if err := setLayout(len(c)); err != nil {
				return err
			}
		}
		return nil
	}
	switch kind {
	case model.Point:
		if !p.punct("(") {
			return nil, fmt.Errorf("refwkt: expected (")
		}
		c, err := p.coord()
		if err != nil {
			return nil, err
		}
		if !p.punct(")") {
			return nil, fmt.Errorf("refwkt: expected )")
		}
		if err := setLayout(len(c)); err != nil {
			return nil, err
		}
		g.C0 = c
	case model.LineString:
		cs, err := p.line()
		if err != nil {
			return nil, err
		}
		if err := each1(cs); err != nil {
			return nil, err
		}
		g.C1 = cs
	case model.Polygon:
		rs, err := p.rings()
		if err != nil {
			return nil, err
		}
		for _, r := range rs {
			if err := each1(r); err != nil {
				return nil, err
			}
		}
		g.C2 = rs
	case model.MultiPoint:
		if !p.punct("(") {
			return nil, fmt.Errorf("refwkt: expected (")
		}
		g.C1 = [][]model.F{}
		for {
			switch {
			case p.word("EMPTY"):
				g.C1 = append(g.C1, nil)
			case p.punct("("):
				c, err := p.coord()
				if err != nil {
					return nil, err
				}
				if !p.punct(")") {
					return nil, fmt.Errorf("refwkt: expected )")
				}
				g.C1 = append(g.C1, c)
			default:
				c, err := p.coord()
				if err != nil {
					return nil, err
				}
				g.C1 = append(g.C1, c)
			}
			if p.punct(",") {
				continue
			}
			break
		}
		if !p.punct(")") {
			return nil, fmt.Errorf("refwkt: expected )")
		}
		for _, c := range g.C1 {
			if c != nil {
				if err := setLayout(len(c)); err != nil {
					return nil, err
				}
			}
		}
		if g.Layout == 0 {
			emptyLayout()
		}
	case model.MultiLineString:
		if !p.punct("(") {
			return nil, fmt.Errorf("refwkt: expected (")
		}
		g.C2 = [][][]model.F{}
		for {
			if p.word("EMPTY") {
				g.C2 = append(g.C2, [][]model.F{})
			} else {
				cs, err := p.line()
				if err != nil {
					return nil, err
				}
				if err := each1(cs); err != nil {
					return nil, err
				}
				g.C2 = append(g.C2, cs)
			}
			if p.punct(",") {
				continue
			}
			break
		}
		if !p.punct(")") {
			return nil, fmt.Errorf("refwkt: expected )")
		}
		if g.Layout == 0 {
			emptyLayout()
		}
	case model.MultiPolygon:
		if !p.punct("(") {
			return nil, fmt.Errorf("refwkt: expected (")
		}
		g.C3 = [][][][]model.F{}
		for {
			if p.word("EMPTY") {
				g.C3 = append(g.C3, [][][]model.F{})
			} else {
				rs, err := p.rings()
				if err != nil {
					return nil, err
				}
				for _, r := range rs {
					if err := each1(r); err != nil {
						return nil, err
					}
				}
				g.C3 = append(g.C3, rs)
			}
			if p.punct(",") {
				continue
			}
			break
		}
		if !p.punct(")") {
			return nil, fmt.Errorf("refwkt: expected )")
		}
		if g.Layout == 0 {
			emptyLayout()
		}
	case model.GeometryCollection:
		if !p.punct("(") {
			return nil, fmt.Errorf("refwkt: expected (")
		}
		for {
			m, err := p.geometry(tagged)
			if err != nil {
				return nil, err
			}
			g.Members = append(g.Members, *m)
			if p.punct(",") {
				continue
			}
			break
		}
		if !p.punct(")") {
			return nil, fmt.Errorf("refwkt: expected )")
		}
		// a non-empty collection reports the join of its members; the tag is
		// checked against it
		g.Layout = 0
		if tagged != geom.NoLayout && g.ReportedLayout() != tagged {
			return nil, fmt.Errorf("refwkt: collection tagged %v holds %v members", tagged, g.ReportedLayout())
		}
	}
	return g, nil
}

// Read parses one WKT geometry.
func Read(s string) (*model.G, error) {
	toks, err := Tokens(s)
	if err != nil {
		return nil, err
	}
	p := &parser{toks: toks}
	g, err := p.geometry(geom.NoLayout)
	if err != nil {
		return nil, err
	}
	if p.i != len(toks) {
		return nil, fmt.Errorf("refwkt: trailing tokens")
	}
	return g, nil
}
