// Package ev collects the evidence a check process produces: how many cases
// were evaluated, how they distribute over named classes, how many distinct
// non-trivial cases there were (64-bit FNV-1a of the canonical JSON of the
// case), numeric calibration maxima, and a few samples.
package ev

import (
	"encoding/binary"
	"encoding/json"
	"hash/fnv"
	"os"
	"sort"
	"sync"
)

// Collector accumulates evidence. It is safe for concurrent use.
type Collector struct {
	mu          sync.Mutex
	Evaluations int64
	Classes     map[string]int64
	hashes      map[uint64]struct{}
	Samples     []json.RawMessage
	Max         map[string]float64
	Counters    map[string]int64
	Exhaustive  map[string]int64
	Notes       []string
	nextSample  int64
}

// Default is the process-wide collector.
var Default = New()

// New returns an empty collector.
func New() *Collector {
	return &Collector{
		Classes:    map[string]int64{},
		hashes:     map[uint64]struct{}{},
		Max:        map[string]float64{},
		Counters:   map[string]int64{},
		Exhaustive: map[string]int64{},
		nextSample: 1,
	}
}

// Hash returns the 64-bit FNV-1a hash of the JSON encoding of v.
func Hash(v any) uint64 {
	b, err := json.Marshal(v)
	if err != nil {
		panic(err)
	}
	h := fnv.New64a()
	h.Write(b)
	return h.Sum64()
}

// HashBytes hashes raw bytes.
func HashBytes(b []byte) uint64 {
	h := fnv.New64a()
	h.Write(b)
	return h.Sum64()
}

// Case records one evaluated case. classes are histogram labels; nontrivial
// says whether the case satisfies the property's non-triviality rule; c is the
// case itself (hashed when non-trivial, sampled at geometric positions).
func (e *Collector) Case(c any, classes []string, nontrivial bool) {
	e.mu.Lock()
	defer e.mu.Unlock()
	e.Evaluations++
	for _, cl := range classes {
		e.Classes[cl]++
	}
	if nontrivial {
		e.Classes["nontrivial"]++
		e.hashes[Hash(c)] = struct{}{}
	}
	if e.Evaluations == e.nextSample && len(e.Samples) < 8 {
		e.nextSample *= 7
		if b, err := json.Marshal(c); err == nil {
			if len(b) > 3000 {
				b, _ = json.Marshal(string(b[:3000]) + "...(truncated)")
			}
			e.Samples = append(e.Samples, b)
		}
	}
}

// CaseHash records a case identified by a precomputed hash (used by the
// exhaustive loops, where marshalling every case would dominate the cost).
func (e *Collector) CaseHash(h uint64, class string, nontrivial bool, sample func() any) {
	e.mu.Lock()
	defer e.mu.Unlock()
	e.Evaluations++
	if class != "" {
		e.Classes[class]++
	}
	if nontrivial {
		e.Classes["nontrivial"]++
		e.hashes[h] = struct{}{}
	}
	if e.Evaluations == e.nextSample && len(e.Samples) < 8 {
		e.nextSample *= 7
		if sample != nil {
			if b, err := json.Marshal(sample()); err == nil {
				e.Samples = append(e.Samples, b)
			}
		}
	}
}

// Count adds n to a named counter.
func (e *Collector) Count(name string, n int64) {
	e.mu.Lock()
	e.Counters[name] += n
	e.mu.Unlock()
}

// Class adds n to a class of the histogram without counting an evaluation.
func (e *Collector) Class(name string, n int64) {
	e.mu.Lock()
	e.Classes[name] += n
	e.mu.Unlock()
}

// MaxOf records the maximum of a named calibration value.
func (e *Collector) MaxOf(name string, v float64) {
	e.mu.Lock()
	if old, ok := e.Max[name]; !ok || v > old {
		e.Max[name] = v
	}
	e.mu.Unlock()
}

// ExhaustiveSpace records that a finite sub-space was enumerated completely.
func (e *Collector) ExhaustiveSpace(name string, size int64) {
	e.mu.Lock()
	e.Exhaustive[name] += size
	e.mu.Unlock()
}

// Note adds a free-text note.
func (e *Collector) Note(s string) {
	e.mu.Lock()
	e.Notes = append(e.Notes, s)
	e.mu.Unlock()
}

// Distinct returns the number of distinct non-trivial cases so far.
func (e *Collector) Distinct() int {
	e.mu.Lock()
	defer e.mu.Unlock()
	return len(e.hashes)
}

type shardFile struct {
	Evaluations int64              `json:"evaluations"`
	Distinct    int                `json:"distinct_nontrivial"`
	Classes     map[string]int64   `json:"classes"`
	Samples     []json.RawMessage  `json:"samples"`
	Max         map[string]float64 `json:"max"`
	Counters    map[string]int64   `json:"counters"`
	Exhaustive  map[string]int64   `json:"exhaustive_subspaces"`
	Notes       []string           `json:"notes"`
}

// Flush writes <prefix>.json (counters) and <prefix>.hashes (sorted 8-byte
// little-endian hashes of the distinct non-trivial cases).
func (e *Collector) Flush(prefix string) error {
	e.mu.Lock()
	defer e.mu.Unlock()
	sf := shardFile{e.Evaluations, len(e.hashes), e.Classes, e.Samples, e.Max, e.Counters, e.Exhaustive, e.Notes}
	b, err := json.MarshalIndent(sf, "", " ")
	if err != nil {
		return err
	}
	if err := os.WriteFile(prefix+".json", b, 0o644); err != nil {
		return err
	}
	hs := make([]uint64, 0, len(e.hashes))
	for h := range e.hashes {
		hs = append(hs, h)
	}
	sort.Slice(hs, func(i, j int) bool { return hs[i] < hs[j] })
	buf := make([]byte, 8*len(hs))
	for i, h := range hs {
		binary.LittleEndian.PutUint64(buf[8*i:], h)
	}
	return os.WriteFile(prefix+".hashes", buf, 0o644)
}
