// Package gen holds the shared rapid generators: layouts, float64 bit
// patterns by class, nested coordinates and geometry trees (as model.G).
package gen

import (
	"math"
	"strconv"

	geom "github.com/twpayne/go-geom"
	"pgregory.net/rapid"

	"verifharness/internal/model"
)

// Float classes (bit mask).
const (
	SmallInt   = 1 << iota // integers -16..16
	Moderate               // exponent -30..30, random mantissa
	FullRange              // any finite normal double
	Denormal               // subnormals
	Zeros                  // +0, -0
	Infs                   // +Inf, -Inf
	CanonNaN               // 0x7FF8000000000000 (go-geom's empty-point marker)
	OtherNaN               // other quiet/signalling/negative NaN payloads
	Decimalish             // short decimals k/10^d
	Big200                 // magnitudes up to 2^200, mixed
	IntEdge                // whole numbers at and around the limits of machine integers (2^15, 2^31, 2^53, 2^63)
	Finite     = SmallInt | Moderate | FullRange | Denormal | Zeros | Decimalish | IntEdge
	AllBits    = Finite | Infs | CanonNaN | OtherNaN
	NoNaN      = Finite | Infs
)

// CanonicalNaN is go-geom's empty-coordinate marker.
const CanonicalNaN = 0x7FF8000000000000

// Float draws a float64 bit pattern from the union of the given classes.
func Float(t *rapid.T, classes int) model.F {
	var opts []int
	add := func(c, weight int) {
		if classes&c != 0 {
			for i := 0; i < weight; i++ {
				opts = append(opts, c)
			}
		}
	}
	add(SmallInt, 6)
	add(Moderate, 4)
	add(FullRange, 2)
	add(Denormal, 1)
	add(Zeros, 1)
	add(Infs, 1)
	add(CanonNaN, 1)
	add(OtherNaN, 1)
	add(Decimalish, 3)
	add(Big200, 3)
	add(IntEdge, 1)
	if len(opts) == 0 {
		panic("gen.Float: no class")
	}
	switch rapid.SampledFrom(opts).Draw(t, "fclass") {
	case SmallInt:
		return model.Of(float64(rapid.IntRange(-16, 16).Draw(t, "i")))
	case Moderate:
		e := rapid.IntRange(-30, 30).Draw(t, "e")
		m := rapid.Uint64Range(0, 1<<52-1).Draw(t, "m")
		s := rapid.Uint64Range(0, 1).Draw(t, "s")
		return model.F(s<<63 | uint64(e+1023)<<52 | m)
	case FullRange:
		e := rapid.Uint64Range(1, 2046).Draw(t, "e")
		m := rapid.Uint64Range(0, 1<<52-1).Draw(t, "m")
		s := rapid.Uint64Range(0, 1).Draw(t, "s")
		return model.F(s<<63 | e<<52 | m)
	case Denormal:
		m := rapid.Uint64Range(1, 1<<52-1).Draw(t, "m")
		s := rapid.Uint64Range(0, 1).Draw(t, "s")
		return model.F(s<<63 | m)
	case Zeros:
		return model.F(rapid.Uint64Range(0, 1).Draw(t, "s") << 63)
	case Infs:
		return model.F(rapid.Uint64Range(0, 1).Draw(t, "s")<<63 | 0x7FF<<52)
	case CanonNaN:
		return model.F(CanonicalNaN)
	case OtherNaN:
		m := rapid.Uint64Range(1, 1<<52-1).Draw(t, "m")
		s := rapid.Uint64Range(0, 1).Draw(t, "s")
		f := model.F(s<<63 | 0x7FF<<52 | m)
		if f == CanonicalNaN {
			f++
		}
		return f
	case Decimalish:
		k := rapid.Int64Range(-1000000, 1000000).Draw(t, "k")
		d := rapid.IntRange(0, 8).Draw(t, "d")
		if rapid.IntRange(0, 3).Draw(t, "dlong") == 0 {
			// few significant digits a long way behind the point (1e-23, 0.00...042):
			// the shortest decimal form has 9 to 40 fractional digits; parsed from its
			// text so that the value is the double nearest to that decimal
			d = rapid.IntRange(9, 40).Draw(t, "dl")
			v, _ := strconv.ParseFloat(strconv.FormatInt(k, 10)+"e-"+strconv.Itoa(d), 64)
			return model.Of(v)
		}
		v := float64(k) / math.Pow10(d)
		// the doubles next to a short decimal (what arithmetic such as float64(e7)*1e-7
		// produces): their shortest form is long, a formatter that looks for the short
		// decimal nearby must not mistake them for it
		switch rapid.IntRange(0, 5).Draw(t, "ulp") {
		case 0:
			v = math.Nextafter(v, math.Inf(1))
		case 1:
			v = math.Nextafter(v, math.Inf(-1))
		case 2:
			v = float64(k) * math.Pow(10, -float64(d)) // the product instead of the quotient
		}
		return model.Of(v)
	case IntEdge:
		// fixed-point data (1e-7 degrees in int32, millimetres in int64) and any fast path
		// that computes in machine integers: the limits, their neighbours, anything between
		k := uint(rapid.SampledFrom([]int{15, 16, 31, 31, 31, 32, 53, 62, 63}).Draw(t, "ik"))
		lim := math.Ldexp(1, int(k))
		var v float64
		switch rapid.IntRange(0, 4).Draw(t, "iwhich") {
		case 0:
			v = lim
		case 1:
			v = lim - 1
		case 2:
			v = -lim
		default:
			v = math.Floor(rapid.Float64Range(-lim, lim).Draw(t, "iv"))
		}
		return model.Of(v)
	case Big200:
		e := rapid.IntRange(-60, 200).Draw(t, "e")
		m := rapid.Uint64Range(0, 1<<52-1).Draw(t, "m")
		s := rapid.Uint64Range(0, 1).Draw(t, "s")
		return model.F(s<<63 | uint64(e+1023)<<52 | m)
	}
	panic("unreachable")
}

// Layouts.
var (
	Layouts4   = []geom.Layout{geom.XY, geom.XYZ, geom.XYM, geom.XYZM}
	LayoutsAll = []geom.Layout{geom.XY, geom.XYZ, geom.XYM, geom.XYZM, geom.Layout(5), geom.Layout(6), geom.Layout(7), geom.Layout(9)}
)

// Layout draws one of the given layouts.
func Layout(t *rapid.T, from []geom.Layout) geom.Layout {
	return rapid.SampledFrom(from).Draw(t, "layout")
}

// TreeOpts configures Tree.
type TreeOpts struct {
	Layouts  []geom.Layout // candidate layouts
	Kinds    []string      // candidate kinds (default: the seven + collection)
	Floats   int           // float classes
	MaxDepth int           // max collection nesting (0 = no collections)
	MaxParts int           // max parts per level (default 4)
	MaxPts   int           // max coordinates per line/ring (default 6)
	// Valid makes lines have 0 or >=2 points and rings be closed with >=4
	// points (what WKT can express); polygons then have no empty rings.
	Valid bool
	// MixLayouts lets members of a collection have different layouts.
	MixLayouts bool
	// NoEmptyPoint forbids empty points and empty multipoint members.
	NoEmptyPoint bool
	// FixEmptyCollections gives every empty collection a fixed layout.
	FixEmptyCollections bool
	// FixedCollectionProb: probability (percent) that a non-empty collection gets a fixed layout (only when not mixing).
	FixedCollectionPct int
	// SRID draws the SRID of the top-level geometry (nil = 0).
	SRID func(*rapid.T) int
	// PEmpty is the percentage of empty components (default 20).
	PEmpty int
	// LongPct is the percentage of lines/rings that are long (65..LongMax
	// coordinates, default LongMax 300): size thresholds inside the code under
	// test (block sizes, switches to another algorithm) sit far above MaxPts.
	LongPct int
	LongMax int
}

// AllKinds lists the kinds Tree can produce.
var AllKinds = []string{
	model.Point, model.LineString, model.Polygon, model.MultiPoint,
	model.MultiLineString, model.MultiPolygon, model.GeometryCollection,
}

// SevenKinds are the seven concrete geometry types of the root package.
var SevenKinds = []string{
	model.Point, model.LineString, model.LinearRing, model.Polygon, model.MultiPoint,
	model.MultiLineString, model.MultiPolygon,
}

func (o *TreeOpts) defaults() {
	if o.MaxParts == 0 {
		o.MaxParts = 4
	}
	if o.MaxPts == 0 {
		o.MaxPts = 6
	}
	if o.PEmpty == 0 {
		o.PEmpty = 20
	}
	if o.Kinds == nil {
		o.Kinds = AllKinds
	}
	if o.Floats == 0 {
		o.Floats = Finite
	}
	if o.Layouts == nil {
		o.Layouts = Layouts4
	}
}

func pct(t *rapid.T, p int, label string) bool {
	return rapid.IntRange(0, 99).Draw(t, label) < p
}

// Coord draws one coordinate of the given stride.
func Coord(t *rapid.T, stride, classes int) []model.F {
	c := make([]model.F, stride)
	// a whole coordinate of the empty-point marker: a real (if odd) position for a
	// setter, the encoding of POINT EMPTY for a decoder
	if classes&CanonNaN != 0 && stride > 0 && rapid.IntRange(0, 39).Draw(t, "allcanon") == 0 {
		for i := range c {
			c[i] = model.F(CanonicalNaN)
		}
		return c
	}
	for i := range c {
		c[i] = Float(t, classes)
	}
	return c
}

// count draws a component count biased to 0, 1 and a few.
func count(t *rapid.T, max int, label string) int {
	if max < 0 {
		max = 0
	}
	return rapid.IntRange(0, max).Draw(t, label)
}

// countMany is count, except that where long components are asked for (LongPct) one
// multi-part geometry in five hundred has 255..258 or 300 parts: the counts around which
// an 8-bit counter, a fixed table or a block of parts runs out.
func countMany(t *rapid.T, o *TreeOpts, max int, label string) int {
	if o.LongPct > 0 && rapid.IntRange(0, 499).Draw(t, label+"many") == 257 {
		return rapid.SampledFrom([]int{255, 256, 257, 258, 300}).Draw(t, label+"manyn")
	}
	return count(t, max, label)
}

// longSize draws the length of a long line or ring: 65..lm coordinates, or (one
// time in four) a length that puts the number of coordinates or of ordinates at,
// just below or just above a power of two between 256 and 2048 - chunk sizes,
// pooled buffers and algorithm switches sit at such constants.
func longSize(t *rapid.T, lm, stride int, label string) int {
	if rapid.IntRange(0, 3).Draw(t, label+"pow2") != 0 {
		return rapid.IntRange(65, lm).Draw(t, label)
	}
	n := rapid.SampledFrom([]int{256, 512, 1024, 2048}).Draw(t, label+"p") + rapid.IntRange(-1, 1).Draw(t, label+"d")
	if stride > 1 && rapid.Bool().Draw(t, label+"ord") {
		n = (n + stride - 1) / stride // the ordinate count is at the power of two
	}
	if n < 65 {
		n = 65
	}
	return n
}

// Line draws a coordinate list. With valid it has 0 or >= 2 points.
func Line(t *rapid.T, o *TreeOpts, stride int) [][]model.F {
	if pct(t, o.PEmpty, "emptyline") {
		return [][]model.F{}
	}
	n := rapid.IntRange(1, o.MaxPts).Draw(t, "npts")
	if o.LongPct > 0 && pct(t, o.LongPct, "longline") {
		lm := o.LongMax
		if lm == 0 {
			lm = 300
		}
		n = longSize(t, lm, stride, "nlong")
	}
	if o.Valid && n < 2 {
		n = 2
	}
	out := make([][]model.F, n)
	for i := range out {
		out[i] = Coord(t, stride, o.Floats)
	}
	return out
}

// Ring draws a ring. With valid it is closed with >= 4 points (never empty);
// otherwise it is an arbitrary coordinate list, possibly empty.
func Ring(t *rapid.T, o *TreeOpts, stride int) [][]model.F {
	if !o.Valid {
		return Line(t, o, stride)
	}
	n := rapid.IntRange(3, max(3, o.MaxPts)).Draw(t, "nring")
	if o.LongPct > 0 && pct(t, o.LongPct, "longring") {
		lm := o.LongMax
		if lm == 0 {
			lm = 300
		}
		n = longSize(t, lm, stride, "nlongring")
	}
	out := make([][]model.F, n+1)
	for i := 0; i < n; i++ {
		out[i] = Coord(t, stride, o.Floats)
	}
	out[n] = append([]model.F{}, out[0]...)
	// a ring of measured data returns to its first vertex in x, y and z, with an M (the
	// last ordinate of four or more) of its own
	if stride >= 4 && pct(t, 25, "ownclosingm") {
		out[n][stride-1] = Float(t, o.Floats)
	}
	return out
}

// Poly draws a polygon's rings.
func Poly(t *rapid.T, o *TreeOpts, stride int) [][][]model.F {
	if pct(t, o.PEmpty, "emptypoly") {
		return [][][]model.F{}
	}
	n := rapid.IntRange(1, o.MaxParts).Draw(t, "nrings")
	if o.LongPct > 0 && rapid.IntRange(0, 499).Draw(t, "nringsmany") == 257 {
		n = rapid.SampledFrom([]int{255, 256, 257, 258, 300}).Draw(t, "nringsmanyn")
	}
	out := make([][][]model.F, n)
	for i := range out {
		out[i] = Ring(t, o, stride)
	}
	return out
}

// Tree draws a geometry tree.
func Tree(t *rapid.T, o TreeOpts) *model.G {
	o.defaults()
	l := Layout(t, o.Layouts)
	g := tree(t, &o, l, o.MaxDepth, o.Kinds)
	if o.SRID != nil {
		g.SRID = o.SRID(t)
	}
	return g
}

// Leaf draws a non-collection geometry of the given kind and layout.
func Leaf(t *rapid.T, o *TreeOpts, kind string, l geom.Layout) *model.G {
	o.defaults()
	g := &model.G{Kind: kind, Layout: int(l)}
	stride := l.Stride()
	switch kind {
	case model.Point:
		if !o.NoEmptyPoint && pct(t, o.PEmpty, "emptypt") {
			g.C0 = nil
		} else {
			g.C0 = Coord(t, stride, o.Floats)
		}
	case model.LineString:
		g.C1 = Line(t, o, stride)
	case model.LinearRing:
		g.C1 = Ring(t, o, stride)
	case model.MultiPoint:
		n := countMany(t, o, o.MaxParts+2, "nmp")
		g.C1 = make([][]model.F, n)
		for i := range g.C1 {
			if !o.NoEmptyPoint && pct(t, o.PEmpty, "emptymember") {
				g.C1[i] = nil
			} else {
				g.C1[i] = Coord(t, stride, o.Floats)
			}
		}
	case model.Polygon:
		g.C2 = Poly(t, o, stride)
	case model.MultiLineString:
		n := countMany(t, o, o.MaxParts, "nmls")
		g.C2 = make([][][]model.F, n)
		for i := range g.C2 {
			g.C2[i] = Line(t, o, stride)
		}
	case model.MultiPolygon:
		n := countMany(t, o, o.MaxParts, "nmpoly")
		g.C3 = make([][][][]model.F, n)
		for i := range g.C3 {
			g.C3[i] = Poly(t, o, stride)
		}
	default:
		panic("gen.Leaf: kind " + kind)
	}
	return g
}

func tree(t *rapid.T, o *TreeOpts, l geom.Layout, depth int, kinds []string) *model.G {
	var ks []string
	for _, k := range kinds {
		if k == model.GeometryCollection && depth <= 0 {
			continue
		}
		ks = append(ks, k)
	}
	if depth > 0 && len(ks) > 1 {
		// weight collections up so that nesting is common
		for _, k := range kinds {
			if k == model.GeometryCollection {
				ks = append(ks, k, k)
			}
		}
	}
	kind := rapid.SampledFrom(ks).Draw(t, "kind")
	if kind != model.GeometryCollection {
		return Leaf(t, o, kind, l)
	}
	g := &model.G{Kind: kind}
	n := countMany(t, o, o.MaxParts, "nmembers")
	if n >= 255 {
		// hundreds of members of one to three sorts (a member-less collection four times
		// in ten): whatever a decoder or encoder counts per member, per collection opened
		// or per collection closed reaches the hundreds, which hundreds of members of
		// random sorts do not give for any one sort
		k := rapid.SampledFrom([]int{1, 1, 2, 3}).Draw(t, "palette")
		// (the members themselves are small: no long lines and no hundreds of members
		// again inside each of hundreds of members)
		small := *o
		small.LongPct = 0
		o = &small
		var pal []model.G
		for i := 0; i < k; i++ {
			ml := l
			if o.MixLayouts {
				ml = Layout(t, o.Layouts)
			}
			if depth-1 > 0 && pct(t, 40, "paletteEmptyGC") {
				e := model.G{Kind: model.GeometryCollection}
				if o.FixEmptyCollections || pct(t, 50, "fixempty") {
					e.Layout = int(ml)
				}
				pal = append(pal, e)
			} else {
				pal = append(pal, *tree(t, o, ml, depth-1, kinds))
			}
		}
		for i := 0; i < n; i++ {
			g.Members = append(g.Members, *pal[i%k].Clone())
		}
	}
	for i := len(g.Members); i < n; i++ {
		ml := l
		if o.MixLayouts {
			ml = Layout(t, o.Layouts)
		}
		g.Members = append(g.Members, *tree(t, o, ml, depth-1, kinds))
	}
	if n == 0 {
		if o.FixEmptyCollections || pct(t, 50, "fixempty") {
			g.Layout = int(l)
		}
	} else if !o.MixLayouts && pct(t, o.FixedCollectionPct, "fixlayout") {
		// A fixed layout requires every member to report exactly that layout.
		ok := true
		for i := range g.Members {
			if g.Members[i].ReportedLayout() != l {
				ok = false
			}
		}
		if ok {
			g.Layout = int(l)
		}
	}
	return g
}

// SRIDs draws an SRID from the interesting set.
func SRIDs(t *rapid.T) int {
	switch rapid.IntRange(0, 7).Draw(t, "sridclass") {
	case 0, 1:
		return 0
	case 2:
		return 1
	case 3:
		// codes that software attaches a meaning to (geographic, web mercator, projected)
		return rapid.SampledFrom([]int{4326, 4326, 3857, 4269, 4258, 900913, 27700, 32633, 4979}).Draw(t, "wellknown")
	case 4:
		return 1<<31 - 1
	case 5:
		return 1 << 31
	case 6:
		return 1<<32 - 1
	default:
		return int(rapid.Uint32().Draw(t, "srid"))
	}
}
