// Package exact is the exact-arithmetic kit of the harness: every float64 is
// converted exactly to a big.Rat and predicates are signs of rational
// expressions. Square roots are taken with 300-bit big.Float.
package exact

import (
	"math"
	"math/big"
	"sort"
)

// R converts a finite float64 exactly.
func R(v float64) *big.Rat {
	r := new(big.Rat)
	if r.SetFloat64(v) == nil {
		panic("exact.R: non-finite value")
	}
	return r
}

// P2 is an exact 2-D point.
type P2 struct{ X, Y *big.Rat }

// P3 is an exact 3-D point.
type P3 struct{ X, Y, Z *big.Rat }

// Pt makes an exact point from floats.
func Pt(x, y float64) P2 { return P2{R(x), R(y)} }

// Pt3 makes an exact 3-D point from floats.
func Pt3(x, y, z float64) P3 { return P3{R(x), R(y), R(z)} }

func sub(a, b *big.Rat) *big.Rat { return new(big.Rat).Sub(a, b) }
func add(a, b *big.Rat) *big.Rat { return new(big.Rat).Add(a, b) }
func mul(a, b *big.Rat) *big.Rat { return new(big.Rat).Mul(a, b) }
func quo(a, b *big.Rat) *big.Rat { return new(big.Rat).Quo(a, b) }

// Sub, Add, Mul, Quo are exported helpers.
func Sub(a, b *big.Rat) *big.Rat { return sub(a, b) }
func Add(a, b *big.Rat) *big.Rat { return add(a, b) }
func Mul(a, b *big.Rat) *big.Rat { return mul(a, b) }
func Quo(a, b *big.Rat) *big.Rat { return quo(a, b) }

// Abs returns |a|.
func Abs(a *big.Rat) *big.Rat { return new(big.Rat).Abs(a) }

// Eq reports a == b for points.
func (p P2) Eq(q P2) bool { return p.X.Cmp(q.X) == 0 && p.Y.Cmp(q.Y) == 0 }

// Cross returns (b-a) x (c-a).
func Cross(a, b, c P2) *big.Rat {
	return sub(mul(sub(b.X, a.X), sub(c.Y, a.Y)), mul(sub(b.Y, a.Y), sub(c.X, a.X)))
}

// Orient returns the sign of (b-a) x (c-b): +1 counter-clockwise, -1
// clockwise, 0 collinear (the determinant of property C10).
func Orient(a, b, c P2) int {
	d := sub(mul(sub(b.X, a.X), sub(c.Y, b.Y)), mul(sub(b.Y, a.Y), sub(c.X, b.X)))
	return d.Sign()
}

func between(v, a, b *big.Rat) bool {
	if a.Cmp(b) > 0 {
		a, b = b, a
	}
	return a.Cmp(v) <= 0 && v.Cmp(b) <= 0
}

// OnSegment reports whether p lies on the closed segment ab (a may equal b).
func OnSegment(p, a, b P2) bool {
	if Cross(a, b, p).Sign() != 0 {
		return false
	}
	return between(p.X, a.X, b.X) && between(p.Y, a.Y, b.Y)
}

// Locations.
const (
	Interior = 0
	Boundary = 1
	Exterior = 2
)

// Locate applies the even-odd rule to the closed ring (first == last): Boundary
// iff p lies on an edge, otherwise parity of edges crossing the rightward ray
// under the half-open rule.
func Locate(p P2, ring []P2) int {
	for i := 1; i < len(ring); i++ {
		if OnSegment(p, ring[i-1], ring[i]) {
			return Boundary
		}
	}
	crossings := 0
	for i := 1; i < len(ring); i++ {
		a, b := ring[i-1], ring[i]
		// half-open: edge counts when exactly one endpoint is strictly above p's level
		aAbove := a.Y.Cmp(p.Y) > 0
		bAbove := b.Y.Cmp(p.Y) > 0
		if aAbove == bAbove {
			continue
		}
		// the rightward ray crosses the edge iff p lies strictly left of the edge
		// directed upwards (p is not on the edge: handled above)
		lo, hi := a, b
		if aAbove {
			lo, hi = b, a
		}
		if Orient(lo, hi, p) > 0 {
			crossings++
		}
	}
	if crossings%2 == 1 {
		return Interior
	}
	return Exterior
}

// Intersection kinds.
const (
	NoInt        = 0
	PointInt     = 1
	CollinearInt = 2
)

// SegSeg classifies the intersection of closed segments ab and cd (both of
// non-zero length) and returns the intersection point (PointInt) or the two
// endpoints of the overlap (CollinearInt).
func SegSeg(a, b, c, d P2) (int, []P2) {
	o1 := Cross(a, b, c).Sign()
	o2 := Cross(a, b, d).Sign()
	o3 := Cross(c, d, a).Sign()
	o4 := Cross(c, d, b).Sign()
	if o1 == 0 && o2 == 0 && o3 == 0 && o4 == 0 {
		// collinear: project on the dominant axis of ab
		key := func(p P2) *big.Rat {
			if a.X.Cmp(b.X) != 0 {
				return p.X
			}
			return p.Y
		}
		lo1, hi1 := a, b
		if key(lo1).Cmp(key(hi1)) > 0 {
			lo1, hi1 = hi1, lo1
		}
		lo2, hi2 := c, d
		if key(lo2).Cmp(key(hi2)) > 0 {
			lo2, hi2 = hi2, lo2
		}
		lo := lo1
		if key(lo2).Cmp(key(lo)) > 0 {
			lo = lo2
		}
		hi := hi1
		if key(hi2).Cmp(key(hi)) < 0 {
			hi = hi2
		}
		switch key(lo).Cmp(key(hi)) {
		case 1:
			return NoInt, nil
		case 0:
			return PointInt, []P2{lo}
		}
		return CollinearInt, []P2{lo, hi}
	}
	if o1*o2 > 0 || o3*o4 > 0 {
		return NoInt, nil
	}
	// single point: intersection of the two lines
	// p = a + t (b-a), t = cross(c-a, d-c) / cross(b-a, d-c)
	rx, ry := sub(b.X, a.X), sub(b.Y, a.Y)
	sx, sy := sub(d.X, c.X), sub(d.Y, c.Y)
	den := sub(mul(rx, sy), mul(ry, sx))
	if den.Sign() == 0 {
		// parallel but not all collinear cannot pass the sign test above unless touching... unreachable
		return NoInt, nil
	}
	num := sub(mul(sub(c.X, a.X), sy), mul(sub(c.Y, a.Y), sx))
	t := quo(num, den)
	return PointInt, []P2{{add(a.X, mul(t, rx)), add(a.Y, mul(t, ry))}}
}

// Dist2 returns |p-q|^2.
func Dist2(p, q P2) *big.Rat {
	dx, dy := sub(p.X, q.X), sub(p.Y, q.Y)
	return add(mul(dx, dx), mul(dy, dy))
}

// PointSegDist2 returns the squared distance from p to the closed segment ab
// (a may equal b).
func PointSegDist2(p, a, b P2) *big.Rat {
	dx, dy := sub(b.X, a.X), sub(b.Y, a.Y)
	l2 := add(mul(dx, dx), mul(dy, dy))
	if l2.Sign() == 0 {
		return Dist2(p, a)
	}
	t := quo(add(mul(sub(p.X, a.X), dx), mul(sub(p.Y, a.Y), dy)), l2)
	if t.Sign() <= 0 {
		return Dist2(p, a)
	}
	if t.Cmp(big.NewRat(1, 1)) >= 0 {
		return Dist2(p, b)
	}
	q := P2{add(a.X, mul(t, dx)), add(a.Y, mul(t, dy))}
	return Dist2(p, q)
}

// MinRat returns the smallest argument.
func MinRat(rs ...*big.Rat) *big.Rat {
	m := rs[0]
	for _, r := range rs[1:] {
		if r.Cmp(m) < 0 {
			m = r
		}
	}
	return m
}

// SegSegDist2 returns the squared distance between closed segments ab and cd
// (either may be degenerate).
func SegSegDist2(a, b, c, d P2) *big.Rat {
	if !a.Eq(b) && !c.Eq(d) {
		if k, _ := SegSeg(a, b, c, d); k != NoInt {
			return new(big.Rat)
		}
	}
	return MinRat(PointSegDist2(a, c, d), PointSegDist2(b, c, d), PointSegDist2(c, a, b), PointSegDist2(d, a, b))
}

// Dist2_3 returns |p-q|^2 in 3-D.
func Dist2_3(p, q P3) *big.Rat {
	dx, dy, dz := sub(p.X, q.X), sub(p.Y, q.Y), sub(p.Z, q.Z)
	return add(add(mul(dx, dx), mul(dy, dy)), mul(dz, dz))
}

// PointSegDist2_3 returns the squared 3-D distance from p to segment ab.
func PointSegDist2_3(p, a, b P3) *big.Rat {
	dx, dy, dz := sub(b.X, a.X), sub(b.Y, a.Y), sub(b.Z, a.Z)
	l2 := add(add(mul(dx, dx), mul(dy, dy)), mul(dz, dz))
	if l2.Sign() == 0 {
		return Dist2_3(p, a)
	}
	t := quo(add(add(mul(sub(p.X, a.X), dx), mul(sub(p.Y, a.Y), dy)), mul(sub(p.Z, a.Z), dz)), l2)
	if t.Sign() <= 0 {
		return Dist2_3(p, a)
	}
	if t.Cmp(big.NewRat(1, 1)) >= 0 {
		return Dist2_3(p, b)
	}
	q := P3{add(a.X, mul(t, dx)), add(a.Y, mul(t, dy)), add(a.Z, mul(t, dz))}
	return Dist2_3(p, q)
}

// SegSegParams3 returns the unconstrained minimiser (s,t) of |a+s(b-a) -
// (c+t(d-c))|^2 and ok=false when the lines are parallel (or a segment is
// degenerate).
func SegSegParams3(a, b, c, d P3) (s, t *big.Rat, ok bool) {
	dot := func(ux, uy, uz, vx, vy, vz *big.Rat) *big.Rat {
		return add(add(mul(ux, vx), mul(uy, vy)), mul(uz, vz))
	}
	ux, uy, uz := sub(b.X, a.X), sub(b.Y, a.Y), sub(b.Z, a.Z)
	vx, vy, vz := sub(d.X, c.X), sub(d.Y, c.Y), sub(d.Z, c.Z)
	wx, wy, wz := sub(a.X, c.X), sub(a.Y, c.Y), sub(a.Z, c.Z)
	A := dot(ux, uy, uz, ux, uy, uz)
	B := dot(ux, uy, uz, vx, vy, vz)
	C := dot(vx, vy, vz, vx, vy, vz)
	D := dot(ux, uy, uz, wx, wy, wz)
	E := dot(vx, vy, vz, wx, wy, wz)
	den := sub(mul(A, C), mul(B, B))
	if den.Sign() == 0 {
		return nil, nil, false
	}
	s = quo(sub(mul(B, E), mul(C, D)), den)
	t = quo(sub(mul(A, E), mul(B, D)), den)
	return s, t, true
}

// SegSegDist2_3 returns the exact squared distance between two closed 3-D
// segments: the minimum of a convex quadratic over the unit square is attained
// at the interior critical point when it lies inside, otherwise on an edge.
func SegSegDist2_3(a, b, c, d P3) *big.Rat {
	best := MinRat(PointSegDist2_3(a, c, d), PointSegDist2_3(b, c, d), PointSegDist2_3(c, a, b), PointSegDist2_3(d, a, b))
	if s, t, ok := SegSegParams3(a, b, c, d); ok {
		one := big.NewRat(1, 1)
		if s.Sign() >= 0 && s.Cmp(one) <= 0 && t.Sign() >= 0 && t.Cmp(one) <= 0 {
			p := P3{add(a.X, mul(s, sub(b.X, a.X))), add(a.Y, mul(s, sub(b.Y, a.Y))), add(a.Z, mul(s, sub(b.Z, a.Z)))}
			q := P3{add(c.X, mul(t, sub(d.X, c.X))), add(c.Y, mul(t, sub(d.Y, c.Y))), add(c.Z, mul(t, sub(d.Z, c.Z)))}
			if dd := Dist2_3(p, q); dd.Cmp(best) < 0 {
				best = dd
			}
		}
	}
	return best
}

// Hull returns the indexes (into pts) of the extreme points of the convex hull
// in counter-clockwise order, using Andrew's monotone chain with strict turns.
// For collinear input it returns the two extreme points; for a single distinct
// point it returns one index.
func Hull(pts []P2) []int {
	idx := make([]int, len(pts))
	for i := range idx {
		idx[i] = i
	}
	sort.SliceStable(idx, func(i, j int) bool {
		c := pts[idx[i]].X.Cmp(pts[idx[j]].X)
		if c != 0 {
			return c < 0
		}
		return pts[idx[i]].Y.Cmp(pts[idx[j]].Y) < 0
	})
	// unique
	u := idx[:0:0]
	for _, i := range idx {
		if len(u) > 0 && pts[u[len(u)-1]].Eq(pts[i]) {
			continue
		}
		u = append(u, i)
	}
	if len(u) <= 2 {
		return u
	}
	build := func(order []int) []int {
		var h []int
		for _, i := range order {
			for len(h) >= 2 && Cross(pts[h[len(h)-2]], pts[h[len(h)-1]], pts[i]).Sign() <= 0 {
				h = h[:len(h)-1]
			}
			h = append(h, i)
		}
		return h
	}
	lower := build(u)
	rev := make([]int, len(u))
	for i := range u {
		rev[i] = u[len(u)-1-i]
	}
	upper := build(rev)
	h := append(lower[:len(lower)-1], upper[:len(upper)-1]...)
	return h
}

// Shoelace2 returns twice the signed area (counter-clockwise positive) of the
// closed ring: sum x_i*y_{i+1} - x_{i+1}*y_i.
func Shoelace2(ring []P2) *big.Rat {
	s := new(big.Rat)
	for i := 1; i < len(ring); i++ {
		a, b := ring[i-1], ring[i]
		s.Add(s, sub(mul(a.X, b.Y), mul(b.X, a.Y)))
	}
	return s
}

// Prec is the precision used for square roots.
const Prec = 300

// F converts a rational to a Prec-bit float (rounded to nearest).
func F(r *big.Rat) *big.Float {
	return new(big.Float).SetPrec(Prec).SetRat(r)
}

// Sqrt returns the Prec-bit square root of a non-negative rational.
func Sqrt(r *big.Rat) *big.Float {
	f := F(r)
	if f.Sign() <= 0 {
		return new(big.Float).SetPrec(Prec)
	}
	return new(big.Float).SetPrec(Prec).Sqrt(f)
}

// FF converts a float64 to a Prec-bit float.
func FF(v float64) *big.Float { return new(big.Float).SetPrec(Prec).SetFloat64(v) }

// AbsDiff returns |a-b| as float64 (rounded).
func AbsDiff(a, b *big.Float) float64 {
	d := new(big.Float).SetPrec(Prec).Sub(a, b)
	d.Abs(d)
	v, _ := d.Float64()
	return v
}

// WithinSqrt reports whether |got - sqrt(d2)| <= tol, evaluated without
// floating error: (got-tol)^2 <= d2 <= (got+tol)^2 with got-tol clamped at 0.
func WithinSqrt(got float64, d2 *big.Rat, tol float64) bool {
	if math.IsNaN(got) || math.IsInf(got, 0) {
		return false
	}
	g, t := R(got), R(tol)
	lo := sub(g, t)
	hi := add(g, t)
	if hi.Sign() < 0 {
		return false
	}
	if mul(hi, hi).Cmp(d2) < 0 {
		return false
	}
	if lo.Sign() > 0 && mul(lo, lo).Cmp(d2) > 0 {
		return false
	}
	return true
}

// Float returns the nearest float64 of r.
func Float(r *big.Rat) float64 {
	v, _ := r.Float64()
	return v
}

// Neg returns -a.
func Neg(a *big.Rat) *big.Rat { return new(big.Rat).Neg(a) }
