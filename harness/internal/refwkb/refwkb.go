// Package refwkb is a reference encoder and walker for ISO WKB (ISO 13249-3 /
// OGC 06-103r4: type = id + 1000*{0 XY, 1 Z, 2 M, 3 ZM}) and PostGIS EWKB
// (type = id | 0x80000000 Z | 0x40000000 M | 0x20000000 SRID, followed by a
// 4-byte SRID when flagged). It is written from the format descriptions and
// shares no code with go-geom.
package refwkb

import (
	"encoding/binary"
	"errors"
	"fmt"

	geom "github.com/twpayne/go-geom"

	"verifharness/internal/model"
)

// Mode selects the dialect.
type Mode int

// Dialects.
const (
	ISO Mode = iota
	EWKB
)

// CanonNaN is the quiet NaN that encodes an empty point ordinate.
const CanonNaN = 0x7FF8000000000000

// Field is one count field of an encoding.
type Field struct {
	Offset int    // byte offset of the 4-byte count
	Level  int    // level of wkbcommon.MaxGeometryElements it is checked against (0 = none)
	Value  uint32 // value
	What   string
	// BigEndian: the byte order of the geometry the field belongs to (every
	// geometry of an encoding, members included, starts with its own byte-order mark).
	BigEndian bool
}

// ErrNotEncodable is returned for geometries the format cannot carry.
var ErrNotEncodable = errors.New("refwkb: not encodable")

var ids = map[string]uint32{
	model.Point: 1, model.LineString: 2, model.Polygon: 3, model.MultiPoint: 4,
	model.MultiLineString: 5, model.MultiPolygon: 6, model.GeometryCollection: 7,
}

type enc struct {
	buf    []byte
	bo     binary.ByteOrder
	mode   Mode
	fields []Field
	// TypeWords are the offsets of the 4-byte type words of every geometry
	// header, in encoding order (index 0 is the top-level geometry).
	typeWords []int
	// typeWordBE[i]: typeWords[i] is written big endian.
	typeWordBE []bool
	// flip, when set, decides for the n-th header (n >= 1, in encoding order)
	// whether that geometry uses the other byte order than its parent.
	flip func(n int) bool
}

func (e *enc) u32(v uint32) {
	var b [4]byte
	e.bo.PutUint32(b[:], v)
	e.buf = append(e.buf, b[:]...)
}

func (e *enc) count(n int, level int, what string) {
	e.fields = append(e.fields, Field{Offset: len(e.buf), Level: level, Value: uint32(n), What: what, BigEndian: e.bo == binary.BigEndian})
	e.u32(uint32(n))
}

func (e *enc) f64(v model.F) {
	var b [8]byte
	e.bo.PutUint64(b[:], uint64(v))
	e.buf = append(e.buf, b[:]...)
}

func (e *enc) coord(c []model.F) {
	for _, v := range c {
		e.f64(v)
	}
}

func (e *enc) header(id uint32, l geom.Layout, srid int) error {
	if e.bo == binary.BigEndian {
		e.buf = append(e.buf, 0)
	} else {
		e.buf = append(e.buf, 1)
	}
	t := id
	switch e.mode {
	case ISO:
		switch l {
		case geom.NoLayout, geom.XY:
		case geom.XYZ:
			t += 1000
		case geom.XYM:
			t += 2000
		case geom.XYZM:
			t += 3000
		default:
			return ErrNotEncodable
		}
		e.typeWords = append(e.typeWords, len(e.buf))
		e.typeWordBE = append(e.typeWordBE, e.bo == binary.BigEndian)
		e.u32(t)
	case EWKB:
		switch l {
		case geom.NoLayout, geom.XY:
		case geom.XYZ:
			t |= 0x80000000
		case geom.XYM:
			t |= 0x40000000
		case geom.XYZM:
			t |= 0xC0000000
		default:
			return ErrNotEncodable
		}
		if srid != 0 {
			t |= 0x20000000
		}
		e.typeWords = append(e.typeWords, len(e.buf))
		e.typeWordBE = append(e.typeWordBE, e.bo == binary.BigEndian)
		e.u32(t)
		if srid != 0 {
			e.u32(uint32(srid))
		}
	}
	return nil
}

func (e *enc) line(cs [][]model.F, what string) {
	e.count(len(cs), 1, what)
	for _, c := range cs {
		e.coord(c)
	}
}

func (e *enc) rings(rs [][][]model.F) {
	e.count(len(rs), 2, "rings")
	for _, r := range rs {
		e.line(r, "ring points")
	}
}

func (e *enc) geom(g *model.G, top bool) error {
	id, ok := ids[g.Kind]
	if !ok {
		return ErrNotEncodable
	}
	l := g.ReportedLayout()
	if l == geom.NoLayout && !(g.IsCollection() && g.Empty()) {
		return ErrNotEncodable
	}
	srid := g.SRID
	if e.mode == ISO {
		srid = 0
	}
	if !top && e.flip != nil && e.flip(len(e.typeWords)) {
		saved := e.bo
		defer func() { e.bo = saved }()
		if e.bo == binary.BigEndian {
			e.bo = binary.LittleEndian
		} else {
			e.bo = binary.BigEndian
		}
	}
	if err := e.header(id, l, srid); err != nil {
		return err
	}
	stride := l.Stride()
	child := func(kind string) *model.G { return &model.G{Kind: kind, Layout: int(l)} }
	switch g.Kind {
	case model.Point:
		if g.C0 == nil {
			for i := 0; i < stride; i++ {
				e.f64(CanonNaN)
			}
		} else {
			e.coord(g.C0)
		}
	case model.LineString:
		e.line(g.C1, "linestring points")
	case model.Polygon:
		e.rings(g.C2)
	case model.MultiPoint:
		e.count(len(g.C1), 1, "multipoint members")
		for _, c := range g.C1 {
			p := child(model.Point)
			p.C0 = c
			if err := e.geom(p, false); err != nil {
				return err
			}
		}
	case model.MultiLineString:
		e.count(len(g.C2), 2, "multilinestring members")
		for _, cs := range g.C2 {
			p := child(model.LineString)
			p.C1 = cs
			if err := e.geom(p, false); err != nil {
				return err
			}
		}
	case model.MultiPolygon:
		e.count(len(g.C3), 3, "multipolygon members")
		for _, rs := range g.C3 {
			p := child(model.Polygon)
			p.C2 = rs
			if err := e.geom(p, false); err != nil {
				return err
			}
		}
	case model.GeometryCollection:
		lvl := 0
		if e.mode == EWKB {
			lvl = 1
		}
		e.count(len(g.Members), lvl, "collection members")
		for i := range g.Members {
			if err := e.geom(&g.Members[i], false); err != nil {
				return err
			}
		}
	}
	return nil
}

// Encode encodes g. It returns ErrNotEncodable when the format cannot carry g
// (layout beyond XYZM, NoLayout non-collection, LinearRing).
func Encode(g *model.G, xdr bool, mode Mode) ([]byte, []Field, error) {
	e := &enc{mode: mode, bo: binary.LittleEndian}
	if xdr {
		e.bo = binary.BigEndian
	}
	if err := e.geom(g, true); err != nil {
		return nil, nil, err
	}
	return e.buf, e.fields, nil
}

// EncodeWithHeaders is Encode that also returns the offsets of every header's type word.
func EncodeWithHeaders(g *model.G, xdr bool, mode Mode) ([]byte, []Field, []int, error) {
	e := &enc{mode: mode, bo: binary.LittleEndian}
	if xdr {
		e.bo = binary.BigEndian
	}
	if err := e.geom(g, true); err != nil {
		return nil, nil, nil, err
	}
	return e.buf, e.fields, e.typeWords, nil
}

// EncodeMixed is EncodeWithHeaders in which every geometry below the top level
// (members of multi-geometries and of collections, at any depth) may use the
// other byte order than its parent: flip(n) decides for the n-th header. Both
// formats allow it - each geometry carries its own byte-order mark. It also
// returns, per type word, whether it is big endian.
func EncodeMixed(g *model.G, xdr bool, mode Mode, flip func(n int) bool) ([]byte, []Field, []int, []bool, error) {
	e := &enc{mode: mode, bo: binary.LittleEndian, flip: flip}
	if xdr {
		e.bo = binary.BigEndian
	}
	if err := e.geom(g, true); err != nil {
		return nil, nil, nil, nil, err
	}
	return e.buf, e.fields, e.typeWords, e.typeWordBE, nil
}

// HasEmptyPoint reports whether an empty point (or empty multipoint member)
// occurs anywhere below g.
func HasEmptyPoint(g *model.G) bool {
	found := false
	g.Walk(func(x *model.G) {
		switch x.Kind {
		case model.Point:
			if x.C0 == nil {
				found = true
			}
		case model.MultiPoint:
			for _, c := range x.C1 {
				if c == nil {
					found = true
				}
			}
		}
	})
	return found
}

// ---- walker -------------------------------------------------------------

// WalkResult describes how far a byte string follows the format.
type WalkResult struct {
	Fields   []Field // every count field read, in order, with the bytes remaining after it in Remaining
	Remain   []int   // bytes remaining in the input after each count field
	Consumed int     // bytes consumed when the walk stopped
	OK       bool    // the whole geometry was well formed (input may have trailing bytes)
	Depth    int     // deepest nesting reached
	PastType bool    // the first type word was read and recognised
}

type walker struct {
	data []byte
	pos  int
	mode Mode
	res  *WalkResult
}

var errShort = errors.New("short")

func (w *walker) need(n int) error {
	if len(w.data)-w.pos < n {
		return errShort
	}
	return nil
}

func (w *walker) geom(depth int, wantID uint32) error {
	if depth > w.res.Depth {
		w.res.Depth = depth
	}
	if depth > 10000 {
		return fmt.Errorf("too deep")
	}
	if err := w.need(1); err != nil {
		return err
	}
	var bo binary.ByteOrder
	switch w.data[w.pos] {
	case 0:
		bo = binary.BigEndian
	case 1:
		bo = binary.LittleEndian
	default:
		return fmt.Errorf("bad byte order")
	}
	w.pos++
	if err := w.need(4); err != nil {
		return err
	}
	t := bo.Uint32(w.data[w.pos:])
	w.pos += 4
	var id uint32
	var stride int
	switch w.mode {
	case ISO:
		switch t / 1000 {
		case 0:
			stride = 2
		case 1, 2:
			stride = 3
		case 3:
			stride = 4
		default:
			return fmt.Errorf("bad type")
		}
		id = t % 1000
	case EWKB:
		stride = 2
		if t&0x80000000 != 0 {
			stride++
		}
		if t&0x40000000 != 0 {
			stride++
		}
		if t&0x20000000 != 0 {
			if err := w.need(4); err != nil {
				return err
			}
			w.pos += 4
		}
		id = t &^ 0xE0000000
	}
	if id < 1 || id > 7 {
		return fmt.Errorf("bad id")
	}
	// The member type is deliberately not enforced: the library reads a whole
	// member before it checks its type, so every count field of a wrong-typed
	// member is still reached.
	_ = wantID
	if depth == 0 {
		w.res.PastType = true
	}
	count := func(level int, what string) (uint32, error) {
		if err := w.need(4); err != nil {
			return 0, err
		}
		n := bo.Uint32(w.data[w.pos:])
		w.res.Fields = append(w.res.Fields, Field{Offset: w.pos, Level: level, Value: n, What: what})
		w.pos += 4
		w.res.Remain = append(w.res.Remain, len(w.data)-w.pos)
		return n, nil
	}
	coords := func(n uint32) error {
		need := uint64(n) * uint64(stride) * 8
		if uint64(len(w.data)-w.pos) < need {
			w.pos = len(w.data)
			return errShort
		}
		w.pos += int(need)
		return nil
	}
	line := func(what string) error {
		n, err := count(1, what)
		if err != nil {
			return err
		}
		return coords(n)
	}
	switch id {
	case 1:
		return coords(1)
	case 2:
		return line("linestring points")
	case 3:
		n, err := count(2, "rings")
		if err != nil {
			return err
		}
		for i := uint32(0); i < n; i++ {
			if err := line("ring points"); err != nil {
				return err
			}
		}
	case 4, 5, 6:
		n, err := count(int(id)-3, "multi members")
		if err != nil {
			return err
		}
		for i := uint32(0); i < n; i++ {
			if err := w.geom(depth+1, id-3); err != nil {
				return err
			}
		}
	case 7:
		lvl := 0
		if w.mode == EWKB {
			lvl = 1
		}
		n, err := count(lvl, "collection members")
		if err != nil {
			return err
		}
		for i := uint32(0); i < n; i++ {
			if err := w.geom(depth+1, 0); err != nil {
				return err
			}
		}
	}
	return nil
}

// Walk follows data as far as it is well formed.
func Walk(data []byte, mode Mode) WalkResult {
	res := WalkResult{}
	w := &walker{data: data, mode: mode, res: &res}
	err := w.geom(0, 0)
	res.OK = err == nil
	res.Consumed = w.pos
	return res
}
