// Package refjson reads RFC 7946 geometry objects with encoding/json generic
// values (json.Number literals), independently of go-geom's decoder.
package refjson

import (
	"bytes"
	"encoding/json"
	"fmt"
	"strconv"

	"verifharness/internal/model"
)

// Geometry is what an RFC 7946 reader understands: type, nested positions
// (as literals and as nearest float64), members, and the bbox literals.
type Geometry struct {
	Type    string
	Depth   int // nesting depth of Coordinates: 1 position, 2 list of positions, ...
	Coords  any // nested []any of json.Number, nil when absent
	Members []Geometry
	BBox    []json.Number
	HasBBox bool
}

var depthOf = map[string]int{"Point": 1, "MultiPoint": 2, "LineString": 2, "MultiLineString": 3, "Polygon": 3, "MultiPolygon": 4}

// Parse reads one geometry object.
func Parse(data []byte) (*Geometry, error) {
	dec := json.NewDecoder(bytes.NewReader(data))
	dec.UseNumber()
	var v any
	if err := dec.Decode(&v); err != nil {
		return nil, err
	}
	if dec.More() {
		return nil, fmt.Errorf("refjson: trailing data")
	}
	return fromValue(v)
}

func fromValue(v any) (*Geometry, error) {
	obj, ok := v.(map[string]any)
	if !ok {
		return nil, fmt.Errorf("refjson: geometry is not an object")
	}
	t, ok := obj["type"].(string)
	if !ok {
		return nil, fmt.Errorf("refjson: missing type")
	}
	g := &Geometry{Type: t}
	if bb, ok := obj["bbox"]; ok {
		arr, ok := bb.([]any)
		if !ok {
			return nil, fmt.Errorf("refjson: bbox is not an array")
		}
		g.HasBBox = true
		for _, x := range arr {
			n, ok := x.(json.Number)
			if !ok {
				return nil, fmt.Errorf("refjson: bbox member is not a number")
			}
			g.BBox = append(g.BBox, n)
		}
	}
	if t == "GeometryCollection" {
		arr, ok := obj["geometries"].([]any)
		if !ok {
			return nil, fmt.Errorf("refjson: geometries is not an array")
		}
		for _, m := range arr {
			mg, err := fromValue(m)
			if err != nil {
				return nil, err
			}
			g.Members = append(g.Members, *mg)
		}
		return g, nil
	}
	d, ok := depthOf[t]
	if !ok {
		return nil, fmt.Errorf("refjson: unknown type %q", t)
	}
	g.Depth = d
	c, ok := obj["coordinates"]
	if !ok {
		return nil, fmt.Errorf("refjson: missing coordinates")
	}
	g.Coords = c
	return g, nil
}

// Numbers returns every number literal of the coordinates in document order.
func (g *Geometry) Numbers() []json.Number {
	var out []json.Number
	var walk func(v any)
	walk = func(v any) {
		switch x := v.(type) {
		case json.Number:
			out = append(out, x)
		case []any:
			for _, e := range x {
				walk(e)
			}
		}
	}
	walk(g.Coords)
	for i := range g.Members {
		out = append(out, g.Members[i].Numbers()...)
	}
	return out
}

func position(v any) ([]model.F, error) {
	arr, ok := v.([]any)
	if !ok {
		return nil, fmt.Errorf("refjson: position is not an array")
	}
	out := make([]model.F, 0, len(arr))
	for _, e := range arr {
		n, ok := e.(json.Number)
		if !ok {
			return nil, fmt.Errorf("refjson: ordinate is not a number")
		}
		f, err := strconv.ParseFloat(string(n), 64)
		if err != nil {
			return nil, err
		}
		out = append(out, model.Of(f))
	}
	return out, nil
}

func list(v any) ([]any, error) {
	arr, ok := v.([]any)
	if !ok {
		return nil, fmt.Errorf("refjson: expected an array, got %T", v)
	}
	return arr, nil
}

// Model converts g to the harness model. The layout field is left 0 (GeoJSON
// carries no layout): compare structure and ordinates.
func (g *Geometry) Model() (*model.G, error) {
	m := &model.G{Kind: g.Type}
	switch g.Type {
	case "GeometryCollection":
		for i := range g.Members {
			mm, err := g.Members[i].Model()
			if err != nil {
				return nil, err
			}
			m.Members = append(m.Members, *mm)
		}
	case "Point":
		arr, err := list(g.Coords)
		if err != nil {
			return nil, err
		}
		if len(arr) > 0 {
			if m.C0, err = position(g.Coords); err != nil {
				return nil, err
			}
		}
	case "LineString", "MultiPoint":
		arr, err := list(g.Coords)
		if err != nil {
			return nil, err
		}
		m.C1 = [][]model.F{}
		for _, e := range arr {
			if e == nil {
				m.C1 = append(m.C1, nil)
				continue
			}
			p, err := position(e)
			if err != nil {
				return nil, err
			}
			m.C1 = append(m.C1, p)
		}
	case "Polygon", "MultiLineString":
		arr, err := list(g.Coords)
		if err != nil {
			return nil, err
		}
		m.C2 = [][][]model.F{}
		for _, r := range arr {
			ra, err := list(r)
			if err != nil {
				return nil, err
			}
			ring := [][]model.F{}
			for _, e := range ra {
				p, err := position(e)
				if err != nil {
					return nil, err
				}
				ring = append(ring, p)
			}
			m.C2 = append(m.C2, ring)
		}
	case "MultiPolygon":
		arr, err := list(g.Coords)
		if err != nil {
			return nil, err
		}
		m.C3 = [][][][]model.F{}
		for _, pg := range arr {
			pa, err := list(pg)
			if err != nil {
				return nil, err
			}
			poly := [][][]model.F{}
			for _, r := range pa {
				ra, err := list(r)
				if err != nil {
					return nil, err
				}
				ring := [][]model.F{}
				for _, e := range ra {
					p, err := position(e)
					if err != nil {
						return nil, err
					}
					ring = append(ring, p)
				}
				poly = append(poly, ring)
			}
			m.C3 = append(m.C3, poly)
		}
	default:
		return nil, fmt.Errorf("refjson: type %q", g.Type)
	}
	return m, nil
}
