// Package model is a neutral, JSON-serialisable description of a geometry: a
// tree of kind / layout / SRID / nested coordinates stored as float64 bit
// patterns. It is written from the statements of the properties and reads a
// geom.T only through Layout/Stride/FlatCoords/Ends/Endss/NumGeoms/Geom.
package model

import (
	"encoding/json"
	"fmt"
	"math"
	"strconv"
	"strings"
	"sync"

	geom "github.com/twpayne/go-geom"
)

// F is a float64 stored as its bit pattern, so that NaN payloads and -0 survive
// JSON and comparisons are always bitwise.
type F uint64

// Of converts a float64.
func Of(v float64) F { return F(math.Float64bits(v)) }

// V2 returns the raw bits.
func (f F) V2() uint64 { return uint64(f) }

// V returns the float64 value.
func (f F) V() float64 { return math.Float64frombits(uint64(f)) }

// MarshalJSON writes finite values (and infinities) readably, everything else
// as the raw bit pattern.
func (f F) MarshalJSON() ([]byte, error) {
	v := f.V()
	if !math.IsNaN(v) {
		s := strconv.FormatFloat(v, 'g', -1, 64)
		return []byte(`"` + s + `"`), nil
	}
	return []byte(fmt.Sprintf(`"bits:%#016x"`, uint64(f))), nil
}

// UnmarshalJSON is the inverse of MarshalJSON.
func (f *F) UnmarshalJSON(b []byte) error {
	var s string
	if err := json.Unmarshal(b, &s); err != nil {
		return err
	}
	if strings.HasPrefix(s, "bits:") {
		u, err := strconv.ParseUint(strings.TrimPrefix(s, "bits:"), 0, 64)
		if err != nil {
			return err
		}
		*f = F(u)
		return nil
	}
	v, err := strconv.ParseFloat(s, 64)
	if err != nil {
		return err
	}
	*f = Of(v)
	return nil
}

// Floats converts a slice of F to float64s.
func Floats(fs []F) []float64 {
	if fs == nil {
		return nil
	}
	out := make([]float64, len(fs))
	for i, f := range fs {
		out[i] = f.V()
	}
	return out
}

// Bits converts float64s to a slice of F.
func Bits(vs []float64) []F {
	out := make([]F, len(vs))
	for i, v := range vs {
		out[i] = Of(v)
	}
	return out
}

// Kinds of geometry.
const (
	Point              = "Point"
	LineString         = "LineString"
	LinearRing         = "LinearRing"
	Polygon            = "Polygon"
	MultiPoint         = "MultiPoint"
	MultiLineString    = "MultiLineString"
	MultiPolygon       = "MultiPolygon"
	GeometryCollection = "GeometryCollection"
)

// G is one node of the model.
//
//	Point:            C0 (nil = empty point)
//	LineString/Ring:  C1
//	MultiPoint:       C1 (a nil entry = empty member)
//	Polygon/MLS:      C2
//	MultiPolygon:     C3
//	Collection:       Members; Layout is its fixed layout (0 = none)
type G struct {
	Kind    string    `json:"k"`
	Layout  int       `json:"l"`
	SRID    int       `json:"srid,omitempty"`
	C0      []F       `json:"c0,omitempty"`
	C1      [][]F     `json:"c1,omitempty"`
	C2      [][][]F   `json:"c2,omitempty"`
	C3      [][][][]F `json:"c3,omitempty"`
	Members []G       `json:"m,omitempty"`
}

// Lay returns the geom.Layout of g (for a collection: its fixed layout).
func (g *G) Lay() geom.Layout { return geom.Layout(g.Layout) }

// Stride returns the stride of g's layout.
func (g *G) Stride() int { return g.Lay().Stride() }

// IsCollection reports whether g is a collection.
func (g *G) IsCollection() bool { return g.Kind == GeometryCollection }

// ReportedLayout is what Layout() must report for g: for a collection with a
// fixed layout that layout, otherwise the join of the members' reported
// layouts as documented on GeometryCollection.Layout.
func (g *G) ReportedLayout() geom.Layout {
	if !g.IsCollection() {
		return g.Lay()
	}
	if g.Layout != 0 {
		return g.Lay()
	}
	maxL := geom.NoLayout
	for i := range g.Members {
		l := g.Members[i].ReportedLayout()
		switch {
		case l == geom.XYZ && maxL == geom.XYM, l == geom.XYM && maxL == geom.XYZ:
			maxL = geom.XYZM
		case l > maxL:
			maxL = l
		}
	}
	return maxL
}

// NumCoords counts the coordinates below g.
func (g *G) NumCoords() int {
	n := 0
	switch g.Kind {
	case Point:
		if g.C0 != nil {
			n = 1
		}
	case LineString, LinearRing:
		n = len(g.C1)
	case MultiPoint:
		for _, c := range g.C1 {
			if c != nil {
				n++
			}
		}
	case Polygon, MultiLineString:
		for _, r := range g.C2 {
			n += len(r)
		}
	case MultiPolygon:
		for _, p := range g.C3 {
			for _, r := range p {
				n += len(r)
			}
		}
	case GeometryCollection:
		for i := range g.Members {
			n += g.Members[i].NumCoords()
		}
	}
	return n
}

// Empty reports whether g has no coordinates.
func (g *G) Empty() bool { return g.NumCoords() == 0 }

// Depth returns the collection nesting depth (0 for a non-collection).
func (g *G) Depth() int {
	if !g.IsCollection() {
		return 0
	}
	d := 0
	for i := range g.Members {
		if dd := g.Members[i].Depth(); dd > d {
			d = dd
		}
	}
	return d + 1
}

// Walk calls f on g and all its descendants.
func (g *G) Walk(f func(*G)) {
	f(g)
	for i := range g.Members {
		g.Members[i].Walk(f)
	}
}

// EachOrdinate calls f for every ordinate below g (with its index in the coordinate).
func (g *G) EachOrdinate(f func(dim int, v F)) {
	co := func(c []F) {
		for i, v := range c {
			f(i, v)
		}
	}
	switch g.Kind {
	case Point:
		co(g.C0)
	case LineString, LinearRing, MultiPoint:
		for _, c := range g.C1 {
			co(c)
		}
	case Polygon, MultiLineString:
		for _, r := range g.C2 {
			for _, c := range r {
				co(c)
			}
		}
	case MultiPolygon:
		for _, p := range g.C3 {
			for _, r := range p {
				for _, c := range r {
					co(c)
				}
			}
		}
	case GeometryCollection:
		for i := range g.Members {
			g.Members[i].EachOrdinate(f)
		}
	}
}

// HasEmptyPart reports whether some component (ring, line, polygon, multipoint
// member, collection member) below g is empty.
func (g *G) HasEmptyPart() bool {
	switch g.Kind {
	case MultiPoint:
		for _, c := range g.C1 {
			if c == nil {
				return true
			}
		}
	case Polygon, MultiLineString:
		for _, r := range g.C2 {
			if len(r) == 0 {
				return true
			}
		}
	case MultiPolygon:
		for _, p := range g.C3 {
			if len(p) == 0 {
				return true
			}
			for _, r := range p {
				if len(r) == 0 {
					return true
				}
			}
		}
	case GeometryCollection:
		for i := range g.Members {
			if g.Members[i].Empty() || g.Members[i].HasEmptyPart() {
				return true
			}
		}
	}
	return false
}

// EmptyBeforeNonEmpty reports whether an empty component is followed (at the
// same level) by a non-empty one.
func (g *G) EmptyBeforeNonEmpty() bool {
	seq := func(n int, empty func(int) bool) bool {
		seen := false
		for i := 0; i < n; i++ {
			if empty(i) {
				seen = true
			} else if seen {
				return true
			}
		}
		return false
	}
	switch g.Kind {
	case MultiPoint:
		return seq(len(g.C1), func(i int) bool { return g.C1[i] == nil })
	case Polygon, MultiLineString:
		return seq(len(g.C2), func(i int) bool { return len(g.C2[i]) == 0 })
	case MultiPolygon:
		if seq(len(g.C3), func(i int) bool {
			n := 0
			for _, r := range g.C3[i] {
				n += len(r)
			}
			return n == 0
		}) {
			return true
		}
		for _, p := range g.C3 {
			if seq(len(p), func(i int) bool { return len(p[i]) == 0 }) {
				return true
			}
		}
	case GeometryCollection:
		if seq(len(g.Members), func(i int) bool { return g.Members[i].Empty() }) {
			return true
		}
		for i := range g.Members {
			if g.Members[i].EmptyBeforeNonEmpty() {
				return true
			}
		}
	}
	return false
}

func coord(c []F) geom.Coord {
	if c == nil {
		return nil
	}
	return geom.Coord(Floats(c))
}

// Coords1 converts a list of coordinates.
func Coords1(cs [][]F) []geom.Coord {
	out := make([]geom.Coord, len(cs))
	for i, c := range cs {
		out[i] = coord(c)
	}
	return out
}

// Coords2 converts a list of lists.
func Coords2(css [][][]F) [][]geom.Coord {
	out := make([][]geom.Coord, len(css))
	for i, cs := range css {
		out[i] = Coords1(cs)
	}
	return out
}

// Coords3 converts a list of lists of lists.
func Coords3(csss [][][][]F) [][][]geom.Coord {
	out := make([][][]geom.Coord, len(csss))
	for i, css := range csss {
		out[i] = Coords2(css)
	}
	return out
}

// Flat1 flattens a coordinate list.
func Flat1(cs [][]F) []float64 {
	var out []float64
	for _, c := range cs {
		out = append(out, Floats(c)...)
	}
	return out
}

// Flat2 flattens rings/lines and returns the cumulative ends.
func Flat2(css [][][]F) ([]float64, []int) {
	var out []float64
	var ends []int
	for _, cs := range css {
		out = append(out, Flat1(cs)...)
		ends = append(ends, len(out))
	}
	return out, ends
}

// Flat3 flattens polygons and returns the cumulative endss.
//
// The rows of endss are windows, one int apart, of one table of ints (what a caller who
// preallocates the offsets hands over): every row's spare capacity runs on over the
// rows behind it, so that an append onto a row - which the library has no business
// doing to a slice it was given - overwrites the next polygon's offsets.
func Flat3(csss [][][][]F) ([]float64, [][]int) {
	var out []float64
	n := 0
	for _, css := range csss {
		n += len(css)
	}
	table := make([]int, 0, n+len(csss)+3)
	var endss [][]int
	for _, css := range csss {
		table = append(table, -7) // a gap between rows: rows of a fixed-width table are not back to back
		start := len(table)
		for _, cs := range css {
			out = append(out, Flat1(cs)...)
			table = append(table, len(out))
		}
		endss = append(endss, table[start:len(table)])
	}
	return out, endss
}

// Route selects how Build constructs a geometry.
type Route int

// Construction routes.
const (
	RouteSetCoords Route = iota
	RouteFlat
	RoutePush
	RouteMustSetCoords
	NumRoutes
)

// Build constructs the geom.T described by g through the given route. It
// returns an error only when the library reports one.
//
// The nested coordinates handed to SetCoords / MustSetCoords belong to the caller: once
// the geometry is built they are overwritten, so that a geometry that kept a reference to
// any of them no longer reads back what it was given.
func Build(g *G, route Route) (geom.T, error) {
	scribbleMu.Lock()
	defer scribbleMu.Unlock()
	handed = handed[:0]
	t, err := build(g, route)
	for _, c := range handed {
		for i := range c {
			c[i] = -98765.4321
		}
	}
	handed = handed[:0]
	return t, err
}

var (
	scribbleMu sync.Mutex
	handed     []geom.Coord
)

func keep0(c geom.Coord) geom.Coord { handed = append(handed, c); return c }
func keep1(cs []geom.Coord) []geom.Coord {
	handed = append(handed, cs...)
	return cs
}
func keep2(css [][]geom.Coord) [][]geom.Coord {
	for _, cs := range css {
		keep1(cs)
	}
	return css
}
func keep3(csss [][][]geom.Coord) [][][]geom.Coord {
	for _, css := range csss {
		keep2(css)
	}
	return csss
}

func build(g *G, route Route) (geom.T, error) {
	l := g.Lay()
	switch g.Kind {
	case Point:
		if g.C0 == nil {
			return geom.NewPointEmpty(l).SetSRID(g.SRID), nil
		}
		switch route {
		case RouteFlat, RoutePush:
			return geom.NewPointFlat(l, Floats(g.C0)).SetSRID(g.SRID), nil
		case RouteMustSetCoords:
			return geom.NewPoint(l).MustSetCoords(keep0(coord(g.C0))).SetSRID(g.SRID), nil
		}
		p, err := geom.NewPoint(l).SetCoords(keep0(coord(g.C0)))
		if err != nil {
			return nil, err
		}
		return p.SetSRID(g.SRID), nil
	case LineString:
		switch route {
		case RouteFlat, RoutePush:
			return geom.NewLineStringFlat(l, Flat1(g.C1)).SetSRID(g.SRID), nil
		case RouteMustSetCoords:
			return geom.NewLineString(l).MustSetCoords(keep1(Coords1(g.C1))).SetSRID(g.SRID), nil
		}
		p, err := geom.NewLineString(l).SetCoords(keep1(Coords1(g.C1)))
		if err != nil {
			return nil, err
		}
		return p.SetSRID(g.SRID), nil
	case LinearRing:
		switch route {
		case RouteFlat, RoutePush:
			return geom.NewLinearRingFlat(l, Flat1(g.C1)).SetSRID(g.SRID), nil
		case RouteMustSetCoords:
			return geom.NewLinearRing(l).MustSetCoords(keep1(Coords1(g.C1))).SetSRID(g.SRID), nil
		}
		p, err := geom.NewLinearRing(l).SetCoords(keep1(Coords1(g.C1)))
		if err != nil {
			return nil, err
		}
		return p.SetSRID(g.SRID), nil
	case Polygon:
		switch route {
		case RouteFlat:
			f, e := Flat2(g.C2)
			return geom.NewPolygonFlat(l, f, e).SetSRID(g.SRID), nil
		case RoutePush:
			p := geom.NewPolygon(l)
			for _, r := range g.C2 {
				if err := p.Push(geom.NewLinearRingFlat(l, Flat1(r))); err != nil {
					return nil, err
				}
			}
			return p.SetSRID(g.SRID), nil
		case RouteMustSetCoords:
			return geom.NewPolygon(l).MustSetCoords(keep2(Coords2(g.C2))).SetSRID(g.SRID), nil
		}
		p, err := geom.NewPolygon(l).SetCoords(keep2(Coords2(g.C2)))
		if err != nil {
			return nil, err
		}
		return p.SetSRID(g.SRID), nil
	case MultiPoint:
		switch route {
		case RouteFlat:
			var flat []float64
			var ends []int
			for _, c := range g.C1 {
				flat = append(flat, Floats(c)...)
				ends = append(ends, len(flat))
			}
			return geom.NewMultiPointFlat(l, flat, geom.NewMultiPointFlatOptionWithEnds(ends)).SetSRID(g.SRID), nil
		case RoutePush:
			p := geom.NewMultiPoint(l)
			for _, c := range g.C1 {
				var pt *geom.Point
				if c == nil {
					pt = geom.NewPointEmpty(l)
				} else {
					pt = geom.NewPointFlat(l, Floats(c))
				}
				if err := p.Push(pt); err != nil {
					return nil, err
				}
			}
			return p.SetSRID(g.SRID), nil
		case RouteMustSetCoords:
			return geom.NewMultiPoint(l).MustSetCoords(keep1(Coords1(g.C1))).SetSRID(g.SRID), nil
		}
		p, err := geom.NewMultiPoint(l).SetCoords(keep1(Coords1(g.C1)))
		if err != nil {
			return nil, err
		}
		return p.SetSRID(g.SRID), nil
	case MultiLineString:
		switch route {
		case RouteFlat:
			f, e := Flat2(g.C2)
			return geom.NewMultiLineStringFlat(l, f, e).SetSRID(g.SRID), nil
		case RoutePush:
			p := geom.NewMultiLineString(l)
			for _, r := range g.C2 {
				if err := p.Push(geom.NewLineStringFlat(l, Flat1(r))); err != nil {
					return nil, err
				}
			}
			return p.SetSRID(g.SRID), nil
		case RouteMustSetCoords:
			return geom.NewMultiLineString(l).MustSetCoords(keep2(Coords2(g.C2))).SetSRID(g.SRID), nil
		}
		p, err := geom.NewMultiLineString(l).SetCoords(keep2(Coords2(g.C2)))
		if err != nil {
			return nil, err
		}
		return p.SetSRID(g.SRID), nil
	case MultiPolygon:
		switch route {
		case RouteFlat:
			f, e := Flat3(g.C3)
			return geom.NewMultiPolygonFlat(l, f, e).SetSRID(g.SRID), nil
		case RoutePush:
			p := geom.NewMultiPolygon(l)
			for _, poly := range g.C3 {
				f, e := Flat2(poly)
				if err := p.Push(geom.NewPolygonFlat(l, f, e)); err != nil {
					return nil, err
				}
			}
			return p.SetSRID(g.SRID), nil
		case RouteMustSetCoords:
			return geom.NewMultiPolygon(l).MustSetCoords(keep3(Coords3(g.C3))).SetSRID(g.SRID), nil
		}
		p, err := geom.NewMultiPolygon(l).SetCoords(keep3(Coords3(g.C3)))
		if err != nil {
			return nil, err
		}
		return p.SetSRID(g.SRID), nil
	case GeometryCollection:
		gc := geom.NewGeometryCollection()
		if g.Layout != 0 {
			if err := gc.SetLayout(l); err != nil {
				return nil, err
			}
		}
		if err := fillCollection(gc, g, route); err != nil {
			return nil, err
		}
		return gc.SetSRID(g.SRID), nil
	}
	return nil, fmt.Errorf("model: unknown kind %q", g.Kind)
}

// fillCollection pushes the members of g into gc. On the Push and MustSetCoords routes
// collections are built top-down where the layouts allow it: a nested collection is
// pushed while it is still member-less and gains its members afterwards (a collection
// holds its members by reference), so that nothing the outer collection worked out at
// Push time may be relied on later. The other routes build bottom-up.
func fillCollection(gc *geom.GeometryCollection, g *G, route Route) error {
	topDown := route == RoutePush || route == RouteMustSetCoords
	var later []func() error
	for i := range g.Members {
		m := &g.Members[i]
		if topDown && m.Kind == GeometryCollection && (g.Layout == 0 || m.Layout != 0) {
			inner := geom.NewGeometryCollection()
			if m.Layout != 0 {
				if err := inner.SetLayout(m.Lay()); err != nil {
					return err
				}
			}
			inner.SetSRID(m.SRID)
			if err := gc.Push(inner); err != nil {
				return err
			}
			later = append(later, func() error { return fillCollection(inner, m, route) })
			continue
		}
		t, err := build(m, route)
		if err != nil {
			return err
		}
		if err := gc.Push(t); err != nil {
			return err
		}
	}
	for _, f := range later {
		if err := f(); err != nil {
			return err
		}
	}
	return nil
}

// MustBuild is Build that panics on error.
func MustBuild(g *G, route Route) geom.T {
	t, err := Build(g, route)
	if err != nil {
		panic(fmt.Sprintf("model.MustBuild: %v", err))
	}
	return t
}

// KindOf returns the model kind of a geom.T ("" if unknown).
func KindOf(t geom.T) string {
	switch t.(type) {
	case *geom.Point:
		return Point
	case *geom.LineString:
		return LineString
	case *geom.LinearRing:
		return LinearRing
	case *geom.Polygon:
		return Polygon
	case *geom.MultiPoint:
		return MultiPoint
	case *geom.MultiLineString:
		return MultiLineString
	case *geom.MultiPolygon:
		return MultiPolygon
	case *geom.GeometryCollection:
		return GeometryCollection
	}
	return ""
}

// WellFormed checks the structural invariant of property C01 on t (and,
// recursively, on the members of a collection).
func WellFormed(t geom.T) error {
	if t == nil {
		return fmt.Errorf("nil geometry")
	}
	kind := KindOf(t)
	if kind == "" {
		return fmt.Errorf("unknown geometry type %T", t)
	}
	if gc, ok := t.(*geom.GeometryCollection); ok {
		if gc == nil {
			return fmt.Errorf("nil *GeometryCollection")
		}
		if gc.Stride() != gc.Layout().Stride() {
			return fmt.Errorf("collection stride %d != layout %v stride", gc.Stride(), gc.Layout())
		}
		for i := 0; i < gc.NumGeoms(); i++ {
			if err := WellFormed(gc.Geom(i)); err != nil {
				return fmt.Errorf("member %d: %w", i, err)
			}
		}
		return nil
	}
	stride := t.Stride()
	if stride != t.Layout().Stride() {
		return fmt.Errorf("%s: stride %d != stride %d of layout %v", kind, stride, t.Layout().Stride(), t.Layout())
	}
	flat := t.FlatCoords()
	ends := t.Ends()
	endss := t.Endss()
	if stride == 0 {
		if len(flat) != 0 {
			return fmt.Errorf("%s: NoLayout geometry with %d ordinates", kind, len(flat))
		}
		if len(ends) != 0 || len(endss) != 0 {
			return fmt.Errorf("%s: NoLayout geometry with ends", kind)
		}
		return nil
	}
	if len(flat)%stride != 0 {
		return fmt.Errorf("%s: %d ordinates is not a whole number of stride-%d coordinates", kind, len(flat), stride)
	}
	checkEnds := func(offset int, ends []int) (int, error) {
		for i, e := range ends {
			if e%stride != 0 {
				return 0, fmt.Errorf("%s: end %d (%d) not stride-aligned", kind, i, e)
			}
			if e < offset {
				return 0, fmt.Errorf("%s: end %d (%d) decreases below %d", kind, i, e, offset)
			}
			offset = e
		}
		return offset, nil
	}
	switch kind {
	case Point:
		if len(flat) != 0 && len(flat) != stride {
			return fmt.Errorf("Point with %d ordinates, stride %d", len(flat), stride)
		}
		if len(ends) != 0 || len(endss) != 0 {
			return fmt.Errorf("Point with ends")
		}
	case LineString, LinearRing:
		if len(ends) != 0 || len(endss) != 0 {
			return fmt.Errorf("%s with ends", kind)
		}
	case Polygon, MultiLineString, MultiPoint:
		if len(endss) != 0 {
			return fmt.Errorf("%s with endss", kind)
		}
		last, err := checkEnds(0, ends)
		if err != nil {
			return err
		}
		if last != len(flat) {
			return fmt.Errorf("%s: last end %d != len(flatCoords) %d", kind, last, len(flat))
		}
		if kind == MultiPoint {
			off := 0
			for i, e := range ends {
				if e-off != 0 && e-off != stride {
					return fmt.Errorf("MultiPoint: member %d has %d ordinates", i, e-off)
				}
				off = e
			}
		}
	case MultiPolygon:
		if len(ends) != 0 {
			return fmt.Errorf("MultiPolygon with ends")
		}
		off := 0
		for _, es := range endss {
			var err error
			off, err = checkEnds(off, es)
			if err != nil {
				return err
			}
		}
		if off != len(flat) {
			return fmt.Errorf("MultiPolygon: last end %d != len(flatCoords) %d", off, len(flat))
		}
	}
	return nil
}

func split1(flat []float64, stride int) [][]F {
	out := make([][]F, 0, len(flat)/stride)
	for i := 0; i+stride <= len(flat); i += stride {
		out = append(out, Bits(flat[i:i+stride]))
	}
	return out
}

// FromGeom reads t into the model. t must be WellFormed (checked first).
func FromGeom(t geom.T) (*G, error) {
	if err := WellFormed(t); err != nil {
		return nil, err
	}
	return fromGeom(t)
}

// fromGeom is FromGeom without the check (made once, at the top: it covers every
// member, and repeating it per level is cubic in the depth of a tower).
func fromGeom(t geom.T) (*G, error) {
	kind := KindOf(t)
	g := &G{Kind: kind, SRID: t.SRID()}
	if gc, ok := t.(*geom.GeometryCollection); ok {
		// The fixed layout is not observable directly; the reported layout of an
		// empty collection is its fixed layout.
		if gc.NumGeoms() == 0 {
			g.Layout = int(gc.Layout())
		}
		for i := 0; i < gc.NumGeoms(); i++ {
			m, err := fromGeom(gc.Geom(i))
			if err != nil {
				return nil, err
			}
			g.Members = append(g.Members, *m)
		}
		return g, nil
	}
	g.Layout = int(t.Layout())
	stride := t.Stride()
	flat := t.FlatCoords()
	if stride == 0 {
		return g, nil
	}
	switch kind {
	case Point:
		if len(flat) > 0 {
			g.C0 = Bits(flat)
		}
	case LineString, LinearRing:
		g.C1 = split1(flat, stride)
	case MultiPoint:
		off := 0
		g.C1 = [][]F{}
		for _, e := range t.Ends() {
			if e == off {
				g.C1 = append(g.C1, nil)
			} else {
				g.C1 = append(g.C1, Bits(flat[off:e]))
			}
			off = e
		}
	case Polygon, MultiLineString:
		off := 0
		g.C2 = [][][]F{}
		for _, e := range t.Ends() {
			g.C2 = append(g.C2, split1(flat[off:e], stride))
			off = e
		}
	case MultiPolygon:
		off := 0
		g.C3 = [][][][]F{}
		for _, es := range t.Endss() {
			poly := [][][]F{}
			for _, e := range es {
				poly = append(poly, split1(flat[off:e], stride))
				off = e
			}
			g.C3 = append(g.C3, poly)
		}
	}
	return g, nil
}

func eqC(a, b []F) bool {
	if (a == nil) != (b == nil) || len(a) != len(b) {
		return false
	}
	for i := range a {
		if a[i] != b[i] {
			return false
		}
	}
	return true
}

func eqV(a, b []F) bool {
	if len(a) != len(b) {
		return false
	}
	for i := range a {
		if a[i] != b[i] {
			return false
		}
	}
	return true
}

func eq1(a, b [][]F, nilMatters bool) bool {
	if len(a) != len(b) {
		return false
	}
	for i := range a {
		if nilMatters {
			if !eqC(a[i], b[i]) {
				return false
			}
		} else if !eqV(a[i], b[i]) {
			return false
		}
	}
	return true
}

// Diff compares two models: kind, layout (collections: reported layout), part
// structure with empty parts in position, and every ordinate bitwise. SRID is
// compared when srid is true. It returns "" when equal.
func Diff(want, got *G, srid bool) string { return DiffOpt(want, got, srid, true) }

// DiffOpt is Diff with the layout comparison optional (GeoJSON carries no layout).
func DiffOpt(want, got *G, srid, layout bool) string {
	if want.Kind != got.Kind {
		return fmt.Sprintf("kind %s != %s", got.Kind, want.Kind)
	}
	if srid && want.SRID != got.SRID {
		return fmt.Sprintf("%s: SRID %d != %d", want.Kind, got.SRID, want.SRID)
	}
	if layout && want.ReportedLayout() != got.ReportedLayout() {
		return fmt.Sprintf("%s: layout %v != %v", want.Kind, got.ReportedLayout(), want.ReportedLayout())
	}
	switch want.Kind {
	case Point:
		if !eqC(want.C0, got.C0) {
			return fmt.Sprintf("Point coords %v != %v", show(got.C0), show(want.C0))
		}
	case LineString, LinearRing:
		if !eq1(want.C1, got.C1, false) {
			return fmt.Sprintf("%s coords differ: got %d coords %v want %d coords %v", want.Kind, len(got.C1), show1(got.C1), len(want.C1), show1(want.C1))
		}
	case MultiPoint:
		if !eq1(want.C1, got.C1, true) {
			return fmt.Sprintf("MultiPoint members differ: got %v want %v", show1(got.C1), show1(want.C1))
		}
	case Polygon, MultiLineString:
		if len(want.C2) != len(got.C2) {
			return fmt.Sprintf("%s: %d parts != %d", want.Kind, len(got.C2), len(want.C2))
		}
		for i := range want.C2 {
			if !eq1(want.C2[i], got.C2[i], false) {
				return fmt.Sprintf("%s part %d differs: got %v want %v", want.Kind, i, show1(got.C2[i]), show1(want.C2[i]))
			}
		}
	case MultiPolygon:
		if len(want.C3) != len(got.C3) {
			return fmt.Sprintf("MultiPolygon: %d polygons != %d", len(got.C3), len(want.C3))
		}
		for i := range want.C3 {
			if len(want.C3[i]) != len(got.C3[i]) {
				return fmt.Sprintf("MultiPolygon polygon %d: %d rings != %d", i, len(got.C3[i]), len(want.C3[i]))
			}
			for j := range want.C3[i] {
				if !eq1(want.C3[i][j], got.C3[i][j], false) {
					return fmt.Sprintf("MultiPolygon polygon %d ring %d differs: got %v want %v", i, j, show1(got.C3[i][j]), show1(want.C3[i][j]))
				}
			}
		}
	case GeometryCollection:
		if len(want.Members) != len(got.Members) {
			return fmt.Sprintf("collection: %d members != %d", len(got.Members), len(want.Members))
		}
		for i := range want.Members {
			if d := DiffOpt(&want.Members[i], &got.Members[i], srid, layout); d != "" {
				return fmt.Sprintf("member %d: %s", i, d)
			}
		}
	}
	return ""
}

func show(c []F) string {
	if c == nil {
		return "nil"
	}
	b, _ := json.Marshal(c)
	return string(b)
}

func show1(cs [][]F) string {
	if len(cs) > 6 {
		b, _ := json.Marshal(cs[:6])
		return string(b) + "..."
	}
	b, _ := json.Marshal(cs)
	return string(b)
}

// Clone returns a deep copy of g.
func (g *G) Clone() *G {
	b, err := json.Marshal(g)
	if err != nil {
		panic(err)
	}
	var out G
	if err := json.Unmarshal(b, &out); err != nil {
		panic(err)
	}
	return &out
}

// CoordSlots returns pointers to every non-nil coordinate below g (not
// descending into collections' members unless deep is set).
func (g *G) CoordSlots(deep bool) []*[]F {
	var out []*[]F
	one := func(x *G) {
		if x.C0 != nil {
			out = append(out, &x.C0)
		}
		for i := range x.C1 {
			if x.C1[i] != nil {
				out = append(out, &x.C1[i])
			}
		}
		for i := range x.C2 {
			for j := range x.C2[i] {
				out = append(out, &x.C2[i][j])
			}
		}
		for i := range x.C3 {
			for j := range x.C3[i] {
				for k := range x.C3[i][j] {
					out = append(out, &x.C3[i][j][k])
				}
			}
		}
	}
	if deep {
		g.Walk(one)
	} else {
		one(g)
	}
	return out
}

// FromCoords rebuilds the model of a non-collection geometry from its Coords()
// method (not from the flat arrays). An empty Point is returned without
// calling Coords(), which panics by design.
func FromCoords(t geom.T) (*G, error) {
	g := &G{Kind: KindOf(t), Layout: int(t.Layout()), SRID: t.SRID()}
	bits1 := func(cs []geom.Coord) [][]F {
		out := make([][]F, len(cs))
		for i, c := range cs {
			if c != nil {
				out[i] = Bits(c)
			}
		}
		return out
	}
	bits2 := func(css [][]geom.Coord) [][][]F {
		out := make([][][]F, len(css))
		for i, cs := range css {
			out[i] = bits1(cs)
		}
		return out
	}
	switch tt := t.(type) {
	case *geom.Point:
		if !tt.Empty() {
			g.C0 = Bits(tt.Coords())
		}
	case *geom.LineString:
		g.C1 = bits1(tt.Coords())
	case *geom.LinearRing:
		g.C1 = bits1(tt.Coords())
	case *geom.MultiPoint:
		g.C1 = bits1(tt.Coords())
	case *geom.Polygon:
		g.C2 = bits2(tt.Coords())
	case *geom.MultiLineString:
		g.C2 = bits2(tt.Coords())
	case *geom.MultiPolygon:
		css := tt.Coords()
		g.C3 = make([][][][]F, len(css))
		for i := range css {
			g.C3[i] = bits2(css[i])
		}
	default:
		return nil, fmt.Errorf("model.FromCoords: %T", t)
	}
	return g, nil
}

// Leaf is a caller-held alias of the coordinate storage of one non-collection
// geometry: the slice FlatCoords() returned, and the stride.
type Leaf struct {
	Flat   []float64
	Stride int
}

// Leaves returns the aliases of every leaf geometry below t (t itself if it is
// not a collection), in order. Checks take them *before* the first query, the
// way a caller holds on to a slice: a later in-place rewrite through them is
// then invisible to any bookkeeping done inside FlatCoords().
func Leaves(t geom.T) []Leaf {
	if gc, ok := t.(*geom.GeometryCollection); ok {
		var out []Leaf
		for _, m := range gc.Geoms() {
			out = append(out, Leaves(m)...)
		}
		return out
	}
	return []Leaf{{Flat: t.FlatCoords(), Stride: t.Stride()}}
}

// SwapXY exchanges the first two ordinates of every coordinate, in place; false
// if there was nothing to exchange.
func SwapXY(ls []Leaf) bool {
	any := false
	for _, l := range ls {
		if l.Stride < 2 {
			continue
		}
		for i := 0; i+1 < len(l.Flat); i += l.Stride {
			l.Flat[i], l.Flat[i+1] = l.Flat[i+1], l.Flat[i]
			any = true
		}
	}
	return any
}

// SwappedXY returns a deep copy of g in which the first two ordinates of every
// coordinate are exchanged (what SwapXY does to the geometry itself).
func (g *G) SwappedXY() *G {
	c := g.Clone()
	for _, s := range c.CoordSlots(true) {
		if len(*s) >= 2 {
			(*s)[0], (*s)[1] = (*s)[1], (*s)[0]
		}
	}
	return c
}

// Mapped returns a deep copy of g with f applied to every ordinate.
func (g *G) Mapped(f func(float64) float64) *G {
	c := g.Clone()
	for _, s := range c.CoordSlots(true) {
		for i := range *s {
			(*s)[i] = Of(f((*s)[i].V()))
		}
	}
	return c
}

// Spoil makes a geometry that a call returned unrecognisable, in place: every ordinate
// is overwritten, points without coordinates get some, SRIDs change - recursively through
// collections. What a decoder or a constructor returned is the caller's to do this to; a
// later result of the same call must not have anything in common with it.
func Spoil(t geom.T) {
	if t == nil {
		return
	}
	if gc, ok := t.(*geom.GeometryCollection); ok {
		if gc == nil {
			return
		}
		gc.SetSRID(gc.SRID() + 98765)
		for _, m := range gc.Geoms() {
			Spoil(m)
		}
		return
	}
	defer func() { _ = recover() }() // typed nil pointers inside an interface, exotic layouts
	if p, ok := t.(*geom.Point); ok && p != nil && len(p.FlatCoords()) == 0 && p.Layout() != geom.NoLayout {
		c := make(geom.Coord, p.Layout().Stride())
		for i := range c {
			c[i] = 4242.5
		}
		_, _ = p.SetCoords(c)
	}
	f := t.FlatCoords()
	for i := range f {
		f[i] = 4242.5 + float64(i)
	}
	_, _ = geom.SetSRID(t, t.SRID()+98765)
}
