// C20: Douglas-Peucker simplification honours its threshold.
package c20

import (
	"fmt"
	geom "github.com/twpayne/go-geom"
	"github.com/twpayne/go-geom/bigxy"
	"math"
	"math/big"
	"testing"

	"github.com/twpayne/go-geom/xy"
	"pgregory.net/rapid"

	"verifharness/internal/ev"
	"verifharness/internal/exact"
	"verifharness/internal/model"
	"verifharness/internal/run"
)

func TestMain(m *testing.M) { run.Main(m) }

// Case is a coordinate sequence on an integer grid, a stride and a threshold.
type Case struct {
	Shape  string     `json:"shape"`
	Stride int        `json:"stride"`
	Pts    [][2]int64 `json:"pts"`
	Thr    model.F    `json:"thr"`
	// Exp: every ordinate and the threshold are multiplied by 2^Exp (exact) before
	// they are handed to the library; which points may be dropped does not change.
	Exp int `json:"exp,omitempty"`
	// Div > 1: every x and y is divided by Div (in float64) first: decimal ordinates.
	Div int `json:"div,omitempty"`
	// Burst: after the line itself, its prefixes of these lengths are simplified one
	// after another (hundreds of calls on lines of differing sizes within one case):
	// whatever a call leaves behind must not show in a later one.
	Burst []int `json:"burst,omitempty"`
}

// curExp is Case.Exp of the case being evaluated (one case at a time per process).
var curExp int

func genCase(t *rapid.T) Case {
	shape := rapid.SampledFrom([]string{"random", "walk", "collinear-runs", "closed-loop", "repeats", "zigzag", "tiny", "damped-zigzag", "mixed-scale"}).Draw(t, "shape")
	k := uint(rapid.IntRange(0, 16).Draw(t, "k"))
	side := int64(1) << k
	n := rapid.IntRange(0, 200).Draw(t, "n")
	if rapid.IntRange(0, 2).Draw(t, "small") == 0 {
		n = rapid.IntRange(0, 12).Draw(t, "nsmall")
	}
	if shape == "tiny" {
		n = rapid.IntRange(0, 4).Draw(t, "ntiny")
	} else if shape != "damped-zigzag" && rapid.IntRange(0, 49).Draw(t, "verylong") == 0 {
		// sizes across any power-of-two constant an implementation may switch on
		n = rapid.SampledFrom([]int{255, 256, 257, 511, 512, 513, 1023, 1024, 1025, 1100, 1500, 2047, 2048, 2049, 2600}).Draw(t, "nverylong")
	}
	if shape == "damped-zigzag" {
		// the farthest point is always the one right after the chord start: the
		// interval stack nests as deep as the line is long
		n = rapid.IntRange(100, 200).Draw(t, "ndeep")
	}
	pts := make([][2]int64, 0, n)
	cur := [2]int64{rapid.Int64Range(-side, side).Draw(t, "x0"), rapid.Int64Range(-side, side).Draw(t, "y0")}
	dir := [2]int64{1, 0}
	for i := 0; i < n; i++ {
		switch shape {
		case "random", "tiny":
			cur = [2]int64{rapid.Int64Range(-side, side).Draw(t, "x"), rapid.Int64Range(-side, side).Draw(t, "y")}
		case "walk":
			cur = [2]int64{cur[0] + rapid.Int64Range(-3, 3).Draw(t, "dx"), cur[1] + rapid.Int64Range(-3, 3).Draw(t, "dy")}
		case "collinear-runs":
			if rapid.IntRange(0, 5).Draw(t, "turn") == 0 {
				dir = [2]int64{rapid.Int64Range(-2, 2).Draw(t, "ddx"), rapid.Int64Range(-2, 2).Draw(t, "ddy")}
			}
			cur = [2]int64{cur[0] + dir[0], cur[1] + dir[1]}
		case "repeats":
			if rapid.IntRange(0, 2).Draw(t, "move") == 0 {
				cur = [2]int64{rapid.Int64Range(-side, side).Draw(t, "x"), rapid.Int64Range(-side, side).Draw(t, "y")}
			}
		case "damped-zigzag":
			amp := int64(n-i) * 4
			if i%2 == 1 {
				amp = -amp
			}
			cur = [2]int64{int64(i), amp}
		case "zigzag":
			cur = [2]int64{cur[0] + 1, int64(i%2) * rapid.Int64Range(0, side).Draw(t, "amp")}
		case "closed-loop":
			cur = [2]int64{rapid.Int64Range(-side, side).Draw(t, "x"), rapid.Int64Range(-side, side).Draw(t, "y")}
		case "mixed-scale":
			// small detail (steps of a few units) interrupted by legs that are 2^40..2^62
			// long: lengths, sums and differences of very different magnitudes in one line
			switch rapid.IntRange(0, 7).Draw(t, "leg") {
			case 0:
				e := uint(rapid.IntRange(40, 61).Draw(t, "lege"))
				far := int64(1) << e
				if rapid.Bool().Draw(t, "legneg") {
					far = -far
				}
				if rapid.Bool().Draw(t, "legaxis") {
					cur = [2]int64{far, cur[1] % 1024}
				} else {
					cur = [2]int64{cur[0] % 1024, far}
				}
			case 1:
				cur = [2]int64{0, 0}
			default:
				cur = [2]int64{cur[0]%(1<<20) + rapid.Int64Range(-100, 100).Draw(t, "dx"), cur[1]%(1<<20) + rapid.Int64Range(-100, 100).Draw(t, "dy")}
			}
		}
		pts = append(pts, cur)
	}
	if shape == "closed-loop" && len(pts) > 1 {
		pts[len(pts)-1] = pts[0]
	}
	var thr float64
	switch rapid.IntRange(0, 7).Draw(t, "thrclass") {
	case 0:
		thr = 0
	case 1:
		thr = 0.5
	case 2:
		thr = 1
	case 3:
		thr = math.Sqrt2 * float64(rapid.IntRange(1, 4).Draw(t, "m"))
	case 4:
		thr = float64(side) / 4
	case 5:
		thr = float64(side)
	case 6:
		thr = 10 * float64(side)
	default:
		thr = rapid.Float64Range(0, float64(side)+1).Draw(t, "thr")
	}
	c := Case{Shape: shape, Stride: rapid.IntRange(2, 5).Draw(t, "stride"), Pts: pts, Thr: model.Of(thr)}
	if n := len(pts); n >= 30 && n <= 300 && rapid.IntRange(0, 39).Draw(t, "burst") == 0 {
		k := rapid.IntRange(260, 560).Draw(t, "nburst")
		for i := 0; i < k; i++ {
			// mostly very short lines, now and then a long one
			if rapid.IntRange(0, 9).Draw(t, "blong") == 0 {
				c.Burst = append(c.Burst, rapid.IntRange(3, n).Draw(t, "blen"))
			} else {
				c.Burst = append(c.Burst, rapid.IntRange(0, 6).Draw(t, "bshort"))
			}
		}
	}
	// a small line far from the origin (an exact whole-number translation; odd offsets
	// of 20-52 bits, not multiples of a large power of two): coordinates of a projected
	// system, where expressions in absolute coordinates cancel
	small := shape != "mixed-scale"
	for _, q := range c.Pts {
		if q[0] > 1<<21 || q[0] < -(1<<21) || q[1] > 1<<21 || q[1] < -(1<<21) {
			small = false
		}
	}
	if small && rapid.IntRange(0, 4).Draw(t, "offset") == 0 {
		var o [2]int64
		for d := range o {
			o[d] = rapid.Int64Range(1<<uint(rapid.IntRange(20, 51).Draw(t, "offbits")), 1<<52-1).Draw(t, "off") | 1
			if rapid.Bool().Draw(t, "offneg") {
				o[d] = -o[d]
			}
		}
		for i := range c.Pts {
			c.Pts[i][0] += o[0]
			c.Pts[i][1] += o[1]
		}
		c.Shape += "+offset"
	}
	if rapid.IntRange(0, 3).Draw(t, "div") == 0 {
		c.Div = rapid.SampledFrom([]int{10, 10, 3, 7, 100, 1000}).Draw(t, "divby")
		c.Shape += "+div"
		c.Thr = model.Of(c.Thr.V() / float64(c.Div)) // the threshold keeps its proportion to the line
	}
	if rapid.IntRange(0, 5).Draw(t, "scaled") == 0 {
		c.Exp = rapid.SampledFrom([]int{400, -400, 200, -200, 50, -50}).Draw(t, "exp")
		if rapid.Bool().Draw(t, "expany") {
			c.Exp = rapid.IntRange(-400, 400).Draw(t, "expv")
		}
	} else if tu := rapid.IntRange(0, 29).Draw(t, "tinyunit"); c.Thr.V() == 0 && (tu == 17 || tu < 10 && len(c.Pts) <= 64 && len(c.Burst) == 0) {
		// (short lines mostly: the library decides these exactly, point by point)
		// threshold zero asks which points lie exactly on a segment, and that has an
		// answer in any unit: units so small that squares of distances (from 2^-538),
		// then distances times lengths, are below the smallest float64 - every ordinate
		// still a normal number, so none loses a bit
		c.Exp = rapid.SampledFrom([]int{-990, -800, -600, -545, -538, -530, -450}).Draw(t, "tinyexp")
		c.Shape += "+tinyunit"
	}
	return c
}

// flat lays the points out with the given stride. The extra ordinates are junk
// that the function must ignore: huge values for even strides (a stride slip
// then inflates distances), zeros or a copy of x for odd strides (a slip then
// deflates distances and wrongly drops points).
func flat(pts [][2]int64, stride int) []float64 {
	out := make([]float64, 0, len(pts)*stride)
	for i, p := range pts {
		out = append(out, math.Ldexp(val(p[0]), curExp), math.Ldexp(val(p[1]), curExp))
		for d := 2; d < stride; d++ {
			switch {
			case stride%2 == 0 && (i+d)%7 == 3:
				out = append(out, math.NaN()) // now and then not a number at all
			case stride%2 == 0 && (i+d)%7 == 5:
				out = append(out, math.Inf(1-2*(i%2)))
			case stride%2 == 0:
				out = append(out, float64((i*7+d)%13)*1e12-5e12)
			case d == 2:
				out = append(out, 0)
			default:
				out = append(out, float64(p[0]))
			}
		}
	}
	return out
}

// val is a whole-number ordinate of the case as the float64 the library gets (before the
// power-of-two scaling): itself, or divided by the case's Div (decimal ordinates).
func val(v int64) float64 {
	if curDiv > 1 {
		return float64(v) / float64(curDiv)
	}
	return float64(v)
}

// curDiv is Case.Div of the case being evaluated.
var curDiv int

func ep(p [2]int64) exact.P2 { return exact.Pt(val(p[0]), val(p[1])) }

func prop(c Case) error {
	// the exact-arithmetic package's other exported function runs first (whatever it
	// returns or panics with): it shares nothing with what is measured here
	_ = run.Safe(func() error {
		_ = bigxy.Intersection(geom.Coord{0.1, 0.7}, geom.Coord{3.3, -1.9}, geom.Coord{-2.5, 0.3}, geom.Coord{4.7, 1.1})
		return nil
	})
	return propMain(c)
}

func propMain(c Case) error {
	curExp, curDiv = c.Exp, c.Div
	defer func() { curExp, curDiv = 0, 0 }()
	f := flat(c.Pts, c.Stride)
	if err := simplify(c, f); err != nil {
		return err
	}
	for i, b := range c.Burst {
		if b > len(c.Pts) {
			b = len(c.Pts)
		}
		sub := c
		sub.Pts, sub.Burst = c.Pts[:b], nil
		if err := simplify(sub, flat(sub.Pts, c.Stride)); err != nil {
			return fmt.Errorf("call %d of a burst of %d (the line's first %d points): %v", i+1, len(c.Burst), b, err)
		}
	}
	if len(c.Pts) > 300 {
		return nil
	}
	// the same array refilled with another line (the points in reverse order with x
	// and y exchanged) and simplified again: nothing may be remembered about the array
	// (first simplified twice more as it is - what is remembered may only be used from
	// the second or third time on - then refilled keeping its first and last point)
	for i := 0; i < 2; i++ {
		_ = xy.SimplifyFlatCoords(f, math.Ldexp(c.Thr.V(), c.Exp), c.Stride)
	}
	c1 := c
	c1.Pts = make([][2]int64, len(c.Pts))
	for i, p := range c.Pts {
		c1.Pts[i] = [2]int64{p[1], p[0]}
		if i == 0 || i == len(c.Pts)-1 {
			c1.Pts[i] = p
		}
	}
	copy(f, flat(c1.Pts, c.Stride))
	if err := simplify(c1, f); err != nil {
		return fmt.Errorf("the input array refilled with all but the first and last point transposed: %v", err)
	}
	c2 := c
	c2.Pts = make([][2]int64, len(c.Pts))
	for i, p := range c.Pts {
		c2.Pts[len(c.Pts)-1-i] = [2]int64{p[1], p[0]}
	}
	copy(f, flat(c2.Pts, c.Stride))
	if err := simplify(c2, f); err != nil {
		return fmt.Errorf("the input array refilled with the reversed, transposed line: %v", err)
	}
	return nil
}

// simplify checks SimplifyFlatCoords on the case's points, laid out in f.
func simplify(c Case, f []float64) error {
	thr := c.Thr.V()
	before := append([]float64{}, f...)
	idx := xy.SimplifyFlatCoords(f, math.Ldexp(thr, curExp), c.Stride)
	for i := range f {
		if math.Float64bits(f[i]) != math.Float64bits(before[i]) {
			return fmt.Errorf("input modified at ordinate %d", i)
		}
	}
	n := len(c.Pts)
	if n < 3 {
		if len(idx) != n {
			return fmt.Errorf("n=%d: indexes %v, want all points", n, idx)
		}
		for i, v := range idx {
			if v != i {
				return fmt.Errorf("n=%d: indexes %v", n, idx)
			}
		}
		for i := range idx {
			idx[i] = -7 - i
		}
		return nil
	}
	if len(idx) < 2 || idx[0] != 0 || idx[len(idx)-1] != n-1 {
		return fmt.Errorf("indexes %v do not include the first (0) and last (%d) point", idx, n-1)
	}
	for i := 1; i < len(idx); i++ {
		if idx[i] <= idx[i-1] {
			return fmt.Errorf("indexes not strictly increasing: %v", idx)
		}
	}
	mag := func(p [2]int64) float64 { return math.Max(math.Abs(val(p[0])), math.Abs(val(p[1]))) }
	for i := 1; i < len(idx); i++ {
		a, b := ep(c.Pts[idx[i-1]]), ep(c.Pts[idx[i]])
		for k := idx[i-1] + 1; k < idx[i]; k++ {
			// allowed distance: thr plus the rounding of the library's own distance
			// computation, which involves these three points only (not the largest ordinate
			// anywhere on the line). The documented method places the foot of the perpendicular
			// in absolute coordinates, so its error is a few units in the last place of the
			// largest ordinate of the three: 2^-46 of it (128 ulps) is allowed.
			scale := math.Max(mag(c.Pts[k]), math.Max(mag(c.Pts[idx[i-1]]), mag(c.Pts[idx[i]])))
			lim := exact.Add(exact.Mul(exact.R(thr), exact.Add(big.NewRat(1, 1), big.NewRat(1, 1<<30))), exact.Mul(exact.R(scale), big.NewRat(1, 1<<46)))
			lim2 := exact.Mul(lim, lim)
			d2 := exact.PointSegDist2(ep(c.Pts[k]), a, b)
			if thr == 0 {
				if d2.Sign() != 0 {
					return fmt.Errorf("threshold 0: point %d %v was dropped but is %.3g away from segment %d-%d", k, c.Pts[k], math.Sqrt(exact.Float(d2)), idx[i-1], idx[i])
				}
				continue
			}
			if d2.Cmp(lim2) > 0 {
				return fmt.Errorf("point %d %v was dropped but is %.6g away from the segment joining retained points %d %v and %d %v (threshold %v)", k, c.Pts[k], math.Sqrt(exact.Float(d2)), idx[i-1], c.Pts[idx[i-1]], idx[i], c.Pts[idx[i]], thr)
			}
			if thr > 0 && scale > 0 {
				// how much of the rounding allowance a dropped point used (0 = within thr itself)
				if over := math.Sqrt(exact.Float(d2)) - thr; over > 0 {
					ev.Default.MaxOf("rounding_allowance_used", over/(scale/(1<<46)))
				}
			}
		}
	}
	// idempotence
	kept := make([][2]int64, len(idx))
	for i, v := range idx {
		kept[i] = c.Pts[v]
	}
	again := xy.SimplifyFlatCoords(flat(kept, c.Stride), math.Ldexp(thr, curExp), c.Stride)
	if len(again) != len(kept) {
		return fmt.Errorf("simplifying the simplified line again dropped %d more points (%v of %d)", len(kept)-len(again), again, len(kept))
	}
	// the index lists returned belong to the caller (who may turn them into offsets in
	// place): overwriting them must not show in any later call
	for i := range idx {
		idx[i] = -7 - i
	}
	for i := range again {
		again[i] = -7 - i
	}
	return nil
}

func classify(c Case) ([]string, bool) {
	cl := []string{"shape:" + c.Shape, fmt.Sprintf("stride:%d", c.Stride)}
	if len(c.Burst) > 0 {
		cl = append(cl, "burst-of-calls")
	}
	if len(c.Pts) >= 1024 {
		cl = append(cl, "n>=1024")
	}
	if c.Exp != 0 {
		cl = append(cl, "scaled")
	}
	n := len(c.Pts)
	kept := -1
	_ = run.Safe(func() error {
		curDiv = c.Div
		defer func() { curDiv = 0 }()
		kept = len(xy.SimplifyFlatCoords(flat(c.Pts, c.Stride), c.Thr.V(), c.Stride))
		return nil
	})
	if c.Thr.V() == 0 {
		cl = append(cl, "thr=0")
	}
	if kept > 0 && kept < n {
		cl = append(cl, "dropped-some")
	}
	return cl, n >= 5 && kept > 0 && kept < n
}

var spec = run.Spec[Case]{ID: "C20", Name: "rdp", Gen: genCase, Prop: prop, Classify: classify}

func TestPropRDP(t *testing.T) { run.Generated(t, spec) }
func TestRegress(t *testing.T) { run.Regress(t, spec) }
func TestReplay(t *testing.T) {
	run.ReplayOne(t, spec)
	run.ReplayOne(t, sweepSpec)
}
