package c20

import (
	"testing"

	"verifharness/internal/ev"
	"verifharness/internal/model"
	"verifharness/internal/run"
)

// SweepCase is a zig-zag of N points (x = i, y alternating between 0 and 1, 2 or 3,
// with a flat stretch every 17 points) simplified with threshold 1.5: about a third of
// the points go.
type SweepCase struct {
	N      int `json:"n"`
	Stride int `json:"stride"`
}

func propSweep(s SweepCase) error {
	pts := make([][2]int64, 0, s.N)
	for i := 0; i < s.N; i++ {
		y := int64(0)
		if i%2 == 1 && i%17 > 2 {
			y = int64(1 + i%3)
		}
		pts = append(pts, [2]int64{int64(i), y})
	}
	c := Case{Shape: "sweep", Stride: s.Stride, Pts: pts, Thr: model.Of(1.5)}
	return simplify(c, flat(c.Pts, c.Stride))
}

var sweepSpec = run.Spec[SweepCase]{ID: "C20", Name: "sweep", Prop: propSweep, Classify: func(s SweepCase) ([]string, bool) {
	return []string{"size-sweep"}, true
}}

// TestExhaustiveSizes simplifies lines of every number of points from 2 to 1 000
// (thorough: 6 000).
func TestExhaustiveSizes(t *testing.T) {
	shard, shards := run.Shard()
	hi := 1000
	if run.Thorough() {
		hi = 6000
	}
	for n := 2; n <= hi; n++ {
		if n%shards != shard {
			continue
		}
		s := SweepCase{N: n, Stride: 2 + n%4}
		ev.Default.CaseHash(uint64(n), "size-sweep", true, func() any { return s })
		if !run.One(t, sweepSpec, s) {
			return
		}
	}
}

func TestRegressSweep(t *testing.T) { run.Regress(t, sweepSpec) }
