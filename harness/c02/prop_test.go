// C02: multi-part geometries behave as lists of their parts under any Push history.
package c02

import (
	"encoding/binary"
	"errors"
	"fmt"
	"math"
	"strings"
	"testing"
	"verifharness/internal/ev"

	geom "github.com/twpayne/go-geom"
	"github.com/twpayne/go-geom/encoding/wkb"
	"github.com/twpayne/go-geom/encoding/wkbcommon"
	"pgregory.net/rapid"

	"verifharness/internal/gen"
	"verifharness/internal/model"
	"verifharness/internal/run"
)

func TestMain(m *testing.M) { run.Main(m) }

// Op is one step of a history.
type Op struct {
	Name  string    `json:"op"` // push | pushbad | pushmulti | reverse | swap | clone
	Parts []model.G `json:"parts,omitempty"`
	// swap: layout/srid of the other value; pushmulti: index of the bad part (-1 none)
	Layout int  `json:"layout,omitempty"`
	SRID   int  `json:"srid,omitempty"`
	Bad    int  `json:"bad,omitempty"`
	OnOrig bool `json:"onOrig,omitempty"` // clone: continue on the original instead of the clone
	// Target selects (modulo the number of live values) which live value the
	// operation applies to: clones and swap partners stay alive and keep being
	// operated on, so that storage shared between two values shows up.
	Target int `json:"target,omitempty"`
}

// Case is a receiver and a history.
type Case struct {
	Kind   string `json:"kind"`
	Layout int    `json:"layout"`
	Fixed  bool   `json:"fixed,omitempty"` // collection with a fixed layout
	Ops    []Op   `json:"ops"`
	// Init and InitVia: the parts the receiver holds before the history starts and
	// the constructor that put them there ("" = none: the New function alone;
	// "flat", "flat-plain" (a MultiPoint from its coordinates alone, no ends),
	// "setcoords", "push", "clone" (a clone of a flat-built value), "wkb" (decoded)).
	Init    []model.G `json:"init,omitempty"`
	InitVia string    `json:"initVia,omitempty"`
}

var partKind = map[string]string{
	model.Polygon: model.LinearRing, model.MultiPoint: model.Point, model.MultiLineString: model.LineString, model.MultiPolygon: model.Polygon,
}

var layouts = []geom.Layout{geom.XY, geom.XYZ, geom.XYM, geom.XYZM, geom.Layout(5)}

func genPart(t *rapid.T, kind string, l geom.Layout) model.G {
	o := gen.TreeOpts{Floats: gen.SmallInt | gen.Moderate, MaxParts: 3, MaxPts: 4, PEmpty: 30}
	// one part in five draws from every bit pattern: NaNs (a coordinate that is entirely
	// the empty-point marker is a pushed position, not an empty part), infinities, -0
	if rapid.IntRange(0, 4).Draw(t, "allbits") == 0 {
		o.Floats = gen.AllBits
	}
	if kind == model.GeometryCollection || kind == "" {
		k := rapid.SampledFrom(append([]string{}, gen.SevenKinds...)).Draw(t, "partkind")
		return *gen.Leaf(t, &o, k, l)
	}
	return *gen.Leaf(t, &o, kind, l)
}

// genNested draws a collection to be pushed into a collection: with 1..2 members of
// layout l (declaring l itself half of the time), or without members and declaring l.
// A loose one (only for parts that must be refused: l is not the receiver's layout) may
// also declare nothing and hold nothing, or nothing but member-less collections - it
// then reports no layout at all, which is not the receiver's either.
func genNested(t *rapid.T, l geom.Layout, loose bool) model.G {
	o := gen.TreeOpts{Floats: gen.SmallInt | gen.Moderate, MaxParts: 2, MaxPts: 3, PEmpty: 30}
	g := model.G{Kind: model.GeometryCollection}
	shape := rapid.IntRange(0, 4).Draw(t, "nestedshape")
	if !loose && shape > 2 {
		shape -= 2
	}
	switch shape {
	case 0: // member-less, declaring l
		g.Layout = int(l)
	case 1, 2: // members of layout l
		for n := rapid.IntRange(1, 2).Draw(t, "nnested"); n > 0; n-- {
			g.Members = append(g.Members, *gen.Leaf(t, &o, rapid.SampledFrom(append([]string{}, gen.SevenKinds...)).Draw(t, "nestedkind"), l))
		}
		if shape == 2 {
			g.Layout = int(l)
		}
	case 3: // member-less, declaring nothing
	default: // nothing but member-less collections
		g.Members = append(g.Members, model.G{Kind: model.GeometryCollection}, model.G{Kind: model.GeometryCollection, Layout: int(l)})
	}
	return g
}

func otherLayout(t *rapid.T, l geom.Layout) geom.Layout {
	var cand []geom.Layout
	for _, x := range layouts {
		if x != l {
			cand = append(cand, x)
		}
	}
	return rapid.SampledFrom(cand).Draw(t, "otherlayout")
}

func genCase(t *rapid.T) Case {
	c := Case{
		Kind:   rapid.SampledFrom([]string{model.MultiPolygon, model.MultiPolygon, model.Polygon, model.MultiLineString, model.MultiPoint, model.GeometryCollection}).Draw(t, "kind"),
		Layout: int(rapid.SampledFrom(layouts).Draw(t, "layout")),
	}
	if c.Kind == model.GeometryCollection {
		c.Fixed = rapid.Bool().Draw(t, "fixed")
	}
	if c.Kind != model.GeometryCollection && rapid.IntRange(0, 2).Draw(t, "withinit") == 0 {
		c.InitVia = rapid.SampledFrom([]string{"flat", "flat-plain", "setcoords", "push", "clone", "wkb"}).Draw(t, "initvia")
		for k := rapid.IntRange(0, 3).Draw(t, "ninit"); k > 0; k-- {
			c.Init = append(c.Init, genPart(t, partKind[c.Kind], geom.Layout(c.Layout)))
		}
	}
	alive := []geom.Layout{geom.Layout(c.Layout)}
	n := rapid.IntRange(1, 30).Draw(t, "nops")
	if run.Thorough() {
		n = rapid.IntRange(1, 60).Draw(t, "nops2")
	}
	pk := partKind[c.Kind]
	for i := 0; i < n; i++ {
		names := []string{"push", "push", "push", "push", "pushbad", "reverse", "swap", "clone", "touchpart", "repush", "growreturned", "pushview", "reverseview"}
		if c.Kind == model.GeometryCollection {
			names = []string{"push", "push", "push", "pushmulti", "pushbad", "clone"}
		}
		op := Op{Name: rapid.SampledFrom(names).Draw(t, "op"), Target: rapid.IntRange(0, 3).Draw(t, "target")}
		tgt := op.Target % len(alive)
		cur := alive[tgt]
		switch op.Name {
		case "push":
			l := cur
			if c.Kind == model.GeometryCollection && !c.Fixed {
				l = rapid.SampledFrom(layouts).Draw(t, "anylayout")
			}
			op.Parts = []model.G{genPart(t, pk, l)}
			if c.Kind == model.GeometryCollection && rapid.IntRange(0, 3).Draw(t, "nestedpart") == 0 {
				op.Parts = []model.G{genNested(t, l, false)}
			}
		case "pushbad":
			if c.Kind == model.GeometryCollection && !c.Fixed {
				op.Name = "push"
				op.Parts = []model.G{genPart(t, pk, rapid.SampledFrom(layouts).Draw(t, "anylayout"))}
				break
			}
			bl := otherLayout(t, cur)
			if cur == geom.XYZ && rapid.Bool().Draw(t, "samestride") {
				bl = geom.XYM
			}
			op.Parts = []model.G{genPart(t, pk, bl)}
			if c.Kind == model.GeometryCollection && rapid.IntRange(0, 2).Draw(t, "nestedbad") == 0 {
				op.Parts = []model.G{genNested(t, bl, true)}
			}
		case "pushmulti":
			k := rapid.IntRange(0, 3).Draw(t, "nmulti")
			op.Bad = -1
			for j := 0; j < k; j++ {
				l := cur
				if !c.Fixed {
					l = rapid.SampledFrom(layouts).Draw(t, "anylayout")
				}
				op.Parts = append(op.Parts, genPart(t, pk, l))
			}
			if c.Fixed && k > 0 && rapid.Bool().Draw(t, "withbad") {
				op.Bad = rapid.IntRange(0, k-1).Draw(t, "badpos")
				op.Parts[op.Bad] = genPart(t, pk, otherLayout(t, cur))
				if rapid.IntRange(0, 2).Draw(t, "nestedbadmulti") == 0 {
					op.Parts[op.Bad] = genNested(t, otherLayout(t, cur), true)
				}
			}
		case "swap":
			op.Layout = int(rapid.SampledFrom(layouts).Draw(t, "swaplayout"))
			op.SRID = rapid.SampledFrom([]int{0, 4326, 7}).Draw(t, "swapsrid")
			k := rapid.IntRange(0, 3).Draw(t, "nswap")
			for j := 0; j < k; j++ {
				op.Parts = append(op.Parts, genPart(t, pk, geom.Layout(op.Layout)))
			}
			alive[tgt] = geom.Layout(op.Layout)
			alive = append(alive, cur) // the swap partner stays alive with the old contents
		case "clone":
			op.OnOrig = rapid.Bool().Draw(t, "onorig")
			if c.Kind != model.GeometryCollection {
				alive = append(alive, cur)
			}
		case "touchpart", "repush", "growreturned", "reverseview":
			op.Bad = rapid.IntRange(0, 1000).Draw(t, "which")
		case "pushview":
			op.Bad = rapid.IntRange(0, 1000).Draw(t, "which")
			if rapid.IntRange(0, 2).Draw(t, "lastview") > 0 {
				op.Bad = -1 // the last part
			}
			if c.Kind == model.MultiPolygon && rapid.Bool().Draw(t, "growview") {
				op.Parts = []model.G{genPart(t, model.LinearRing, cur)}
			}
		}
		c.Ops = append(c.Ops, op)
	}
	return c
}

// state is the list model of the receiver.
type state struct {
	layout geom.Layout
	srid   int
	parts  []model.G
}

func newRecv(kind string, l geom.Layout, fixed bool) geom.T {
	switch kind {
	case model.Polygon:
		return geom.NewPolygon(l)
	case model.MultiPoint:
		return geom.NewMultiPoint(l)
	case model.MultiLineString:
		return geom.NewMultiLineString(l)
	case model.MultiPolygon:
		return geom.NewMultiPolygon(l)
	}
	gc := geom.NewGeometryCollection()
	if fixed {
		gc.MustSetLayout(l)
	}
	return gc
}

func push(recv geom.T, parts ...geom.T) error {
	switch r := recv.(type) {
	case *geom.Polygon:
		return r.Push(parts[0].(*geom.LinearRing))
	case *geom.MultiPoint:
		return r.Push(parts[0].(*geom.Point))
	case *geom.MultiLineString:
		return r.Push(parts[0].(*geom.LineString))
	case *geom.MultiPolygon:
		return r.Push(parts[0].(*geom.Polygon))
	case *geom.GeometryCollection:
		// the argument list is the caller's slice (with room to spare): once Push has
		// returned the caller refills it, which must not reach the collection
		args := make([]geom.T, len(parts), len(parts)+3)
		copy(args, parts)
		err := r.Push(args...)
		junk := geom.NewPointFlat(geom.XY, []float64{-999, -999})
		args = args[:cap(args)]
		for i := range args {
			args[i] = junk
		}
		return err
	}
	return fmt.Errorf("bad receiver %T", recv)
}

func numParts(recv geom.T) int {
	switch r := recv.(type) {
	case *geom.Polygon:
		return r.NumLinearRings()
	case *geom.MultiPoint:
		return r.NumPoints()
	case *geom.MultiLineString:
		return r.NumLineStrings()
	case *geom.MultiPolygon:
		return r.NumPolygons()
	case *geom.GeometryCollection:
		return r.NumGeoms()
	}
	return -1
}

func part(recv geom.T, i int) geom.T {
	switch r := recv.(type) {
	case *geom.Polygon:
		return r.LinearRing(i)
	case *geom.MultiPoint:
		return r.Point(i)
	case *geom.MultiLineString:
		return r.LineString(i)
	case *geom.MultiPolygon:
		return r.Polygon(i)
	case *geom.GeometryCollection:
		return r.Geom(i)
	}
	return nil
}

// whole builds the model of the entire receiver from the list of parts.
func whole(kind string, st *state) *model.G {
	g := &model.G{Kind: kind, Layout: int(st.layout), SRID: st.srid}
	switch kind {
	case model.Polygon:
		g.C2 = [][][]model.F{}
		for _, p := range st.parts {
			g.C2 = append(g.C2, p.C1)
		}
	case model.MultiPoint:
		g.C1 = [][]model.F{}
		for _, p := range st.parts {
			g.C1 = append(g.C1, p.C0)
		}
	case model.MultiLineString:
		g.C2 = [][][]model.F{}
		for _, p := range st.parts {
			g.C2 = append(g.C2, p.C1)
		}
	case model.MultiPolygon:
		g.C3 = [][][][]model.F{}
		for _, p := range st.parts {
			g.C3 = append(g.C3, p.C2)
		}
	case model.GeometryCollection:
		g.Members = st.parts
	}
	return g
}

func invariant(step string, kind string, recv geom.T, st *state, fixed bool) error {
	if err := model.WellFormed(recv); err != nil {
		return fmt.Errorf("%s: receiver not well formed: %v", step, err)
	}
	if n := numParts(recv); n != len(st.parts) {
		return fmt.Errorf("%s: reports %d parts, %d were pushed", step, n, len(st.parts))
	}
	for i := range st.parts {
		p := part(recv, i)
		if p == nil {
			return fmt.Errorf("%s: part %d is nil", step, i)
		}
		if kind != model.GeometryCollection && p.Layout() != st.layout {
			return fmt.Errorf("%s: part %d has layout %v, receiver %v", step, i, p.Layout(), st.layout)
		}
		pm, err := model.FromGeom(p)
		if err != nil {
			return fmt.Errorf("%s: part %d not well formed: %v", step, i, err)
		}
		if d := model.Diff(&st.parts[i], pm, false); d != "" {
			return fmt.Errorf("%s: part %d differs from what was pushed: %s", step, i, d)
		}
	}
	want := whole(kind, st)
	if kind == model.GeometryCollection {
		if !fixed {
			want.Layout = 0
		}
		gm, err := model.FromGeom(recv)
		if err != nil {
			return err
		}
		if d := model.Diff(want, gm, true); d != "" {
			return fmt.Errorf("%s: collection differs from the pushed members: %s", step, d)
		}
		if recv.Layout() != want.ReportedLayout() {
			return fmt.Errorf("%s: collection Layout() = %v, want %v", step, recv.Layout(), want.ReportedLayout())
		}
		// the layout check that guards Push (and SetLayout), asked directly: a layout
		// fits iff it is NoLayout or every member has it; a new collection of the same
		// members takes a fixed layout exactly then
		gc := recv.(*geom.GeometryCollection)
		for _, l := range []geom.Layout{geom.NoLayout, geom.XY, geom.XYZ, geom.XYM, geom.XYZM, geom.Layout(5)} {
			fits := true
			for i := range st.parts {
				if l != geom.NoLayout && st.parts[i].ReportedLayout() != l {
					fits = false
				}
			}
			err := gc.CheckLayout(l)
			var lm geom.ErrLayoutMismatch
			if fits != (err == nil) || (err != nil && !errors.As(err, &lm)) {
				return fmt.Errorf("%s: CheckLayout(%v) = %v on members %v", step, l, err, layoutsOf(st.parts))
			}
			g2 := geom.NewGeometryCollection()
			if err := g2.Push(gc.Geoms()...); err != nil {
				return fmt.Errorf("%s: Push of the members into a new collection: %v", step, err)
			}
			if err := g2.SetLayout(l); fits != (err == nil) {
				return fmt.Errorf("%s: SetLayout(%v) = %v on members %v", step, l, err, layoutsOf(st.parts))
			} else if err == nil && l != geom.NoLayout && g2.Layout() != l {
				return fmt.Errorf("%s: after SetLayout(%v) the collection reports %v", step, l, g2.Layout())
			}
		}
		return nil
	}
	if recv.Layout() != st.layout || recv.SRID() != st.srid {
		return fmt.Errorf("%s: receiver layout %v srid %d, model %v %d", step, recv.Layout(), recv.SRID(), st.layout, st.srid)
	}
	cm, err := model.FromCoords(recv)
	if err != nil {
		return err
	}
	if d := model.Diff(want, cm, true); d != "" {
		return fmt.Errorf("%s: Coords() is not the concatenation of the parts: %s", step, d)
	}
	fm, err := model.FromGeom(recv)
	if err != nil {
		return err
	}
	if d := model.Diff(want, fm, true); d != "" {
		return fmt.Errorf("%s: flat representation is not the concatenation of the parts: %s", step, d)
	}
	return nil
}

func layoutsOf(parts []model.G) []geom.Layout {
	out := make([]geom.Layout, len(parts))
	for i := range parts {
		out[i] = parts[i].ReportedLayout()
	}
	return out
}

type snapshot struct {
	flat  []uint64
	ends  []int
	endss [][]int
	n     int
	desc  string
}

func snap(recv geom.T) snapshot {
	s := snapshot{n: numParts(recv)}
	// everything a value reports about itself: layout, stride and SRID too
	s.desc = fmt.Sprintf("%v/%d/srid %d;", recv.Layout(), recv.Stride(), recv.SRID())
	if gc, ok := recv.(*geom.GeometryCollection); ok {
		for i := 0; i < gc.NumGeoms(); i++ {
			s.desc += fmt.Sprintf("%p;", gc.Geom(i))
		}
		return s
	}
	for _, v := range recv.FlatCoords() {
		s.flat = append(s.flat, model.Of(v).V2())
	}
	s.ends = append([]int{}, recv.Ends()...)
	for _, e := range recv.Endss() {
		s.endss = append(s.endss, append([]int{}, e...))
	}
	return s
}

func (a snapshot) equal(b snapshot) bool {
	return fmt.Sprint(a) == fmt.Sprint(b)
}

func reverseParts(kind string, parts []model.G) {
	rev := func(cs [][]model.F) {
		for i, j := 0, len(cs)-1; i < j; i, j = i+1, j-1 {
			cs[i], cs[j] = cs[j], cs[i]
		}
	}
	for i := range parts {
		switch kind {
		case model.Polygon, model.MultiLineString:
			rev(parts[i].C1)
		case model.MultiPolygon:
			for _, r := range parts[i].C2 {
				rev(r)
			}
		}
	}
}

// pushedPart is a part object handed to Push, which stays the caller's: the
// receiver must hold a copy (later changes of either are invisible to the other).
type pushedPart struct {
	t    geom.T
	snap string
}

func snapPart(t geom.T) string {
	if _, ok := t.(*geom.GeometryCollection); ok {
		return "gc"
	}
	var sb strings.Builder
	fmt.Fprintf(&sb, "%T %v %d ", t, t.Layout(), t.SRID())
	for _, v := range t.FlatCoords() {
		fmt.Fprintf(&sb, "%x,", math.Float64bits(v))
	}
	fmt.Fprint(&sb, t.Ends(), t.Endss())
	return sb.String()
}

// buildPart builds a part with spare capacity behind its coordinates (route
// drawn from the step number), as parts that grew by Push or Reserve have.
func buildPart(g *model.G, step int) (geom.T, error) {
	p, err := model.Build(g, model.RouteFlat)
	if err != nil {
		return nil, err
	}
	if r, ok := p.(interface{ Reserve(int) }); ok && step%2 == 0 {
		r.Reserve(g.NumCoords() + 4)
	}
	return p, nil
}

type live struct {
	recv   geom.T
	st     *state
	pushed []pushedPart
}

func cloneState(st *state) *state {
	ns := &state{layout: st.layout, srid: st.srid}
	for i := range st.parts {
		ns.parts = append(ns.parts, *st.parts[i].Clone())
	}
	return ns
}

// buildInit makes the receiver a history starts from: the parts of c.Init put in
// place by the constructor c.InitVia names.
func buildInit(c Case) (geom.T, *state, error) {
	st := &state{layout: geom.Layout(c.Layout)}
	if c.InitVia == "" {
		return newRecv(c.Kind, st.layout, c.Fixed), st, nil
	}
	for i := range c.Init {
		st.parts = append(st.parts, *c.Init[i].Clone())
	}
	w := whole(c.Kind, st)
	route := model.RouteFlat
	switch c.InitVia {
	case "setcoords":
		route = model.RouteSetCoords
	case "push":
		route = model.RoutePush
	case "flat-plain":
		if c.Kind == model.MultiPoint {
			plain := true
			var flat []float64
			for _, p := range st.parts {
				if p.C0 == nil {
					plain = false
				}
				flat = append(flat, model.Floats(p.C0)...)
			}
			if plain {
				return geom.NewMultiPointFlat(st.layout, flat), st, nil
			}
		}
	}
	t, err := model.Build(w, route)
	if err != nil {
		return nil, nil, fmt.Errorf("building the initial receiver via %s: %v", c.InitVia, err)
	}
	switch c.InitVia {
	case "clone":
		switch r := t.(type) {
		case *geom.Polygon:
			t = r.Clone()
		case *geom.MultiPoint:
			t = r.Clone()
		case *geom.MultiLineString:
			t = r.Clone()
		case *geom.MultiPolygon:
			t = r.Clone()
		}
	case "wkb":
		if st.layout.Stride() <= 4 {
			b, err := wkb.Marshal(t, binary.LittleEndian, wkbcommon.WKBOptionEmptyPointHandling(wkbcommon.EmptyPointHandlingNaN))
			if err == nil {
				if d, err := wkb.Unmarshal(b, wkbcommon.WKBOptionEmptyPointHandling(wkbcommon.EmptyPointHandlingNaN)); err == nil {
					// what the decoder reads as EMPTY points are EMPTY in the model too
					if dm, err := model.FromGeom(d); err == nil && dm.Kind == c.Kind && dm.Lay() == st.layout {
						w2 := partsOf(c.Kind, dm)
						if len(w2) == len(st.parts) {
							st.parts = w2
							t = d
						}
					}
				}
			}
		}
	}
	return t, st, nil
}

// partsOf splits the model of a whole receiver back into its parts.
func partsOf(kind string, g *model.G) []model.G {
	var out []model.G
	switch kind {
	case model.Polygon:
		for _, r := range g.C2 {
			out = append(out, model.G{Kind: model.LinearRing, Layout: g.Layout, C1: r})
		}
	case model.MultiPoint:
		for _, c := range g.C1 {
			out = append(out, model.G{Kind: model.Point, Layout: g.Layout, C0: c})
		}
	case model.MultiLineString:
		for _, r := range g.C2 {
			out = append(out, model.G{Kind: model.LineString, Layout: g.Layout, C1: r})
		}
	case model.MultiPolygon:
		for _, r := range g.C3 {
			out = append(out, model.G{Kind: model.Polygon, Layout: g.Layout, C2: r})
		}
	}
	return out
}

// witness builds new values while the history is under way: what the constructors
// return must not depend on what was pushed onto other values before.
func witness(step string, kind string, st *state) error {
	if kind == model.GeometryCollection {
		return nil
	}
	w := whole(kind, st)
	w.SRID = 0
	for _, route := range []model.Route{model.RouteFlat, model.RouteSetCoords} {
		t, err := model.Build(w, route)
		if err != nil {
			return fmt.Errorf("%s: a new value of the same parts (route %d): %v", step, route, err)
		}
		m, err := model.FromGeom(t)
		if err != nil {
			return fmt.Errorf("%s: a new value of the same parts (route %d) is not well formed: %v", step, route, err)
		}
		if d := model.Diff(w, m, true); d != "" {
			return fmt.Errorf("%s: a new value built from the same parts (route %d) differs from them: %s", step, route, d)
		}
	}
	if kind == model.MultiPoint {
		// a MultiPoint from coordinates alone, one and two points longer than the receiver
		for extra := 1; extra <= 2; extra++ {
			n := len(st.parts) + extra
			s := st.layout.Stride()
			flat := make([]float64, n*s)
			for i := range flat {
				flat[i] = float64(i) + 0.5
			}
			mp := geom.NewMultiPointFlat(st.layout, flat)
			if err := model.WellFormed(mp); err != nil {
				return fmt.Errorf("%s: a new MultiPoint of %d points built from its coordinates alone: %v", step, n, err)
			}
			if mp.NumPoints() != n {
				return fmt.Errorf("%s: a new MultiPoint built from %d coordinates reports %d points", step, n, mp.NumPoints())
			}
			for i := 0; i < n; i++ {
				f := mp.Point(i).FlatCoords()
				if len(f) != s || f[0] != flat[i*s] {
					return fmt.Errorf("%s: point %d of a new MultiPoint of %d points built from its coordinates alone reads %v, want %v", step, i, n, f, flat[i*s:(i+1)*s])
				}
			}
		}
	}
	return nil
}

func prop(c Case) error {
	recv0, st0, err := buildInit(c)
	if err != nil {
		return err
	}
	first := &live{recv: recv0, st: st0}
	objs := []*live{first}
	checkAll := func(step string) error {
		for k, o := range objs {
			name := step
			if len(objs) > 1 {
				name = fmt.Sprintf("%s [live value %d of %d]", step, k, len(objs))
			}
			if err := invariant(name, c.Kind, o.recv, o.st, c.Fixed); err != nil {
				return err
			}
			for i, pp := range o.pushed {
				if now := snapPart(pp.t); now != pp.snap {
					return fmt.Errorf("%s: the part object pushed earlier (#%d) was modified through the receiver:\n before %s\n after  %s", name, i, pp.snap, now)
				}
			}
		}
		return witness(step, c.Kind, objs[0].st)
	}
	if err := checkAll("new"); err != nil {
		return err
	}
	// a receiver without a layout: every part of the case's (real) layout is a mismatch
	if c.Kind != model.GeometryCollection {
		for i, op := range c.Ops {
			if op.Name != "push" || len(op.Parts) == 0 {
				continue
			}
			p, err := buildPart(&op.Parts[0], i)
			if err != nil {
				return err
			}
			none := newRecv(c.Kind, geom.NoLayout, false)
			perr := push(none, p)
			var lm geom.ErrLayoutMismatch
			if !errors.As(perr, &lm) || lm.Got != p.Layout() || lm.Want != geom.NoLayout {
				return fmt.Errorf("Push of a %v part into a receiver without a layout returned %v, want ErrLayoutMismatch{Got: %v, Want: NoLayout}", p.Layout(), perr, p.Layout())
			}
			if err := model.WellFormed(none); err != nil {
				return fmt.Errorf("receiver without a layout after the refused Push: %v", err)
			}
			if numParts(none) != 0 || none.Layout() != geom.NoLayout || none.Stride() != 0 {
				return fmt.Errorf("receiver without a layout after the refused Push: %d parts, layout %v, stride %d", numParts(none), none.Layout(), none.Stride())
			}
			break
		}
	}
	for i, op := range c.Ops {
		step := fmt.Sprintf("step %d (%s)", i, op.Name)
		o := objs[op.Target%len(objs)]
		recv, st := o.recv, o.st
		switch op.Name {
		case "push":
			p, err := buildPart(&op.Parts[0], i)
			if err != nil {
				return err
			}
			if err := push(recv, p); err != nil {
				return fmt.Errorf("%s: Push of a matching part failed: %v", step, err)
			}
			st.parts = append(st.parts, *op.Parts[0].Clone())
			if c.Kind != model.GeometryCollection {
				o.pushed = append(o.pushed, pushedPart{p, snapPart(p)})
			}
		case "repush":
			// the same part object pushed again (a part may be shared by several pushes)
			if len(o.pushed) == 0 || c.Kind == model.GeometryCollection {
				break
			}
			pp := o.pushed[op.Bad%len(o.pushed)]
			if pp.t.Layout() != st.layout {
				break
			}
			pm, err := model.FromGeom(pp.t)
			if err != nil {
				return err
			}
			if err := push(recv, pp.t); err != nil {
				return fmt.Errorf("%s: Push of an earlier part failed: %v", step, err)
			}
			st.parts = append(st.parts, *pm)
		case "pushview":
			// a part accessor's result (a view into the receiver's own array), pushed back
			// onto the receiver it came from; the view of the last polygon of a MultiPolygon
			// may first be given another ring, which lands in the receiver's spare room
			if len(st.parts) == 0 || c.Kind == model.GeometryCollection {
				break
			}
			k := len(st.parts) - 1
			if op.Bad >= 0 {
				k = op.Bad % len(st.parts)
			}
			if len(op.Parts) == 1 && c.Kind == model.MultiPolygon {
				// a view that is to grow: the last polygon that has coordinates (whatever
				// follows it has none, so its growth has room) rather than the drawn one
				for j := len(st.parts) - 1; j >= 0; j-- {
					if !st.parts[j].Empty() {
						k = j
						break
					}
				}
			}
			v := part(recv, k)
			np := *st.parts[k].Clone()
			// (also the view of an earlier polygon when no coordinate follows it in the
			// receiver: every later polygon is without rings or has rings without points)
			tailEmpty := true
			for j := k + 1; j < len(st.parts); j++ {
				tailEmpty = tailEmpty && st.parts[j].Empty()
			}
			if len(op.Parts) == 1 && tailEmpty && op.Parts[0].Lay() == st.layout {
				if pg, ok := v.(*geom.Polygon); ok {
					ring, err := model.Build(&op.Parts[0], model.RouteFlat)
					if err != nil {
						return err
					}
					if err := pg.Push(ring.(*geom.LinearRing)); err != nil {
						return fmt.Errorf("%s: Push onto the polygon returned by Polygon(%d): %v", step, k, err)
					}
					np.C2 = append(np.C2, op.Parts[0].Clone().C1)
					if k != len(st.parts)-1 {
						ev.Default.Count("pushview_grown_before_coordinate_less_tail", 1)
					}
				}
			}
			if err := push(recv, v); err != nil {
				return fmt.Errorf("%s: Push of the receiver's own part %d failed: %v", step, k, err)
			}
			st.parts = append(st.parts, np)
		case "reverseview":
			// a part accessor's result is a view of that part in the receiver's own array:
			// reversed, it reverses that part there - and nothing else, neither the parts
			// before it nor the ones after it
			if len(st.parts) == 0 || c.Kind == model.GeometryCollection || c.Kind == model.MultiPoint {
				break
			}
			k := op.Bad % len(st.parts)
			if st.parts[k].Empty() {
				break // (the accessor of a part without coordinates returns a value of its own)
			}
			if r, ok := part(recv, k).(interface{ Reverse() }); ok {
				r.Reverse()
				reverseParts(c.Kind, st.parts[k:k+1])
			}
		case "growreturned":
			// what a part accessor returned for an EMPTY part belongs to the caller (it has no
			// storage in common with the receiver): growing it changes no later answer
			var empties []int
			for i := range st.parts {
				// a Polygon with rings that hold no coordinates is not in this class: its
				// accessor result is (by design, like every non-empty part) a view into the
				// receiver's array
				if st.parts[i].Empty() && !(st.parts[i].Kind == model.Polygon && len(st.parts[i].C2) > 0) {
					empties = append(empties, i)
				}
			}
			if len(empties) == 0 || c.Kind == model.GeometryCollection {
				break
			}
			got := part(recv, empties[op.Bad%len(empties)])
			stride := st.layout.Stride()
			some := make([]float64, 4*stride)
			for j := range some {
				some[j] = float64(700 + j%stride)
			}
			switch v := got.(type) {
			case *geom.Polygon:
				_ = v.Push(geom.NewLinearRingFlat(st.layout, some))
			case *geom.LinearRing:
				*v = *geom.NewLinearRingFlat(st.layout, some)
			case *geom.LineString:
				*v = *geom.NewLineStringFlat(st.layout, some)
			case *geom.Point:
				_, _ = v.SetCoords(geom.Coord(some[:stride]))
			}
		case "touchpart":
			// the caller changes a part object after it was pushed: the receiver holds a copy
			if len(o.pushed) == 0 {
				break
			}
			k := op.Bad % len(o.pushed)
			pt := o.pushed[k].t
			switch op.Bad % 3 {
			case 0:
				if f := pt.FlatCoords(); len(f) > 0 {
					f[op.Bad%len(f)] = float64(op.Bad) + 0.125
				}
			case 1:
				if r, ok := pt.(interface{ Reverse() }); ok {
					r.Reverse()
				}
			default:
				if pg, ok := pt.(*geom.Polygon); ok {
					one := make([]float64, 2*pg.Stride())
					for j := range one {
						one[j] = float64(900 + j)
					}
					_ = pg.Push(geom.NewLinearRingFlat(pg.Layout(), one))
				} else if f := pt.FlatCoords(); len(f) > 0 {
					f[0] = -float64(op.Bad)
				}
			}
			o.pushed[k].snap = snapPart(pt)
		case "pushbad":
			p, err := model.Build(&op.Parts[0], model.RouteFlat)
			if err != nil {
				return err
			}
			_, _ = geom.SetSRID(p, 4326+i) // a refused part leaves nothing of itself behind, not its SRID either
			before := snap(recv)
			err = push(recv, p)
			var lm geom.ErrLayoutMismatch
			if err == nil {
				return fmt.Errorf("%s: Push of a %v part into a %v receiver succeeded", step, p.Layout(), st.layout)
			}
			if !errors.As(err, &lm) {
				return fmt.Errorf("%s: Push returned %T %v, want ErrLayoutMismatch", step, err, err)
			}
			if lm.Got != p.Layout() || lm.Want != st.layout {
				return fmt.Errorf("%s: ErrLayoutMismatch{Got:%v Want:%v}, want {Got:%v Want:%v}", step, lm.Got, lm.Want, p.Layout(), st.layout)
			}
			if !before.equal(snap(recv)) {
				return fmt.Errorf("%s: failed Push changed the receiver", step)
			}
		case "pushmulti":
			var ps []geom.T
			for j := range op.Parts {
				p, err := model.Build(&op.Parts[j], model.RouteFlat)
				if err != nil {
					return err
				}
				if op.Bad >= 0 { // (the whole call is refused: nothing of its arguments is left behind)
					_, _ = geom.SetSRID(p, 3000+10*i+j)
				}
				ps = append(ps, p)
			}
			before := snap(recv)
			err := push(recv, ps...)
			if op.Bad >= 0 {
				var lm geom.ErrLayoutMismatch
				if !errors.As(err, &lm) {
					return fmt.Errorf("%s: Push with a wrong-layout member at %d returned %v", step, op.Bad, err)
				}
				if lm.Got != ps[op.Bad].Layout() || lm.Want != st.layout {
					return fmt.Errorf("%s: ErrLayoutMismatch{Got:%v Want:%v}, want {Got:%v Want:%v}", step, lm.Got, lm.Want, ps[op.Bad].Layout(), st.layout)
				}
				if !before.equal(snap(recv)) {
					return fmt.Errorf("%s: failed Push changed the receiver", step)
				}
			} else {
				if err != nil {
					return fmt.Errorf("%s: Push failed: %v", step, err)
				}
				for j := range op.Parts {
					st.parts = append(st.parts, *op.Parts[j].Clone())
				}
			}
		case "reverse":
			type reverser interface{ Reverse() }
			recv.(reverser).Reverse()
			reverseParts(c.Kind, st.parts)
		case "swap":
			other := newRecv(c.Kind, geom.Layout(op.Layout), false)
			ost := &state{layout: geom.Layout(op.Layout), srid: op.SRID}
			for j := range op.Parts {
				p, err := model.Build(&op.Parts[j], model.RouteFlat)
				if err != nil {
					return err
				}
				if err := push(other, p); err != nil {
					return fmt.Errorf("%s: building the other value: %v", step, err)
				}
				ost.parts = append(ost.parts, *op.Parts[j].Clone())
			}
			geom.SetSRID(other, op.SRID)
			switch r := recv.(type) {
			case *geom.Polygon:
				r.Swap(other.(*geom.Polygon))
			case *geom.MultiPoint:
				r.Swap(other.(*geom.MultiPoint))
			case *geom.MultiLineString:
				r.Swap(other.(*geom.MultiLineString))
			case *geom.MultiPolygon:
				r.Swap(other.(*geom.MultiPolygon))
			}
			// the two values exchanged everything: the partner (with the old contents,
			// and the part objects that were pushed into that storage) stays alive
			objs = append(objs, &live{recv: other, st: st, pushed: o.pushed})
			o.st, o.pushed = ost, nil
		case "clone":
			var cl geom.T
			switch r := recv.(type) {
			case *geom.Polygon:
				cl = r.Clone()
			case *geom.MultiPoint:
				cl = r.Clone()
			case *geom.MultiLineString:
				cl = r.Clone()
			case *geom.MultiPolygon:
				cl = r.Clone()
			}
			if cl != nil {
				// both the original and the clone stay alive and are operated on
				objs = append(objs, &live{recv: cl, st: cloneState(st)})
			}
		}
		if err := checkAll(step); err != nil {
			return err
		}
	}
	return nil
}

func classify(c Case) ([]string, bool) {
	cl := []string{"kind:" + c.Kind}
	pushes, other := 0, 0
	emptyThenNon := false
	sawEmpty := false
	for _, op := range c.Ops {
		switch op.Name {
		case "push":
			pushes++
			if op.Parts[0].Empty() {
				sawEmpty = true
			} else if sawEmpty {
				emptyThenNon = true
			}
		case "pushmulti":
			if op.Bad < 0 {
				pushes += len(op.Parts)
			} else {
				other++
			}
		case "swap":
			sawEmpty = false
			other++
		default:
			other++
		}
	}
	if emptyThenNon {
		cl = append(cl, "empty-then-nonempty")
	}
	if c.InitVia != "" {
		cl = append(cl, "init:"+c.InitVia)
	}
	for _, op := range c.Ops {
		if op.Name == "pushview" {
			cl = append(cl, "pushview")
			if len(op.Parts) == 1 {
				cl = append(cl, "pushview-grown")
			}
			break
		}
	}
	return cl, pushes >= 3 && emptyThenNon && other >= 1
}

var spec = run.Spec[Case]{ID: "C02", Name: "history", Gen: genCase, Prop: prop, Classify: classify}

func TestPropHistory(t *testing.T) { run.Generated(t, spec) }
func TestRegress(t *testing.T)     { run.Regress(t, spec) }
func TestReplay(t *testing.T) {
	run.ReplayOne(t, spec)
	run.ReplayOne(t, bigSpec)
	run.ReplayOne(t, concSpec)
}
