package c02

import (
	"fmt"
	"testing"

	geom "github.com/twpayne/go-geom"

	"verifharness/internal/ev"
	"verifharness/internal/model"
	"verifharness/internal/run"
)

// BigPush is a Push history longer than a case file should carry: N parts pushed onto
// a new receiver, part i EMPTY when i+Shift is one of the indexes around the powers of
// two from 256 to 4096 (k-2 .. k+1) and Variant selects it, every other part a small
// one with coordinates that are a function of i. The list invariant is checked at the end.
type BigPush struct {
	Kind    string `json:"kind"`
	Layout  int    `json:"layout"`
	N       int    `json:"n"`
	Variant int    `json:"variant"`
}

func bigPart(kind string, l geom.Layout, i int, empty bool) model.G {
	s := l.Stride()
	pt := func(x, y int) []model.F {
		c := []float64{float64(x), float64(y), float64(x + y), float64(i)}
		for len(c) < s {
			c = append(c, 0.5)
		}
		return model.Bits(c[:s])
	}
	ring := [][]model.F{pt(i, 0), pt(i+1, 0), pt(i, 1), pt(i, 0)}
	g := model.G{Kind: partKind[kind], Layout: int(l)}
	switch g.Kind {
	case model.Point:
		if !empty {
			g.C0 = pt(i, -i)
		}
	case model.LineString, model.LinearRing:
		g.C1 = [][]model.F{}
		if !empty {
			g.C1 = ring
		}
	case model.Polygon:
		g.C2 = [][][]model.F{}
		if !empty {
			g.C2 = [][][]model.F{ring}
			if i%5 == 2 {
				g.C2 = append(g.C2, [][]model.F{}) // a ring without coordinates
			}
		}
	}
	return g
}

func propBigPush(b BigPush) error {
	l := geom.Layout(b.Layout)
	recv := newRecv(b.Kind, l, false)
	st := &state{layout: l}
	emptyAt := map[int]bool{}
	bit := 0
	for _, k := range []int{256, 512, 1024, 2048, 4096} {
		for d := -2; d <= 1; d++ {
			if b.Variant>>(uint(bit)%12)&1 == 1 {
				emptyAt[k+d] = true
			}
			bit++
		}
	}
	for i := 0; i < b.N; i++ {
		g := bigPart(b.Kind, l, i, emptyAt[i])
		p, err := model.Build(&g, model.RouteFlat)
		if err != nil {
			return err
		}
		if err := push(recv, p); err != nil {
			return fmt.Errorf("push %d of %d: %v", i, b.N, err)
		}
		st.parts = append(st.parts, g)
	}
	what := fmt.Sprintf("after %d pushes onto a %s (EMPTY parts at %d places)", b.N, b.Kind, len(emptyAt))
	if err := invariant(what, b.Kind, recv, st, false); err != nil {
		return err
	}
	return witness(what, b.Kind, &state{layout: l, parts: st.parts[:min(len(st.parts), 300)]})
}

var bigSpec = run.Spec[BigPush]{ID: "C02", Name: "bigpush", Prop: propBigPush, Classify: func(b BigPush) ([]string, bool) {
	return []string{"big-push"}, true
}}

func TestExhaustiveBigPush(t *testing.T) {
	shard, shards := run.Shard()
	sizes := []int{1023, 1024, 1025, 1027, 2050}
	if run.Thorough() {
		sizes = append(sizes, 257, 513, 3000, 4097, 4100, 8200)
	}
	variants := []int{0, 0xFFF, 0x111, 0x222, 0x444, 0x888, 0x0F0, 0xA5A}
	k := 0
	for _, kind := range []string{model.MultiPolygon, model.MultiLineString, model.MultiPoint, model.Polygon} {
		for si, n := range sizes {
			for vi, v := range variants {
				k++
				if k%shards != shard {
					continue
				}
				if !run.Thorough() && (si+vi)%3 != 0 && kind != model.MultiPolygon {
					continue // quick: every variant for MultiPolygon, a third of them for the others
				}
				b := BigPush{Kind: kind, Layout: int(layouts[(si+vi)%len(layouts)]), N: n, Variant: v}
				ev.Default.CaseHash(uint64(n)<<16|uint64(v)<<4|uint64(len(kind)), "big-push", true, func() any { return b })
				if !run.One(t, bigSpec, b) {
					return
				}
			}
		}
	}
}

func TestRegressBigPush(t *testing.T) { run.Regress(t, bigSpec) }
