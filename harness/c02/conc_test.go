package c02

import (
	"fmt"
	geom "github.com/twpayne/go-geom"
	"sync"
	"testing"

	"pgregory.net/rapid"

	"verifharness/internal/ev"
	"verifharness/internal/run"
)

// ConcCase: G goroutines evaluate K generated histories (the generator's examples
// number Round*K ... Round*K+K-1) at the same time, each on geometries of its own and
// each starting at another history. No value is shared between goroutines, so every
// history must go exactly as it goes alone: Push, Reverse, Swap, Clone and the
// accessors keep nothing outside the values they are given.
type ConcCase struct {
	Round int `json:"round"`
	K     int `json:"k"`
	G     int `json:"g"`
	// Heavy > 0: instead of generated histories every goroutine pushes three parts of
	// Heavy vertices onto a multi-line string, a polygon and a multi-polygon of its own
	// and reverses them 2*K+1 times, looking at every part after each reversal: calls
	// long enough to overlap all the time.
	Heavy int `json:"heavy,omitempty"`
}

func propHeavy(cc ConcCase) error {
	l := layouts[cc.Round%len(layouts)]
	s := l.Stride()
	partFlat := func(w, k int) []float64 {
		flat := make([]float64, 0, cc.Heavy*s)
		for v := 0; v < cc.Heavy; v++ {
			for o := 0; o < s; o++ {
				flat = append(flat, float64(((w*3+k)*cc.Heavy+v)*s+o))
			}
		}
		return flat
	}
	check := func(what string, got []float64, w, k int, reversed bool) error {
		want := partFlat(w, k)
		if len(got) != len(want) {
			return fmt.Errorf("%s: part %d has %d ordinates, want %d", what, k, len(got), len(want))
		}
		n := cc.Heavy
		for v := 0; v < n; v++ {
			src := v
			if reversed {
				src = n - 1 - v
			}
			for o := 0; o < s; o++ {
				if got[v*s+o] != want[src*s+o] {
					return fmt.Errorf("%s: part %d, vertex %d, ordinate %d is %v, want %v (the value is this goroutine's own; %d goroutines run the same on values of their own)", what, k, v, o, got[v*s+o], want[src*s+o], cc.G)
				}
			}
		}
		return nil
	}
	one := func(w int) error {
		mls := geom.NewMultiLineString(l)
		poly := geom.NewPolygon(l)
		mp := geom.NewMultiPolygon(l)
		for k := 0; k < 3; k++ {
			if err := mls.Push(geom.NewLineStringFlat(l, partFlat(w, k))); err != nil {
				return err
			}
			if err := poly.Push(geom.NewLinearRingFlat(l, partFlat(w, k))); err != nil {
				return err
			}
			p := geom.NewPolygon(l)
			if err := p.Push(geom.NewLinearRingFlat(l, partFlat(w, k))); err != nil {
				return err
			}
			if err := mp.Push(p); err != nil {
				return err
			}
		}
		ls := geom.NewLineStringFlat(l, partFlat(w, 0))
		for r := 1; r <= 2*cc.K+1; r++ {
			mls.Reverse()
			poly.Reverse()
			mp.Reverse()
			ls.Reverse()
			rev := r%2 == 1
			if r%16 != 1 && r != 2*cc.K+1 {
				continue // looked at every sixteenth time and at the end
			}
			if err := check(fmt.Sprintf("LineString after %d reversals", r), ls.FlatCoords(), w, 0, rev); err != nil {
				return err
			}
			for k := 0; k < 3; k++ {
				if err := check(fmt.Sprintf("MultiLineString after %d reversals", r), mls.LineString(k).FlatCoords(), w, k, rev); err != nil {
					return err
				}
				if err := check(fmt.Sprintf("Polygon after %d reversals", r), poly.LinearRing(k).FlatCoords(), w, k, rev); err != nil {
					return err
				}
				if err := check(fmt.Sprintf("MultiPolygon after %d reversals", r), mp.Polygon(k).LinearRing(0).FlatCoords(), w, k, rev); err != nil {
					return err
				}
			}
		}
		return nil
	}
	if err := run.Safe(func() error { return one(0) }); err != nil {
		return fmt.Errorf("alone: %v", err)
	}
	errs := make([]error, cc.G)
	var wg sync.WaitGroup
	start := make(chan struct{})
	for w := 0; w < cc.G; w++ {
		wg.Add(1)
		go func(w int) {
			defer wg.Done()
			<-start
			errs[w] = run.Safe(func() error { return one(w) })
		}(w)
	}
	close(start)
	wg.Wait()
	for _, e := range errs {
		if e != nil {
			return e
		}
	}
	return nil
}

var caseGen = rapid.Custom(genCase)

func propConc(cc ConcCase) error {
	if cc.Heavy > 0 {
		return propHeavy(cc)
	}
	cases := make([]Case, cc.K)
	for i := range cases {
		cases[i] = caseGen.Example(cc.Round*cc.K + i + 1)
	}
	// alone first: a history that fails alone is reported as what it is
	for i, c := range cases {
		if err := run.Safe(func() error { return prop(c) }); err != nil {
			return fmt.Errorf("history %d of round %d, alone: %v", i, cc.Round, err)
		}
	}
	for rep := 0; rep < 3; rep++ {
		errs := make([]error, cc.G)
		var wg sync.WaitGroup
		start := make(chan struct{})
		for w := 0; w < cc.G; w++ {
			wg.Add(1)
			go func(w int) {
				defer wg.Done()
				<-start
				for j := 0; j < cc.K && errs[w] == nil; j++ {
					i := (j + w*(rep+1)) % cc.K
					if err := run.Safe(func() error { return prop(cases[i]) }); err != nil {
						errs[w] = fmt.Errorf("history %d of round %d, which goes through alone, fails while %d other goroutines run histories on values of their own: %v", i, cc.Round, cc.G-1, err)
					}
				}
			}(w)
		}
		close(start)
		wg.Wait()
		for _, e := range errs {
			if e != nil {
				return e
			}
		}
	}
	return nil
}

var concSpec = run.Spec[ConcCase]{ID: "C02", Name: "concurrent", Prop: propConc, Classify: func(c ConcCase) ([]string, bool) {
	return []string{"concurrent-histories", fmt.Sprintf("goroutines:%d", c.G)}, true
}}

// TestExhaustiveConcurrent runs rounds of 24 histories in 8 (and 16) goroutines.
func TestExhaustiveConcurrent(t *testing.T) {
	shard, shards := run.Shard()
	rounds := 24
	if run.Thorough() {
		rounds = 600
	}
	for r := 0; r < rounds; r++ {
		if r%shards != shard {
			continue
		}
		c := ConcCase{Round: r, K: 24, G: 8 + 8*(r%2)}
		ev.Default.CaseHash(uint64(r)|1<<50, "concurrent", true, func() any { return c })
		if !run.One(t, concSpec, c) {
			return
		}
		h := ConcCase{Round: r, K: 40 + 10*(r%5), G: 4 + 4*(r%3), Heavy: []int{2, 64, 500, 2000}[r%4]}
		ev.Default.CaseHash(uint64(r)|1<<51, "concurrent-heavy", true, func() any { return h })
		if !run.One(t, concSpec, h) {
			return
		}
	}
}

func TestRegressConc(t *testing.T) { run.Regress(t, concSpec) }
