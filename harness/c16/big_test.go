package c16

import (
	"fmt"
	"math"
	"testing"

	geom "github.com/twpayne/go-geom"

	"verifharness/internal/ev"
	"verifharness/internal/run"
)

// BigCase is a geometry too large to carry its coordinates in a case file: they
// are a fixed function of the index. N is the number of coordinates.
type BigCase struct {
	Kind   string `json:"kind"` // LineString | LinearRing | Polygon | MultiPoint | MultiLineString | MultiPolygon
	Layout int    `json:"layout"`
	N      int    `json:"n"`
	// Parts > 0: a geometry of that many parts (rings in all, for the polygon kinds) of
	// zero or one coordinate each instead of N coordinates; Pattern picks how many rings
	// the polygons of a MultiPolygon have in turn.
	Parts   int `json:"parts,omitempty"`
	Pattern int `json:"pattern,omitempty"`
}

var ringPatterns = [][]int{{1, 2, 3}, {2}, {1, 1, 4}, {3, 0, 1}}

// buildParts builds a geometry of c.Parts parts: part i has one coordinate, or none
// when i%5 == 2.
func buildParts(c BigCase) (geom.T, []float64, error) {
	l := geom.Layout(c.Layout)
	s := l.Stride()
	var flat []float64
	var ends []int
	for i := 0; i < c.Parts; i++ {
		if i%5 != 2 {
			for d := 0; d < s; d++ {
				flat = append(flat, bigOrdinate(len(flat)))
			}
		}
		ends = append(ends, len(flat))
	}
	keep := append([]float64(nil), flat...)
	switch c.Kind {
	case "Polygon":
		return geom.NewPolygonFlat(l, flat, ends), keep, nil
	case "MultiPoint":
		return geom.NewMultiPointFlat(l, flat, geom.NewMultiPointFlatOptionWithEnds(ends)), keep, nil
	case "MultiLineString":
		return geom.NewMultiLineStringFlat(l, flat, ends), keep, nil
	case "MultiPolygon":
		pat := ringPatterns[c.Pattern%len(ringPatterns)]
		var endss [][]int
		for i, k := 0, 0; i < len(ends); k++ {
			n := min(pat[k%len(pat)], len(ends)-i)
			endss = append(endss, append([]int{}, ends[i:i+n]...))
			i += n
		}
		return geom.NewMultiPolygonFlat(l, flat, endss), keep, nil
	}
	return nil, nil, fmt.Errorf("bad kind %q for parts", c.Kind)
}

func bigOrdinate(i int) float64 { return float64(i%99991) + 0.25*float64(i%4) }

func buildBig(c BigCase) (geom.T, []float64, error) {
	if c.Parts > 0 {
		return buildParts(c)
	}
	l := geom.Layout(c.Layout)
	s := l.Stride()
	flat := make([]float64, c.N*s)
	for i := range flat {
		flat[i] = bigOrdinate(i)
	}
	keep := append([]float64(nil), flat...)
	switch c.Kind {
	case "LineString":
		return geom.NewLineStringFlat(l, flat), keep, nil
	case "LinearRing":
		return geom.NewLinearRingFlat(l, flat), keep, nil
	case "Polygon":
		// one long ring, an empty ring, a short ring
		k := (c.N - 4) * s
		return geom.NewPolygonFlat(l, flat, []int{k, k, c.N * s}), keep, nil
	case "MultiPoint":
		return geom.NewMultiPointFlat(l, flat), keep, nil
	case "MultiLineString":
		k := (c.N / 2) * s
		return geom.NewMultiLineStringFlat(l, flat, []int{k, k, c.N * s}), keep, nil
	case "MultiPolygon":
		k := (c.N - 4) * s
		return geom.NewMultiPolygonFlat(l, flat, [][]int{{k}, {}, {c.N * s}}), keep, nil
	}
	return nil, nil, fmt.Errorf("bad kind %q", c.Kind)
}

type cloner interface {
	FlatCoords() []float64
	Ends() []int
	Endss() [][]int
}

func propBig(c BigCase) error {
	t, keep, err := buildBig(c)
	if err != nil {
		return err
	}
	var cl geom.T
	switch v := t.(type) {
	case *geom.LineString:
		cl = v.Clone()
	case *geom.LinearRing:
		cl = v.Clone()
	case *geom.Polygon:
		cl = v.Clone()
	case *geom.MultiPoint:
		cl = v.Clone()
	case *geom.MultiLineString:
		cl = v.Clone()
	case *geom.MultiPolygon:
		cl = v.Clone()
	}
	if cl.Layout() != t.Layout() || cl.Stride() != t.Stride() {
		return fmt.Errorf("clone layout %v stride %d, original %v %d", cl.Layout(), cl.Stride(), t.Layout(), t.Stride())
	}
	a, b := t.FlatCoords(), cl.FlatCoords()
	if len(a) != len(b) {
		return fmt.Errorf("clone has %d ordinates, original %d", len(b), len(a))
	}
	for i := range a {
		if math.Float64bits(a[i]) != math.Float64bits(b[i]) {
			return fmt.Errorf("clone differs at ordinate %d of %d (coordinate %d): %v, original %v", i, len(a), i/t.Stride(), b[i], a[i])
		}
	}
	if fmt.Sprint(t.Ends()) != fmt.Sprint(cl.Ends()) || fmt.Sprint(t.Endss()) != fmt.Sprint(cl.Endss()) {
		return fmt.Errorf("clone offsets %v %v, original %v %v", cl.Ends(), cl.Endss(), t.Ends(), t.Endss())
	}
	// storage is disjoint: every ordinate of the clone rewritten, the original intact
	for i := range b {
		b[i] = -1
	}
	for i := range a {
		if math.Float64bits(a[i]) != math.Float64bits(keep[i]) {
			return fmt.Errorf("writing the clone changed ordinate %d of the original", i)
		}
	}
	return nil
}

var bigSpec = run.Spec[BigCase]{ID: "C16", Name: "bigclone", Prop: propBig, Classify: func(c BigCase) ([]string, bool) {
	if c.Parts > 0 {
		return []string{"parts:" + c.Kind, fmt.Sprintf("parts>=2^%d", int(math.Log2(float64(c.Parts))))}, true
	}
	return []string{"big:" + c.Kind, fmt.Sprintf("big-ordinates>2^%d", int(math.Log2(float64(c.N*geom.Layout(c.Layout).Stride()))))}, true
}}

// TestExhaustiveBig clones geometries whose ordinate count lies just above 2^20
// (and, thorough, 2^22) for every layout: block-wise copies, if any, have their
// seams far beyond what a generated case can carry.
func TestExhaustiveBig(t *testing.T) {
	shard, shards := run.Shard()
	kinds := []string{"LineString", "Polygon", "MultiPoint", "MultiLineString", "MultiPolygon", "LinearRing"}
	layouts := []geom.Layout{geom.XY, geom.XYZ, geom.XYM, geom.XYZM, geom.Layout(5), geom.Layout(7)}
	powers := []int{20}
	if run.Thorough() {
		powers = []int{20, 21, 22}
	}
	n := 0
	for _, p := range powers {
		for li, l := range layouts {
			for ki, kind := range kinds {
				n++
				if n%shards != shard {
					continue
				}
				// quick: one kind per layout (rotating), thorough: all
				if !run.Thorough() && ki != li%len(kinds) {
					continue
				}
				for _, extra := range []int{3, 1<<p/7 + 5} {
					c := BigCase{Kind: kind, Layout: int(l), N: (1<<p)/l.Stride() + extra}
					ev.Default.CaseHash(uint64(p)<<40|uint64(li)<<32|uint64(ki)<<24|uint64(extra&0xffffff), "bigclone", true, func() any { return c })
					if !run.One(t, bigSpec, c) {
						return
					}
				}
			}
		}
	}
}

func TestRegressBig(t *testing.T) { run.Regress(t, bigSpec) }

// TestExhaustiveSizes clones geometries of every number of coordinates from 8 to 2 500
// (thorough: 10 000), the kinds and layouts taking turns.
func TestExhaustiveSizes(t *testing.T) {
	shard, shards := run.Shard()
	hi := 2500
	if run.Thorough() {
		hi = 10000
	}
	kinds := []string{"LineString", "LinearRing", "Polygon", "MultiPoint", "MultiLineString", "MultiPolygon"}
	layouts := []geom.Layout{geom.XY, geom.XYZ, geom.XYM, geom.XYZM, geom.Layout(5)}
	for n := 8; n <= hi; n++ {
		if n%shards != shard {
			continue
		}
		c := BigCase{Kind: kinds[n%len(kinds)], Layout: int(layouts[(n/len(kinds))%len(layouts)]), N: n}
		ev.Default.CaseHash(uint64(n)|1<<40, "size-sweep", true, func() any { return c })
		if !run.One(t, bigSpec, c) {
			return
		}
	}
}

// TestExhaustiveParts clones geometries of many parts: every number of parts (rings in
// all) within three of each power of two from 256 to 16 384 (thorough: 131 072), and
// every number from 1 to 300 - polygons of that many rings, multi-points and multi-line
// strings of that many members, multi-polygons whose polygons have 1,2,3 / 2 / 1,1,4 /
// 3,0,1 rings in turn, so that a polygon's rings lie across the count in question.
func TestExhaustiveParts(t *testing.T) {
	shard, shards := run.Shard()
	top := 14
	if run.Thorough() {
		top = 17
	}
	var counts []int
	for n := 1; n <= 300; n++ {
		counts = append(counts, n)
	}
	for p := 9; p <= top; p++ {
		for d := -3; d <= 3; d++ {
			counts = append(counts, 1<<p+d)
		}
	}
	kinds := []string{"Polygon", "MultiPoint", "MultiLineString", "MultiPolygon", "MultiPolygon", "MultiPolygon", "MultiPolygon"}
	layouts := []geom.Layout{geom.XY, geom.XYZ, geom.XYZM}
	k := 0
	for _, n := range counts {
		for ki, kind := range kinds {
			k++
			if k%shards != shard {
				continue
			}
			c := BigCase{Kind: kind, Layout: int(layouts[(n+ki)%len(layouts)]), Parts: n, Pattern: ki}
			ev.Default.CaseHash(uint64(n)|uint64(ki)<<32|1<<44, "parts-sweep", true, func() any { return c })
			if !run.One(t, bigSpec, c) {
				return
			}
		}
	}
}
