// C16: Clone returns an equal geometry that shares no storage.
package c16

import (
	"fmt"
	"math"
	"testing"

	geom "github.com/twpayne/go-geom"
	"pgregory.net/rapid"

	"verifharness/internal/gen"
	"verifharness/internal/model"
	"verifharness/internal/run"
)

func TestMain(m *testing.M) { run.Main(m) }

// Mut is one mutation applied to value On (index into the list of values; the
// list starts as [original, clone] and grows with every "clone" mutation).
type Mut struct {
	Name string   `json:"m"` // flat | ends | push | reverse | setcoords | srid | transform | swap | clone | reserve
	On   int      `json:"on"`
	I    int      `json:"i,omitempty"`
	V    model.F  `json:"v,omitempty"`
	G    *model.G `json:"g,omitempty"`
}

// Case is a geometry (or coordinate / bounds) with a mutation history.
type Case struct {
	What  string    `json:"what"` // geom | coord | bounds
	G     model.G   `json:"g,omitempty"`
	Route int       `json:"route,omitempty"`
	Coord []model.F `json:"coord,omitempty"`
	Muts  []Mut     `json:"muts"`
}

var layouts = []geom.Layout{geom.XY, geom.XYZ, geom.XYM, geom.XYZM, geom.Layout(6)}

func genCase(t *rapid.T) Case {
	what := rapid.SampledFrom([]string{"geom", "geom", "geom", "geom", "coord", "bounds"}).Draw(t, "what")
	c := Case{What: what}
	o := gen.TreeOpts{Layouts: layouts, Kinds: []string{model.MultiPolygon, model.MultiPolygon, model.Polygon, model.MultiLineString, model.MultiPoint, model.LineString, model.LinearRing, model.Point}, Floats: gen.AllBits, MaxParts: 3, MaxPts: 4, PEmpty: 25, SRID: gen.SRIDs, LongPct: 1, LongMax: 150}
	switch what {
	case "geom":
		c.G = *gen.Tree(t, o)
		c.Route = rapid.IntRange(0, int(model.NumRoutes)-1).Draw(t, "route")
	default:
		n := rapid.IntRange(0, 6).Draw(t, "n")
		if what == "bounds" {
			n = rapid.IntRange(2, 4).Draw(t, "n")
		}
		for i := 0; i < n; i++ {
			c.Coord = append(c.Coord, gen.Float(t, gen.NoNaN))
		}
	}
	nm := rapid.IntRange(1, 20).Draw(t, "nmuts")
	vals := 2
	for i := 0; i < nm; i++ {
		m := Mut{On: rapid.IntRange(0, vals-1).Draw(t, "on"), I: rapid.IntRange(0, 50).Draw(t, "i"), V: gen.Float(t, gen.AllBits)}
		if what == "geom" {
			m.Name = rapid.SampledFrom([]string{"flat", "flat", "ends", "push", "push", "reverse", "setcoords", "srid", "transform", "swap", "clone", "reserve", "pushall"}).Draw(t, "mut")
			switch m.Name {
			case "push", "pushall":
				pk := map[string]string{model.Polygon: model.LinearRing, model.MultiPoint: model.Point, model.MultiLineString: model.LineString, model.MultiPolygon: model.Polygon}[c.G.Kind]
				if pk == "" {
					m.Name = "flat"
				} else {
					po := o
					m.G = gen.Leaf(t, &po, pk, c.G.Lay())
				}
			case "setcoords", "swap":
				po := o
				m.G = gen.Leaf(t, &po, c.G.Kind, c.G.Lay())
			}
		} else {
			m.Name = rapid.SampledFrom([]string{"set", "index", "clone", "extend"}).Draw(t, "mut")
		}
		if m.Name == "clone" {
			vals++
		}
		c.Muts = append(c.Muts, m)
	}
	return c
}

type snapshot struct {
	typ    string
	layout geom.Layout
	srid   int
	flat   []uint64
	ends   []int
	endss  [][]int
}

func snap(t geom.T) snapshot {
	s := snapshot{typ: fmt.Sprintf("%T", t), layout: t.Layout(), srid: t.SRID()}
	for _, v := range t.FlatCoords() {
		s.flat = append(s.flat, math.Float64bits(v))
	}
	s.ends = append([]int{}, t.Ends()...)
	for _, e := range t.Endss() {
		s.endss = append(s.endss, append([]int{}, e...))
	}
	return s
}

func (a snapshot) String() string {
	return fmt.Sprintf("%v", struct {
		T  string
		L  geom.Layout
		S  int
		F  []uint64
		E  []int
		EE [][]int
	}{a.typ, a.layout, a.srid, a.flat, a.ends, a.endss})
}

func clone(t geom.T) geom.T {
	switch r := t.(type) {
	case *geom.Point:
		return r.Clone()
	case *geom.LineString:
		return r.Clone()
	case *geom.LinearRing:
		return r.Clone()
	case *geom.Polygon:
		return r.Clone()
	case *geom.MultiPoint:
		return r.Clone()
	case *geom.MultiLineString:
		return r.Clone()
	case *geom.MultiPolygon:
		return r.Clone()
	}
	panic(fmt.Sprintf("not cloneable: %T", t))
}

func propGeom(c Case) error {
	orig, err := model.Build(&c.G, model.Route(c.Route))
	if err != nil {
		return fmt.Errorf("build: %v", err)
	}
	vals := []geom.T{orig, clone(orig)}
	if a, b := snap(vals[0]).String(), snap(vals[1]).String(); a != b {
		return fmt.Errorf("clone differs from the original:\n clone %s\n orig  %s", b, a)
	}
	if vals[1] == vals[0] {
		return fmt.Errorf("Clone returned the receiver itself")
	}
	for step, m := range c.Muts {
		on := m.On % len(vals)
		before := make([]string, len(vals))
		for i, v := range vals {
			before[i] = snap(v).String()
		}
		t := vals[on]
		applied := m.Name
		pushedAll := false
		var undo func()
		switch m.Name {
		case "flat":
			if f := t.FlatCoords(); len(f) > 0 {
				i := m.I % len(f)
				nv := m.V.V()
				if math.Float64bits(nv) == math.Float64bits(f[i]) {
					nv = math.Float64frombits(math.Float64bits(nv) ^ 1)
				}
				f[i] = nv
			} else {
				applied = "none"
			}
		case "ends":
			// the write makes this value ill formed, so it is undone after the
			// other values have been looked at
			// (upwards, or downwards as far as it goes: a last end offset written down
			// leaves ordinates behind it)
			d := 1 + m.I
			if e := t.Ends(); len(e) > 0 {
				k := m.I % len(e)
				if m.I%2 == 1 {
					k = len(e) - 1
					d = -min(e[k], 1+m.I%5)
				}
				e[k] += d
				undo = func() { e[k] -= d }
			} else if es := t.Endss(); len(es) > 0 && len(es[m.I%len(es)]) > 0 {
				row := es[m.I%len(es)]
				k := m.I % len(row)
				if m.I%2 == 1 {
					row = es[len(es)-1]
					if len(row) == 0 {
						row = es[m.I%len(es)]
					}
					k = len(row) - 1
					d = -min(row[k], 1+m.I%5)
				}
				row[k] += d
				undo = func() { row[k] -= d }
			} else {
				applied = "none"
			}
			// "cloning any geometry": a clone taken while the written offset stands equals
			// its source in every stored bit and offset, and is its own value
			if undo != nil {
				cl := clone(t)
				if a, b := snap(t).String(), snap(cl).String(); a != b {
					return fmt.Errorf("step %d: clone of a value whose end offset was written (by %d) differs from its source:\n clone %s\n src   %s", step, d, b, a)
				}
				if f := cl.FlatCoords(); len(f) > 0 {
					f[len(f)-1] = math.Float64frombits(math.Float64bits(f[len(f)-1]) ^ 1)
				}
			}
		case "push":
			p, err := model.Build(m.G, model.RouteFlat)
			if err != nil {
				return err
			}
			switch r := t.(type) {
			case *geom.Polygon:
				err = r.Push(p.(*geom.LinearRing))
			case *geom.MultiPoint:
				err = r.Push(p.(*geom.Point))
			case *geom.MultiLineString:
				err = r.Push(p.(*geom.LineString))
			case *geom.MultiPolygon:
				err = r.Push(p.(*geom.Polygon))
			}
			if err != nil {
				return fmt.Errorf("step %d push: %v", step, err)
			}
			if m.G.NumCoords() == 0 && len(t.Ends()) == 0 && len(t.Endss()) == 0 {
				applied = "none"
			}
		case "pushall":
			// one part object pushed onto every value (the original and its clones): each
			// takes a copy of its own, so later writes to one value stay there
			p, err := model.Build(m.G, model.RouteFlat)
			if err != nil {
				return err
			}
			for vi, v := range vals {
				var err error
				switch r := v.(type) {
				case *geom.Polygon:
					err = r.Push(p.(*geom.LinearRing))
				case *geom.MultiPoint:
					err = r.Push(p.(*geom.Point))
				case *geom.MultiLineString:
					err = r.Push(p.(*geom.LineString))
				case *geom.MultiPolygon:
					err = r.Push(p.(*geom.Polygon))
				}
				if err != nil {
					return fmt.Errorf("step %d pushall onto value %d: %v", step, vi, err)
				}
			}
			pushedAll = true
		case "reverse":
			if r, ok := t.(interface{ Reverse() }); ok {
				r.Reverse()
			}
		case "setcoords":
			src, err := model.Build(m.G, model.RouteFlat)
			if err != nil {
				return err
			}
			switch r := t.(type) {
			case *geom.Point:
				if m.G.C0 != nil {
					_, err = r.SetCoords(geom.Coord(model.Floats(m.G.C0)))
				}
			case *geom.LineString:
				_, err = r.SetCoords(src.(*geom.LineString).Coords())
			case *geom.LinearRing:
				_, err = r.SetCoords(src.(*geom.LinearRing).Coords())
			case *geom.Polygon:
				_, err = r.SetCoords(src.(*geom.Polygon).Coords())
			case *geom.MultiPoint:
				_, err = r.SetCoords(src.(*geom.MultiPoint).Coords())
			case *geom.MultiLineString:
				_, err = r.SetCoords(src.(*geom.MultiLineString).Coords())
			case *geom.MultiPolygon:
				_, err = r.SetCoords(src.(*geom.MultiPolygon).Coords())
			}
			if err != nil {
				return fmt.Errorf("step %d setcoords: %v", step, err)
			}
		case "srid":
			geom.SetSRID(t, t.SRID()+1+m.I)
		case "transform":
			if m.I%3 == 1 {
				// in lock-step with a clone: while the transform of this value is at its first
				// coordinate, a clone of it is transformed from first to last by another
				// function (a callback that looks something up in a reprojected copy does this);
				// afterwards each holds what its own function wrote, all of it
				cl := clone(t)
				first := true
				orig := append([]float64(nil), t.FlatCoords()...)
				geom.TransformInPlace(t, func(co geom.Coord) {
					if first {
						first = false
						geom.TransformInPlace(cl, func(cc geom.Coord) {
							for i := range cc {
								cc[i] = -float64(m.I + i + 1)
							}
						})
					}
					for i := range co {
						co[i] = 2*co[i] + 1 // reads what it is given
					}
				})
				s := t.Stride()
				for i, v := range t.FlatCoords() {
					if want := 2*orig[i] + 1; math.Float64bits(v) != math.Float64bits(want) {
						return fmt.Errorf("step %d: transform in place (v -> 2v+1) while a clone was transformed inside its first callback: ordinate %d of the value is %v, want %v (was %v)", step, i, v, want, orig[i])
					}
				}
				for i, v := range cl.FlatCoords() {
					if v != -float64(m.I+i%s+1) {
						return fmt.Errorf("step %d: a clone transformed in place inside the first callback of its source's transform: ordinate %d of the clone is %v, want %v", step, i, v, -float64(m.I+i%s+1))
					}
				}
				break
			}
			geom.TransformInPlace(t, func(co geom.Coord) {
				for i := range co {
					co[i] = float64(m.I + i)
				}
			})
		case "swap":
			third, err := model.Build(m.G, model.RouteFlat)
			if err != nil {
				return err
			}
			switch r := t.(type) {
			case *geom.Point:
				r.Swap(third.(*geom.Point))
			case *geom.LineString:
				r.Swap(third.(*geom.LineString))
			case *geom.LinearRing:
				r.Swap(third.(*geom.LinearRing))
			case *geom.Polygon:
				r.Swap(third.(*geom.Polygon))
			case *geom.MultiPoint:
				r.Swap(third.(*geom.MultiPoint))
			case *geom.MultiLineString:
				r.Swap(third.(*geom.MultiLineString))
			case *geom.MultiPolygon:
				r.Swap(third.(*geom.MultiPolygon))
			}
		case "reserve":
			t.(interface{ Reserve(int) }).Reserve(m.I + 1)
		case "clone":
			cl := clone(t)
			if a, b := snap(t).String(), snap(cl).String(); a != b {
				return fmt.Errorf("step %d: clone differs from its source:\n clone %s\n src   %s", step, b, a)
			}
			vals = append(vals, cl)
		}
		_ = applied
		for i, v := range vals[:len(before)] {
			if i == on || pushedAll {
				continue
			}
			if now := snap(v).String(); now != before[i] {
				return fmt.Errorf("step %d: %s on value %d is visible through value %d:\n before %s\n after  %s", step, m.Name, on, i, before[i], now)
			}
		}
		if undo != nil {
			undo()
		}
	}
	return viewClone(c)
}

// viewClone: a part accessor's result (a view into its owner's array) outlives the
// array's owner - the owner is given new coordinates - and is then cloned: the clone
// and the view are two values.
func viewClone(c Case) error {
	l := c.G.Lay()
	if l == geom.NoLayout {
		return nil
	}
	s := l.Stride()
	n := 4 + (c.G.NumCoords()%6)*13 // 4 .. 69 coordinates
	mk := func(base float64) []float64 {
		f := make([]float64, 0, n*s)
		for i := 0; i < n; i++ {
			for d := 0; d < s; d++ {
				f = append(f, base+float64(i*s+d))
			}
		}
		return f
	}
	owner := geom.NewPolygonFlat(l, mk(1000), []int{n * s})
	view := owner.LinearRing(0)
	other := geom.NewPolygonFlat(l, mk(5000), []int{n * s})
	if _, err := owner.SetCoords(other.Coords()); err != nil {
		return fmt.Errorf("SetCoords on the owner of a view: %v", err)
	}
	for i, v := range view.FlatCoords() {
		if v != 1000+float64(i) {
			return fmt.Errorf("a LinearRing(0) view of %d coordinates changed at ordinate %d when its polygon was given new coordinates: %v", n, i, v)
		}
	}
	cl := view.Clone()
	cf, vf := cl.FlatCoords(), view.FlatCoords()
	for i := range cf {
		cf[i] = -1
	}
	for i, v := range vf {
		if v != 1000+float64(i) {
			return fmt.Errorf("writing to the clone of a view (%d coordinates, taken before its polygon was given new coordinates) shows through the view at ordinate %d", n, i)
		}
	}
	for i := range vf {
		vf[i] = -2
	}
	for i, v := range cl.FlatCoords() {
		if v != -1 {
			return fmt.Errorf("writing to a view shows through its clone at ordinate %d", i)
		}
	}
	for i, v := range owner.FlatCoords() {
		if v != 5000+float64(i) {
			return fmt.Errorf("the polygon's new coordinates changed at ordinate %d when its old view and the view's clone were written to", i)
		}
	}
	// "cloning any geometry": a value whose flat array does not end on a whole coordinate
	// (the flat constructors take what they are given) is cloned as it is, every ordinate
	if s > 1 {
		k := 1 + n%(s-1) // 1 .. stride-1 ordinates too many
		part := mk(9000)[:(n-1)*s+k]
		end := len(part)
		odd := []geom.T{
			geom.NewLineStringFlat(l, append([]float64(nil), part...)),
			geom.NewPolygonFlat(l, append([]float64(nil), part...), []int{end}),
			geom.NewMultiLineStringFlat(l, append([]float64(nil), part...), []int{s, end}),
			geom.NewMultiPolygonFlat(l, append([]float64(nil), part...), [][]int{{s}, {end}}),
		}
		for _, o := range odd {
			cl := clone(o)
			if a, b := snap(o).String(), snap(cl).String(); a != b {
				return fmt.Errorf("clone of a %T whose flat array holds %d ordinates at stride %d differs from its source:\n clone %s\n src   %s", o, end, s, b, a)
			}
		}
	}
	return nil
}

func propCoord(c Case) error {
	vals := []geom.Coord{nil}
	if c.Coord != nil || len(c.Muts)%2 == 0 {
		vals[0] = geom.Coord(model.Floats(c.Coord))
		if vals[0] == nil {
			vals[0] = geom.Coord{}
		}
	}
	vals = append(vals, vals[0].Clone())
	eq := func(a, b geom.Coord) bool {
		if (a == nil) != (b == nil) || len(a) != len(b) {
			return false
		}
		for i := range a {
			if math.Float64bits(a[i]) != math.Float64bits(b[i]) {
				return false
			}
		}
		return true
	}
	if !eq(vals[0], vals[1]) {
		return fmt.Errorf("Coord.Clone() = %v, original %v", vals[1], vals[0])
	}
	for step, m := range c.Muts {
		on := m.On % len(vals)
		before := make([]geom.Coord, len(vals))
		for i, v := range vals {
			if v != nil {
				before[i] = append(geom.Coord{}, v...)
			}
		}
		t := vals[on]
		switch m.Name {
		case "set":
			o := make(geom.Coord, len(t))
			for i := range o {
				o[i] = float64(m.I + i)
			}
			t.Set(o)
		case "index", "extend":
			if len(t) > 0 {
				t[m.I%len(t)] = float64(m.I) + 0.25
			}
		case "clone":
			vals = append(vals, t.Clone())
		}
		for i := range before {
			if i != on && !eq(before[i], vals[i]) {
				return fmt.Errorf("step %d: %s on coord %d is visible through coord %d", step, m.Name, on, i)
			}
		}
	}
	return nil
}

// snapBounds renders the layout and every dimension the box holds: Set stores as many
// dimensions as it is given, which may be more than the layout names.
func snapBounds(b *geom.Bounds) string {
	s := fmt.Sprintf("%v", b.Layout())
	for i := 0; i < 12; i++ {
		var lo, hi float64
		ok := func() (ok bool) {
			defer func() {
				if recover() != nil {
					ok = false
				}
			}()
			lo, hi = b.Min(i), b.Max(i)
			return true
		}()
		if !ok {
			break
		}
		s += fmt.Sprintf(" [%x,%x]", math.Float64bits(lo), math.Float64bits(hi))
	}
	return s
}

func propBounds(c Case) error {
	l := map[int]geom.Layout{2: geom.XY, 3: geom.XYZ, 4: geom.XYZM}[len(c.Coord)]
	// a box may be given more dimensions than its layout names (Set stores them all)
	if len(c.Muts)%3 == 0 && len(c.Coord) > 2 {
		l = geom.XY
	}
	hi := make([]float64, len(c.Coord))
	for i, v := range c.Coord {
		hi[i] = v.V() + float64(i+1)
	}
	b := geom.NewBounds(l).Set(append(model.Floats(c.Coord), hi...)...)
	switch len(c.Muts) % 5 {
	case 1:
		// a box that has data in some of its dimensions only (an XYZ or XYZM box that only
		// ever saw XY geometries)
		b = geom.NewBounds(l).Extend(geom.NewPointFlat(geom.XY, model.Floats(c.Coord)[:2]))
	case 2:
		// an interval written the wrong way round in one dimension (Set stores what it is given)
		args := append(model.Floats(c.Coord), hi...)
		args[0], args[len(c.Coord)] = args[len(c.Coord)], args[0]
		b = geom.NewBounds(l).Set(args...)
	}
	vals := []*geom.Bounds{b, b.Clone()}
	if snapBounds(vals[0]) != snapBounds(vals[1]) {
		return fmt.Errorf("Bounds.Clone() = %s, original %s", snapBounds(vals[1]), snapBounds(vals[0]))
	}
	for step, m := range c.Muts {
		on := m.On % len(vals)
		before := make([]string, len(vals))
		for i, v := range vals {
			before[i] = snapBounds(v)
		}
		t := vals[on]
		n := t.Layout().Stride()
		switch m.Name {
		case "set":
			args := make([]float64, 2*n)
			for i := range args {
				args[i] = float64(m.I + i)
			}
			t.Set(args...)
		case "index":
			lo, hi := make(geom.Coord, n), make(geom.Coord, n)
			for i := range lo {
				lo[i], hi[i] = float64(-m.I-i), float64(m.I+i)
			}
			t.SetCoords(lo, hi)
		case "extend":
			ex := []geom.Layout{geom.XY, geom.XYZ, geom.XYM, geom.XYZM}[m.I%4]
			co := make([]float64, ex.Stride())
			for i := range co {
				co[i] = float64(1000 + m.I + i)
			}
			t.Extend(geom.NewPointFlat(ex, co))
		case "clone":
			cl := t.Clone()
			if snapBounds(cl) != snapBounds(t) {
				return fmt.Errorf("step %d: Bounds.Clone() = %s, its source %s", step, snapBounds(cl), snapBounds(t))
			}
			vals = append(vals, cl)
		}
		for i := range before {
			if i != on && before[i] != snapBounds(vals[i]) {
				return fmt.Errorf("step %d: %s on bounds %d is visible through bounds %d: before %s after %s", step, m.Name, on, i, before[i], snapBounds(vals[i]))
			}
		}
	}
	return nil
}

func prop(c Case) error {
	switch c.What {
	case "geom":
		return propGeom(c)
	case "coord":
		return propCoord(c)
	case "bounds":
		return propBounds(c)
	}
	return fmt.Errorf("bad case %q", c.What)
}

func classify(c Case) ([]string, bool) {
	cl := []string{"what:" + c.What}
	if c.What != "geom" {
		return cl, len(c.Muts) >= 3
	}
	cl = append(cl, "kind:"+c.G.Kind)
	sides := map[int]bool{}
	for _, m := range c.Muts {
		sides[m.On] = true
	}
	parts := 0
	switch c.G.Kind {
	case model.MultiPolygon:
		parts = 2
	case model.Polygon, model.MultiLineString:
		parts = len(c.G.C2)
	case model.MultiPoint:
		parts = len(c.G.C1)
	}
	return cl, parts >= 2 && len(c.Muts) >= 3 && len(sides) >= 2
}

var spec = run.Spec[Case]{ID: "C16", Name: "clone", Gen: genCase, Prop: prop, Classify: classify}

func TestPropClone(t *testing.T) { run.Generated(t, spec) }
func TestRegress(t *testing.T)   { run.Regress(t, spec) }
func TestReplay(t *testing.T) {
	run.ReplayOne(t, spec)
	run.ReplayOne(t, bigSpec)
	run.ReplayOne(t, concSpec)
	run.ReplayOne(t, heavySpec)
}
