package c16

import (
	"fmt"
	"sync"
	"testing"

	geom "github.com/twpayne/go-geom"

	"verifharness/internal/ev"
	"verifharness/internal/run"
)

// The property's generated cases, 24 at a time in 8 or 16 goroutines, every case on
// values of its own: each holds as it holds alone (run.ConcSpec).
var concSpec = run.ConcSpec(spec, nil)

// HeavyClone: G goroutines clone small values of their own N times in a row - a point,
// a coordinate, a two-point line, a box, a one-ring polygon - and after each clone look
// at it, write over it and look at the source: calls so short only follow each other
// closely enough to meet inside the library when they come by the tens of thousands.
type HeavyClone struct {
	G int `json:"g"`
	N int `json:"n"`
}

func propHeavyClone(h HeavyClone) error {
	one := func(w int) error {
		f := float64(1000 * (w + 1))
		pt := geom.NewPointFlat(geom.XYZ, []float64{f + 1, f + 2, f + 3})
		co := geom.Coord{f + 4, f + 5}
		ls := geom.NewLineStringFlat(geom.XY, []float64{f + 6, f + 7, f + 8, f + 9})
		bx := geom.NewBounds(geom.XY).Set(f+10, f+11, f+12, f+13)
		pg := geom.NewPolygonFlat(geom.XY, []float64{f + 14, f + 15, f + 16, f + 17, f + 18, f + 19, f + 14, f + 15}, []int{8})
		same := func(what string, got, want []float64, i int) error {
			if len(got) != len(want) {
				return fmt.Errorf("clone %d of goroutine %d's %s has %d ordinates, the source %d", i, w, what, len(got), len(want))
			}
			for k := range want {
				if got[k] != want[k] {
					return fmt.Errorf("clone %d of goroutine %d's %s: ordinate %d is %v, the source's %v (%d goroutines clone values of their own)", i, w, what, k, got[k], want[k], h.G)
				}
			}
			return nil
		}
		src := func(what string, got []float64, base float64, i int) error {
			for k := range got {
				if got[k] != base+float64(k) && !(what == "polygon" && k >= 6 && got[k] == base+float64(k-6)) {
					return fmt.Errorf("goroutine %d's %s after %d clones were written over: ordinate %d is %v", w, what, i, k, got[k])
				}
			}
			return nil
		}
		for i := 0; i < h.N; i++ {
			c1, c2, c3, c4, c5 := pt.Clone(), co.Clone(), ls.Clone(), bx.Clone(), pg.Clone()
			if err := same("point", c1.FlatCoords(), pt.FlatCoords(), i); err != nil {
				return err
			}
			if err := same("coordinate", c2, co, i); err != nil {
				return err
			}
			if err := same("line", c3.FlatCoords(), ls.FlatCoords(), i); err != nil {
				return err
			}
			if c4.Min(0) != f+10 || c4.Min(1) != f+11 || c4.Max(0) != f+12 || c4.Max(1) != f+13 {
				return fmt.Errorf("clone %d of goroutine %d's box is %v", i, w, c4)
			}
			if err := same("polygon", c5.FlatCoords(), pg.FlatCoords(), i); err != nil {
				return err
			}
			for _, fl := range [][]float64{c1.FlatCoords(), c2, c3.FlatCoords(), c5.FlatCoords()} {
				for k := range fl {
					fl[k] = -1
				}
			}
			c4.Set(-1, -1, -1, -1)
			if i%64 == 0 || i == h.N-1 {
				if err := src("point", pt.FlatCoords(), f+1, i); err != nil {
					return err
				}
				if err := src("coordinate", co, f+4, i); err != nil {
					return err
				}
				if err := src("line", ls.FlatCoords(), f+6, i); err != nil {
					return err
				}
				if err := src("polygon", pg.FlatCoords(), f+14, i); err != nil {
					return err
				}
				if bx.Min(0) != f+10 || bx.Max(1) != f+13 {
					return fmt.Errorf("goroutine %d's box after %d clones were written over: %v", w, i, bx)
				}
			}
		}
		return nil
	}
	if err := run.Safe(func() error { return one(0) }); err != nil {
		return fmt.Errorf("alone: %v", err)
	}
	errs := make([]error, h.G)
	var wg sync.WaitGroup
	start := make(chan struct{})
	for w := 0; w < h.G; w++ {
		wg.Add(1)
		go func(w int) {
			defer wg.Done()
			<-start
			errs[w] = run.Safe(func() error { return one(w) })
		}(w)
	}
	close(start)
	wg.Wait()
	for _, e := range errs {
		if e != nil {
			return e
		}
	}
	return nil
}

var heavySpec = run.Spec[HeavyClone]{ID: "C16", Name: "heavyclone", Prop: propHeavyClone, Classify: func(h HeavyClone) ([]string, bool) {
	return []string{"concurrent-clones", fmt.Sprintf("goroutines:%d", h.G)}, true
}}

func TestExhaustiveConcurrent(t *testing.T) {
	rounds := 16
	if run.Thorough() {
		rounds = 400
	}
	run.ConcurrentSweep(t, concSpec, rounds)
	shard, shards := run.Shard()
	for r := 0; r < rounds/2; r++ {
		if r%shards != shard {
			continue
		}
		h := HeavyClone{G: 4 + 4*(r%4), N: 30000}
		ev.Default.CaseHash(uint64(r)|1<<53, "concurrent-clones", true, func() any { return h })
		if !run.One(t, heavySpec, h) {
			return
		}
	}
}

func TestRegressConcurrent(t *testing.T) { run.Regress(t, concSpec) }
