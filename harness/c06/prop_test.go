// C06: the WKT parser is total and accepts only consistent geometries.
package c06

import (
	"encoding/hex"
	"encoding/json"
	"fmt"
	"math"
	"strconv"
	"strings"
	"testing"
	"unicode/utf8"

	geom "github.com/twpayne/go-geom"
	"github.com/twpayne/go-geom/encoding/wkt"
	"pgregory.net/rapid"

	"verifharness/internal/ev"
	"verifharness/internal/gen"
	"verifharness/internal/model"
	"verifharness/internal/refwkt"
	"verifharness/internal/run"
)

func TestMain(m *testing.M) { run.Main(m) }

// Case is an input string; MustReject is set for single-defect injections.
type Case struct {
	Class      string `json:"class"`
	Text       Txt    `json:"text"`
	MustReject bool   `json:"mustReject,omitempty"`
}

// Txt is an input string that survives its JSON form whatever bytes it holds:
// valid UTF-8 is written as it is, anything else as "hex:" + hexadecimal.
type Txt string

func (x Txt) MarshalJSON() ([]byte, error) {
	if utf8.ValidString(string(x)) && !strings.HasPrefix(string(x), "hex:") {
		return json.Marshal(string(x))
	}
	return json.Marshal("hex:" + hex.EncodeToString([]byte(x)))
}

func (x *Txt) UnmarshalJSON(b []byte) error {
	var s string
	if err := json.Unmarshal(b, &s); err != nil {
		return err
	}
	if strings.HasPrefix(s, "hex:") {
		raw, err := hex.DecodeString(s[4:])
		if err != nil {
			return err
		}
		s = string(raw)
	}
	*x = Txt(s)
	return nil
}

// verdict parses text and checks everything C06 says about the outcome. It
// returns whether the text was accepted.
func verdict(text string, bounded bool) (accepted bool, err error) {
	var g geom.T
	var perr error
	call := func() error { g, perr = wkt.Unmarshal(text); return nil }
	if bounded {
		err = run.Bounded(call)
	} else {
		err = run.Safe(call)
	}
	if err != nil {
		return false, fmt.Errorf("wkt.Unmarshal: %v", err)
	}
	if perr != nil {
		var msg string
		if e := run.Safe(func() error { msg = perr.Error(); return nil }); e != nil {
			return false, fmt.Errorf("rendering the error (%T) failed: %v", perr, e)
		}
		if msg == "" {
			return false, fmt.Errorf("empty error message (%T)", perr)
		}
		if g != nil {
			return false, fmt.Errorf("both a geometry and an error returned")
		}
		return false, nil
	}
	if g == nil {
		return false, fmt.Errorf("nil geometry and nil error")
	}
	// an accepted geometry is the caller's: it is looked at after EMPTY geometries of the
	// other layouts have been parsed (values without coordinates are the ones an
	// implementation is tempted to share between results)
	if strings.Contains(text, "MPTY") || strings.Contains(text, "mpty") {
		for _, o := range []string{"GEOMETRYCOLLECTION M EMPTY", "GEOMETRYCOLLECTION Z EMPTY", "GEOMETRYCOLLECTION ZM EMPTY", "GEOMETRYCOLLECTION EMPTY", "POINT ZM EMPTY", "POINT EMPTY"} {
			_, _ = wkt.Unmarshal(o)
		}
	}
	m, err := model.FromGeom(g)
	if err != nil {
		return true, fmt.Errorf("accepted geometry not well formed: %v", err)
	}
	top := m.ReportedLayout()
	if top.Stride() < 2 || top.Stride() > 4 || top > geom.XYZM {
		return true, fmt.Errorf("accepted geometry has layout %v", top)
	}
	var cerr error
	closed := func(r [][]model.F, where string) {
		if len(r) < 4 {
			cerr = fmt.Errorf("%s: accepted ring with %d points", where, len(r))
			return
		}
		n := 2
		if top.ZIndex() >= 0 {
			n = 3
		}
		for d := 0; d < n; d++ {
			if r[0][d].V() != r[len(r)-1][d].V() {
				cerr = fmt.Errorf("%s: accepted ring is not closed (dimension %d: %v vs %v)", where, d, r[0][d].V(), r[len(r)-1][d].V())
			}
		}
	}
	m.Walk(func(x *model.G) {
		if cerr != nil {
			return
		}
		if x.ReportedLayout() != top {
			cerr = fmt.Errorf("accepted geometry mixes layouts: a %s of layout %v inside layout %v", x.Kind, x.ReportedLayout(), top)
			return
		}
		x.EachOrdinate(func(_ int, v model.F) {
			if f := v.V(); math.IsNaN(f) || math.IsInf(f, 0) {
				cerr = fmt.Errorf("accepted a non-finite ordinate %v", f)
			}
		})
		switch x.Kind {
		case model.LineString:
			if len(x.C1) == 1 {
				cerr = fmt.Errorf("accepted a one-point linestring")
			}
		case model.MultiLineString:
			for _, l := range x.C2 {
				if len(l) == 1 {
					cerr = fmt.Errorf("accepted a one-point linestring in a multilinestring")
				}
			}
		case model.Polygon:
			for _, r := range x.C2 {
				closed(r, "polygon")
			}
		case model.MultiPolygon:
			for _, p := range x.C3 {
				for _, r := range p {
					closed(r, "multipolygon")
				}
			}
		}
	})
	if cerr != nil {
		return true, cerr
	}
	// re-encode and parse again (other callers have used the encoder with other
	// settings before: a digit limit given to one call is that call's)
	_, _ = wkt.Marshal(geom.NewPointFlat(geom.XY, []float64{0.123456789, -7.5}), wkt.EncodeOptionWithMaxDecimalDigits(len(text)%4))
	_, _ = wkt.NewEncoder(wkt.EncodeOptionWithMaxDecimalDigits(1)).Encode(geom.NewPointFlat(geom.XY, []float64{0.123456789, -7.5}))
	out, err := wkt.Marshal(g)
	if err != nil {
		return true, fmt.Errorf("re-encoding an accepted geometry failed: %v", err)
	}
	g2, err := wkt.Unmarshal(out)
	if err != nil {
		return true, fmt.Errorf("re-parsing the re-encoding %q failed: %v", out, err)
	}
	m2, err := model.FromGeom(g2)
	if err != nil {
		return true, fmt.Errorf("re-parsed geometry not well formed: %v", err)
	}
	if d := model.Diff(m, m2, false); d != "" {
		return true, fmt.Errorf("parse(encode(parse(x))) differs: %s (re-encoding %q)", d, out)
	}
	return true, nil
}

func prop(c Case) error {
	acc, err := verdict(string(c.Text), true)
	if err != nil {
		return fmt.Errorf("%v\ninput: %q", err, clip(string(c.Text)))
	}
	if c.MustReject && acc {
		return fmt.Errorf("input with defect %q was accepted: %q", c.Class, clip(string(c.Text)))
	}
	return nil
}

func clip(s string) string {
	if len(s) > 500 {
		return s[:500] + "..."
	}
	return s
}

func validTree(t *rapid.T) *model.G {
	return gen.Tree(t, gen.TreeOpts{
		Layouts: gen.Layouts4, Floats: gen.SmallInt, MaxDepth: 3, MaxParts: 3, MaxPts: 4,
		Valid: true, FixEmptyCollections: true, FixedCollectionPct: 50, PEmpty: 25,
	})
}

func chooser(t *rapid.T) refwkt.Chooser {
	return func(n int, label string) int { return rapid.IntRange(0, n-1).Draw(t, label) }
}

var vocabulary = []string{
	"POINT", "LINESTRING", "POLYGON", "MULTIPOINT", "MULTILINESTRING", "MULTIPOLYGON", "GEOMETRYCOLLECTION",
	"POINT Z", "POINTM", "POINT ZM", "LINESTRING M", "POLYGONZ", "MULTIPOINT M", "MULTILINESTRING ZM", "MULTIPOLYGON M",
	"GEOMETRYCOLLECTION M", "GEOMETRYCOLLECTION Z", "GEOMETRYCOLLECTIONZM", "EMPTY", "(", ")", ",", "Z", "M", "ZM",
	"0", "1 2", "1 2 3", "1 2 3 4", "1 2 3 4 5", "-1.5e3", "1e999", "-1e400 2", "2e308 0", "1e-400", "1.7976931348623157e308", "1.7976931348623159e308",
	"1" + strings.Repeat("0", 310), "0." + strings.Repeat("0", 400) + "1", "1e+", "1e", "--1", "1..2", ".", "-", "1e5e5", "(0 0, 1 0, 1 1, 0 0)", "(0 0 0, 1 0 0, 1 1 0, 0 0 0)", "(0 0, 1 1)", "POINT EMPTY", "POINT M EMPTY",
}

// texts of tokens of a valid text, for token-level mutation
func tokenTexts(s string) []string {
	toks, err := refwkt.Tokens(s)
	if err != nil {
		return strings.Fields(s)
	}
	out := make([]string, len(toks))
	for i, t := range toks {
		out[i] = t.Text
	}
	return out
}

func genMutant(t *rapid.T) Case {
	g := validTree(t)
	text, err := refwkt.Write(g, nil)
	if err != nil {
		panic(err)
	}
	toks := tokenTexts(text)
	n := rapid.IntRange(1, 3).Draw(t, "nmut")
	for ; n > 0 && len(toks) > 0; n-- {
		i := rapid.IntRange(0, len(toks)-1).Draw(t, "pos")
		switch rapid.IntRange(0, 9).Draw(t, "mut") {
		case 9:
			// a type keyword of a neighbouring dialect (SQL/MM curves and surfaces, the ring
			// type this library has but WKT has not) in place of a keyword of the text
			var kws []int
			for j, tk := range toks {
				if len(tk) > 3 && tk[0] >= 'A' && tk[0] <= 'Z' && tk != "EMPTY" {
					kws = append(kws, j)
				}
			}
			if len(kws) > 0 {
				j := rapid.SampledFrom(kws).Draw(t, "kwpos")
				suffix := ""
				if k := strings.IndexByte(toks[j], ' '); k >= 0 {
					suffix = toks[j][k:]
				}
				toks[j] = rapid.SampledFrom([]string{"LINEARRING", "LINEARRING", "LinearRing", "CIRCULARSTRING", "COMPOUNDCURVE", "CURVEPOLYGON", "MULTICURVE", "MULTISURFACE", "TRIANGLE", "TIN", "POLYHEDRALSURFACE", "GEOMETRY", "BOX", "RING", "LINE", "MULTIGEOMETRY"}).Draw(t, "foreignkw") + suffix
			}
		case 7, 8: // a generated plain-decimal or exponent literal: any number of leading zeros,
			// integer digits and fractional digits (0..40), few or many significant digits
			var sb strings.Builder
			if rapid.Bool().Draw(t, "neg") {
				sb.WriteByte('-')
			}
			sb.WriteString(strings.Repeat("0", rapid.SampledFrom([]int{0, 0, 0, 1, 3}).Draw(t, "lead0")))
			ni := rapid.SampledFrom([]int{0, 1, 1, 2, 5, 15, 16, 17, 18, 19, 19, 20, 21, 25, 310}).Draw(t, "nint")
			for j := 0; j < ni; j++ {
				sb.WriteByte(byte('0' + rapid.IntRange(0, 9).Draw(t, "id")))
			}
			nf := rapid.IntRange(0, 40).Draw(t, "nfrac")
			if nf > 0 || rapid.IntRange(0, 4).Draw(t, "dot") == 0 {
				sb.WriteByte('.')
			}
			sig := rapid.IntRange(0, nf).Draw(t, "nsig") // the last sig fractional digits are random, the others 0
			for j := 0; j < nf; j++ {
				if j >= nf-sig {
					sb.WriteByte(byte('0' + rapid.IntRange(0, 9).Draw(t, "fd")))
				} else {
					sb.WriteByte('0')
				}
			}
			if rapid.IntRange(0, 3).Draw(t, "exp") == 0 {
				sb.WriteString(rapid.SampledFrom([]string{"e", "E", "e+", "e-", "E-"}).Draw(t, "e"))
				sb.WriteString(strconv.Itoa(rapid.SampledFrom([]int{0, 1, 5, 22, 23, 100, 308, 309, 324, 400}).Draw(t, "ev")))
			}
			toks[i] = sb.String()
		case 6: // an extreme number literal in place of a token (overflow, underflow, very long)
			toks[i] = rapid.SampledFrom([]string{"1e999", "-1e400", "2e308", "1e-400", "1.7976931348623159e308", "-1.7976931348623157e308", "1" + strings.Repeat("0", 310), "0." + strings.Repeat("0", 330) + "7", "9e307", "4.9e-324", "2e-324",
				// whole numbers at and beyond the limits of machine integers
				"2147483647", "2147483648", "-2147483649", "4294967296", "9007199254740993", "9223372036854775807", "9223372036854775808", "-9223372036854775809", "9300000000000000000", "18446744073709551615", "18446744073709551616", "99999999999999999999"}).Draw(t, "extreme")
		case 0:
			toks = append(toks[:i:i], toks[i+1:]...)
		case 1:
			toks = append(toks[:i+1:i+1], toks[i:]...)
		case 2:
			toks[i] = rapid.SampledFrom(vocabulary).Draw(t, "tok")
		case 3:
			j := rapid.IntRange(0, len(toks)-1).Draw(t, "other")
			toks[i], toks[j] = toks[j], toks[i]
		case 4:
			toks = append(toks[:i:i], append([]string{rapid.SampledFrom(vocabulary).Draw(t, "ins")}, toks[i:]...)...)
		default:
			// splice with another valid text
			g2 := validTree(t)
			t2, _ := refwkt.Write(g2, nil)
			o := tokenTexts(t2)
			j := rapid.IntRange(0, len(o)).Draw(t, "cut")
			toks = append(toks[:i:i], o[j:]...)
		}
	}
	sep := rapid.SampledFrom([]string{" ", " ", "\n", "\t ", "  "}).Draw(t, "sep")
	text = strings.Join(toks, sep)
	// a run of bytes that are (or look like) padding, longer than any window the error
	// rendering may cut around the error position: Latin-1 spaces that a byte-wise
	// lexer skips (0x85, 0xA0), other bytes above 0x7F, line breaks, NULs, real UTF-8
	if rapid.IntRange(0, 2).Draw(t, "pad") == 0 {
		unit := rapid.SampledFrom([]string{"\xa0", "\x85", "\xa0\x85", " ", "\n", "\r", "\r\n", "\t", "\x00", "\xc3\xa9", "\xe2\x80\xa8", "\x80", "\xbf", "\xff", "\xc0", "\v", "\f"}).Draw(t, "padunit")
		run := strings.Repeat(unit, rapid.IntRange(1, 70).Draw(t, "padlen"))
		at := rapid.SampledFrom([]int{len(text), len(text), 0, rapid.IntRange(0, len(text)).Draw(t, "padat")}).Draw(t, "padwhere")
		text = text[:at] + run + text[at:]
	}
	// what other software writes around WKT: the EWKT SRID prefix (whole, cut short,
	// misspelt), quotes, a cast, a function call, a byte-order mark
	if rapid.IntRange(0, 5).Draw(t, "dialect") == 0 {
		pre := rapid.SampledFrom([]string{"SRID=4326;", "SRID=4326", "SRID=", "SRID", "srid=4326;", "Srid=0;", "SRID=4326 ", "SRID=-1;", "SRID=99999999999999999999;", "SRID=4326;;", "SRID=;", ";", "SRID=4326;SRID=4326;", "SRID =4326;", " SRID=4326;", "'", "\"", "ST_GeomFromText('", "\ufeff", "EPSG:4326;", "<", "{"}).Draw(t, "prefix")
		post := rapid.SampledFrom([]string{"", "", "", ";", "'", "\"", "::geometry", "', 4326)", ";SRID=4326", "\x00"}).Draw(t, "suffix")
		if rapid.IntRange(0, 3).Draw(t, "onlyprefix") == 0 {
			text = ""
		}
		text = pre + text + post
		return Case{Class: "token-mutant+dialect", Text: Txt(text)}
	}
	return Case{Class: "token-mutant", Text: Txt(text)}
}

// ---- single defects that must be rejected ---------------------------------

type ringRef struct {
	g    *model.G
	i, j int // polygon index (multipolygon) / ring index
}

func collect(g *model.G) (rings []ringRef, lines []ringRef, coords int, leaves []*model.G) {
	g.Walk(func(x *model.G) {
		if !x.IsCollection() {
			leaves = append(leaves, x)
			coords += x.NumCoords()
		}
		switch x.Kind {
		case model.Polygon:
			for j := range x.C2 {
				rings = append(rings, ringRef{x, -1, j})
			}
		case model.MultiPolygon:
			for i := range x.C3 {
				for j := range x.C3[i] {
					rings = append(rings, ringRef{x, i, j})
				}
			}
		case model.LineString:
			if len(x.C1) > 0 {
				lines = append(lines, ringRef{x, -1, -1})
			}
		case model.MultiLineString:
			for j := range x.C2 {
				if len(x.C2[j]) > 0 {
					lines = append(lines, ringRef{x, -1, j})
				}
			}
		}
	})
	return
}

func (r ringRef) get() [][]model.F {
	switch {
	case r.g.Kind == model.LineString:
		return r.g.C1
	case r.i >= 0:
		return r.g.C3[r.i][r.j]
	}
	return r.g.C2[r.j]
}

func (r ringRef) set(v [][]model.F) {
	switch {
	case r.g.Kind == model.LineString:
		r.g.C1 = v
	case r.i >= 0:
		r.g.C3[r.i][r.j] = v
	default:
		r.g.C2[r.j] = v
	}
}

// allCoords returns pointers to every coordinate slice below g.
func allCoords(g *model.G) []*[]model.F {
	var out []*[]model.F
	g.Walk(func(x *model.G) {
		if x.C0 != nil {
			out = append(out, &x.C0)
		}
		for i := range x.C1 {
			if x.C1[i] != nil {
				out = append(out, &x.C1[i])
			}
		}
		for i := range x.C2 {
			for j := range x.C2[i] {
				out = append(out, &x.C2[i][j])
			}
		}
		for i := range x.C3 {
			for j := range x.C3[i] {
				for k := range x.C3[i][j] {
					out = append(out, &x.C3[i][j][k])
				}
			}
		}
	})
	return out
}

var defectKinds = []string{model.Polygon, model.MultiPolygon, model.LineString, model.MultiLineString, model.GeometryCollection, model.GeometryCollection, model.MultiPoint, model.Point}

func genDefect(t *rapid.T) Case {
	g := gen.Tree(t, gen.TreeOpts{
		Layouts: gen.Layouts4, Kinds: defectKinds, Floats: gen.SmallInt, MaxDepth: 2, MaxParts: 3, MaxPts: 4,
		Valid: true, FixEmptyCollections: true, FixedCollectionPct: 50, PEmpty: 15,
	})
	rings, lines, ncoords, _ := collect(g)
	cs := allCoords(g)
	defects := []string{}
	if len(rings) > 0 {
		defects = append(defects, "unclosed-ring", "short-ring")
	}
	if len(lines) > 0 {
		defects = append(defects, "one-point-line")
	}
	if len(cs) > 0 {
		defects = append(defects, "ordinates<2", "ordinates>4")
		// a changed arity is a contradiction when the text carries an explicit
		// suffix (layout != XY) or when another coordinate keeps the old arity
		if g.ReportedLayout() != geom.XY || ncoords >= 2 {
			defects = append(defects, "arity")
		}
	}
	if len(defects) == 0 {
		return Case{Class: "valid", Text: Txt(mustWrite(g, chooser(t)))}
	}
	d := rapid.SampledFrom(defects).Draw(t, "defect")
	switch d {
	case "unclosed-ring":
		r := rapid.SampledFrom(rings).Draw(t, "ring")
		ring := r.get()
		dims := 2
		if g.ReportedLayout().ZIndex() >= 0 {
			dims = 3
		}
		k := rapid.IntRange(0, dims-1).Draw(t, "dim")
		last := append([]model.F{}, ring[len(ring)-1]...)
		if rapid.Bool().Draw(t, "bigdelta") {
			last[k] = model.Of(last[k].V() + float64(rapid.SampledFrom([]int{1, -1, 100}).Draw(t, "delta")))
		} else {
			// the closing point misses the start by a hair: one to a few units in the last
			// place, or a small relative error (a reprojected or re-rounded ring)
			v := last[k].V()
			switch steps := rapid.SampledFrom([]int{1, -1, 2, -2, 3, 4, -4, 8, 0, 0}).Draw(t, "ulps"); {
			case steps != 0:
				for ; steps > 0; steps-- {
					v = math.Nextafter(v, math.Inf(1))
				}
				for ; steps < 0; steps++ {
					v = math.Nextafter(v, math.Inf(-1))
				}
			case v != 0:
				v *= 1 + rapid.SampledFrom([]float64{1e-15, -1e-15, 1e-12, 1e-9, -1e-9, 1e-6}).Draw(t, "rel")
			default:
				v = rapid.SampledFrom([]float64{1e-300, -1e-300, 1e-15, 5e-324}).Draw(t, "abs")
			}
			last[k] = model.Of(v)
		}
		ring = append(append([][]model.F{}, ring[:len(ring)-1]...), last)
		r.set(ring)
	case "short-ring":
		r := rapid.SampledFrom(rings).Draw(t, "ring")
		ring := r.get()
		n := rapid.IntRange(1, 3).Draw(t, "keep")
		short := append([][]model.F{}, ring[:n]...)
		if n >= 2 && rapid.Bool().Draw(t, "closeit") {
			short[n-1] = append([]model.F{}, ring[0]...)
		}
		r.set(short)
	case "one-point-line":
		r := rapid.SampledFrom(lines).Draw(t, "line")
		r.set(r.get()[:1])
	case "ordinates<2":
		c := rapid.SampledFrom(cs).Draw(t, "coord")
		*c = (*c)[:1]
	case "ordinates>4":
		c := rapid.SampledFrom(cs).Draw(t, "coord")
		// five to seven, or a count at which a narrow counter has wrapped to 2, 3 or 4
		want := 5 + rapid.IntRange(0, 2).Draw(t, "more")
		if rapid.IntRange(0, 2).Draw(t, "manyords") == 0 {
			want = rapid.SampledFrom([]int{8, 9, 16, 64, 255, 256, 257, 258, 259, 260, 261, 512, 514, 515, 516, 1026, 4099}).Draw(t, "nords")
			if run.Thorough() && rapid.IntRange(0, 9).Draw(t, "hugeords") == 0 {
				want = rapid.SampledFrom([]int{65538, 65539, 65540}).Draw(t, "nordshuge")
			}
		}
		nc := append([]model.F{}, *c...)
		for len(nc) < want {
			nc = append(nc, model.Of(float64(len(nc)%10)))
		}
		*c = nc
	case "arity":
		c := rapid.SampledFrom(cs).Draw(t, "coord")
		old := len(*c)
		var opts []int
		for n := 2; n <= 4; n++ {
			if n != old {
				opts = append(opts, n)
			}
		}
		n := rapid.SampledFrom(opts).Draw(t, "newarity")
		nc := append([]model.F{}, *c...)
		for len(nc) < n {
			nc = append(nc, model.Of(9))
		}
		*c = nc[:n]
	}
	return Case{Class: d, Text: Txt(mustWrite(g, chooser(t))), MustReject: true}
}

func mustWrite(g *model.G, c refwkt.Chooser) string {
	s, err := refwkt.Write(g, c)
	if err != nil {
		panic(err)
	}
	return s
}

func genCollectionFrames(t *rapid.T) Case {
	// nested GEOMETRYCOLLECTION / M / Z / ZM frames with base-type EMPTY members:
	// the state the parser's internal assertions guard
	var sb strings.Builder
	depth := rapid.IntRange(1, 5).Draw(t, "depth")
	var rec func(d int)
	member := func() {
		sb.WriteString(rapid.SampledFrom([]string{
			"POINT EMPTY", "POINT M EMPTY", "POINT Z EMPTY", "POINT ZM EMPTY", "POINT(1 2)", "POINT(1 2 3)", "POINT M (1 2 3)", "POINT Z (1 2 3)", "POINT(1 2 3 4)",
			"LINESTRING EMPTY", "LINESTRING M EMPTY", "LINESTRING(1 2 3, 4 5 6)", "POLYGON EMPTY", "MULTIPOINT EMPTY", "MULTIPOINT (EMPTY)", "MULTIPOINT M (EMPTY, 1 2 3)", "MULTIPOINT (EMPTY, 1 2 3)",
			"MULTILINESTRING (EMPTY)", "MULTIPOLYGON (EMPTY, EMPTY)", "MULTIPOLYGON M (EMPTY)", "GEOMETRYCOLLECTION EMPTY", "GEOMETRYCOLLECTION M EMPTY", "GEOMETRYCOLLECTION Z EMPTY", "GEOMETRYCOLLECTION ZM EMPTY",
			"MULTIPOINT (1 2 3)", "MULTILINESTRING ((1 2 3, 4 5 6))", "POLYGON((0 0 0, 1 0 0, 1 1 0, 0 0 0))",
		}).Draw(t, "member"))
	}
	rec = func(d int) {
		sb.WriteString(rapid.SampledFrom([]string{"GEOMETRYCOLLECTION", "GEOMETRYCOLLECTION M", "GEOMETRYCOLLECTION Z", "GEOMETRYCOLLECTION ZM", "GEOMETRYCOLLECTION"}).Draw(t, "frame"))
		sb.WriteString(" (")
		n := rapid.IntRange(1, 3).Draw(t, "n")
		for i := 0; i < n; i++ {
			if i > 0 {
				sb.WriteString(", ")
			}
			if d > 1 && rapid.IntRange(0, 2).Draw(t, "nest") > 0 {
				rec(d - 1)
			} else {
				member()
			}
		}
		sb.WriteString(")")
	}
	rec(depth)
	// the same under a tower of 10-130 further collections, with a sibling member of some
	// layout added at one or two levels on the way out: what was learnt inside must still
	// be known that far outside
	if rapid.IntRange(0, 3).Draw(t, "tower") == 0 {
		d := rapid.SampledFrom([]int{10, 15, 16, 17, 31, 32, 33, 40, 64, 65, 130, 257, 999, 1000, 1030, 2050}).Draw(t, "towerdepth")
		if rapid.Bool().Draw(t, "plaintower") {
			// a tower of plain frames around one simple member, and one sibling of the same
			// or of another dimension at a drawn level on the way out
			simple := []string{"POINT(1 2)", "POINT(1 2 3)", "POINT M (1 2 3)", "POINT(1 2 3 4)", "LINESTRING(1 2, 3 4)", "LINESTRING Z (1 2 3, 4 5 6)", "POINT EMPTY", "POINT Z EMPTY"}
			sb.Reset()
			sb.WriteString(strings.Repeat("GEOMETRYCOLLECTION(", d))
			sb.WriteString(rapid.SampledFrom(simple).Draw(t, "towermember"))
			at := rapid.IntRange(0, d-1).Draw(t, "sibat")
			if rapid.Bool().Draw(t, "sibouter") {
				at = d - 1 - rapid.IntRange(0, 2).Draw(t, "sibfromtop")
			}
			for i := 0; i < d; i++ {
				if i == at {
					sb.WriteString(", " + rapid.SampledFrom(simple).Draw(t, "towersibling"))
				}
				sb.WriteString(")")
			}
			return Case{Class: "collection-frames+plaintower", Text: Txt(sb.String())}
		}
		inner := sb.String()
		sb.Reset()
		for i := 0; i < d; i++ {
			sb.WriteString(rapid.SampledFrom([]string{"GEOMETRYCOLLECTION (", "GEOMETRYCOLLECTION (", "GEOMETRYCOLLECTION(", "GEOMETRYCOLLECTION Z (", "GEOMETRYCOLLECTION M ("}).Draw(t, "towerframe"))
		}
		sb.WriteString(inner)
		at1, at2 := rapid.IntRange(0, d-1).Draw(t, "sib1"), rapid.IntRange(0, d-1).Draw(t, "sib2")
		for i := 0; i < d; i++ {
			if i == at1 || (i == at2 && at2%2 == 0) {
				sb.WriteString(", ")
				member()
			}
			sb.WriteString(")")
		}
		return Case{Class: "collection-frames+tower", Text: Txt(sb.String())}
	}
	return Case{Class: "collection-frames", Text: Txt(sb.String())}
}

func genCase(t *rapid.T) Case {
	switch rapid.IntRange(0, 9).Draw(t, "which") {
	case 0, 1, 2:
		return genMutant(t)
	case 3, 4, 5:
		return genDefect(t)
	case 6, 7:
		return genCollectionFrames(t)
	case 8:
		// valid texts over every class of finite ordinates (whole numbers at the limits of
		// machine integers, decimals, both ends of the range): accepted, so re-encoded and
		// parsed again
		floats := rapid.SampledFrom([]int{gen.SmallInt, gen.IntEdge, gen.IntEdge | gen.SmallInt, gen.Finite, gen.Decimalish | gen.SmallInt, gen.FullRange | gen.Denormal | gen.Zeros}).Draw(t, "vfloats")
		g := gen.Tree(t, gen.TreeOpts{
			Layouts: gen.Layouts4, Floats: floats, MaxDepth: 3, MaxParts: 3, MaxPts: 4,
			Valid: true, FixEmptyCollections: true, FixedCollectionPct: 50, PEmpty: 25,
		})
		return Case{Class: "valid", Text: Txt(mustWrite(g, chooser(t)))}
	default:
		// raw strings over a WKT-flavoured alphabet
		s := rapid.StringMatching(`[ POINTZMEYLSGCU(),.0-9eE+\-\n\t\x00\x7f-\xff]{0,60}`).Draw(t, "raw")
		return Case{Class: "raw", Text: Txt(s)}
	}
}

func classify(c Case) ([]string, bool) {
	acc := false
	pastFirstClose := false
	var perr error
	_ = run.Safe(func() error {
		_, perr = wkt.Unmarshal(string(c.Text))
		acc = perr == nil
		return nil
	})
	cl := []string{"class:" + c.Class}
	if acc {
		cl = append(cl, "accepted")
	} else if perr != nil {
		// error position beyond the first closing parenthesis?
		var line, pos int
		msg := ""
		_ = run.Safe(func() error { msg = perr.Error(); return nil })
		if i := strings.Index(msg, " at line "); i >= 0 {
			fmt.Sscanf(msg[i:], " at line %d, pos %d", &line, &pos)
			if line == 1 {
				if j := strings.Index(string(c.Text), ")"); j >= 0 && pos > j {
					pastFirstClose = true
				}
			} else if line > 1 {
				pastFirstClose = strings.Contains(string(c.Text), ")")
			}
		}
		if pastFirstClose {
			cl = append(cl, "rejected-after-first-close")
		}
	}
	if c.MustReject {
		cl = append(cl, "must-reject")
	}
	return cl, acc || pastFirstClose || c.MustReject
}

var spec = run.Spec[Case]{ID: "C06", Name: "parse", Gen: genCase, Prop: prop, Classify: classify}

func TestPropParse(t *testing.T) { run.Generated(t, spec) }
func TestRegress(t *testing.T)   { run.Regress(t, spec) }
func TestReplay(t *testing.T) {
	run.ReplayOne(t, spec)
	run.ReplayOne(t, concSpec)
}

// ---- bounded-exhaustive token sequences -----------------------------------

var alphabet = func() []string {
	var a []string
	for _, k := range []string{"POINT", "LINESTRING", "POLYGON", "MULTIPOINT", "MULTILINESTRING", "MULTIPOLYGON", "GEOMETRYCOLLECTION"} {
		for _, s := range []string{"", " Z", " M", " ZM"} {
			a = append(a, k+s)
		}
	}
	a = append(a, "EMPTY", "(", ")", ",", "1", "1 2", "1 2 3", "1 2 3 4", "1 2 3 4 5")
	return a
}()

var macros = []string{
	"(0 0, 1 0, 1 1, 0 0)", "(0 0 5, 1 0 5, 1 1 5, 0 0 5)", "(0 0 5 6, 1 0 5 6, 1 1 5 6, 0 0 5 6)",
	"(0 0, 1 1)", "(0 0 5, 1 1 5)", "(0 0 5 6, 1 1 5 6)",
}

func checkSeq(t *testing.T, text string, class string, id uint64) (acc bool, viable bool, ok bool) {
	acc, err := verdict(text, false)
	if err != nil {
		c := Case{Class: class, Text: Txt(text)}
		run.SaveReplay("C06", "parse", c, err.Error())
		t.Errorf("C06/parse exhaustive: %v\ninput: %q", err, text)
		return acc, false, false
	}
	if !acc {
		_, perr := wkt.Unmarshal(text)
		viable = perr != nil && strings.Contains(perr.Error(), "unexpected $end")
	}
	ev.Default.CaseHash(id, class, acc, func() any { return Case{Class: class, Text: Txt(text)} })
	return acc, viable, true
}

// TestExhaustiveTokens enumerates every sequence over the 37-token alphabet up
// to length 4 (quick) / 5 (thorough).
func TestExhaustiveTokens(t *testing.T) {
	maxLen := 4
	if run.Thorough() {
		maxLen = 5
	}
	shard, shards := run.Shard()
	n := len(alphabet)
	total := int64(0)
	var rec func(prefix string, depth int, code uint64) bool
	rec = func(prefix string, depth int, code uint64) bool {
		for i, tok := range alphabet {
			if depth == 0 && i%shards != shard {
				continue
			}
			text := tok
			if prefix != "" {
				text = prefix + " " + tok
			}
			c := code*uint64(n+1) + uint64(i+1)
			total++
			if _, _, ok := checkSeq(t, text, "exhaustive", c); !ok {
				return false
			}
			if depth+1 < maxLen {
				if !rec(text, depth+1, c) {
					return false
				}
			}
		}
		return true
	}
	rec("", 0, 0)
	ev.Default.ExhaustiveSpace(fmt.Sprintf("all token sequences of length 1..%d over the 37-token alphabet (this shard's share)", maxLen), total)
}

// TestExhaustiveViable extends only viable prefixes (those the parser rejects
// solely for ending too early) over the alphabet plus ring/line macro tokens,
// to length 9 (quick) / 12 (thorough).
func TestExhaustiveViable(t *testing.T) {
	maxLen := 9
	if run.Thorough() {
		maxLen = 12
	}
	shard, shards := run.Shard()
	toks := append(append([]string{}, alphabet...), macros...)
	total := int64(0)
	frontier := []string{""}
	for depth := 0; depth < maxLen; depth++ {
		var next []string
		for fi, prefix := range frontier {
			for i, tok := range toks {
				if depth == 0 && i%shards != shard {
					continue
				}
				text := tok
				if prefix != "" {
					text = prefix + " " + tok
				}
				total++
				_, viable, ok := checkSeq(t, text, "viable-guided", ev.HashBytes([]byte(text)))
				if !ok {
					return
				}
				if viable {
					next = append(next, text)
				}
			}
			_ = fi
		}
		frontier = next
		ev.Default.MaxOf(fmt.Sprintf("viable_frontier_len%02d", depth+1), float64(len(frontier)))
		if len(frontier) > 400000 {
			ev.Default.Note(fmt.Sprintf("viable frontier capped at length %d", depth+1))
			break
		}
	}
	ev.Default.Count("viable_guided_parses", total)
}

// FuzzWKT is the coverage-guided target on raw strings (thorough tier).
func FuzzWKT(f *testing.F) {
	for _, s := range []string{
		"POINT (1 2)", "POINT Z EMPTY", "MULTIPOINT M (EMPTY, 1 2 3, (4 5 6))", "POLYGON ((0 0, 1 0, 1 1, 0 0), (0 0, 1 0, 1 1, 0 0))",
		"MULTIPOLYGON ZM (EMPTY, ((0 0 1 2, 1 0 1 2, 1 1 1 2, 0 0 1 2)))", "GEOMETRYCOLLECTION M (POINT EMPTY, GEOMETRYCOLLECTION (POINT M (1 2 3)))",
		"GEOMETRYCOLLECTION (GEOMETRYCOLLECTION Z EMPTY, LINESTRING (1 2 3, 4 5 6))", "multilinestring((1e3 -2.5E-2, .5 5.))", "POINT(1 2\n3\t4 5)", "POINT\x00(", "GEOMETRYCOLLECTION M (POINT(0 0 0))",
		"POINT (1e999 -1e999)", "LINESTRING (1e308 0, 2e308 0)", "POINT (1e-999 0)",
		"SRID=4326;POINT (1 2)", "SRID=4326", "srid=1;", "'POINT (1 2)'::geometry", "\ufeffPOINT (1 2)",
	} {
		f.Add(s)
	}
	f.Fuzz(func(t *testing.T, s string) {
		if len(s) > 1<<16 {
			return
		}
		c := Case{Class: "fuzz", Text: Txt(s)}
		if err := run.Safe(func() error {
			_, err := verdict(s, false)
			return err
		}); err != nil {
			run.SaveReplay("C06", "parse", c, err.Error())
			t.Fatal(err)
		}
	})
}
