// mergehash counts the distinct 64-bit hashes in the union of sorted
// little-endian hash files (one per shard) with a k-way merge.
package main

import (
	"bufio"
	"container/heap"
	"encoding/binary"
	"fmt"
	"io"
	"os"
)

type src struct {
	r   *bufio.Reader
	cur uint64
}

type hp []*src

func (h hp) Len() int            { return len(h) }
func (h hp) Less(i, j int) bool  { return h[i].cur < h[j].cur }
func (h hp) Swap(i, j int)       { h[i], h[j] = h[j], h[i] }
func (h *hp) Push(x interface{}) { *h = append(*h, x.(*src)) }
func (h *hp) Pop() interface{} {
	old := *h
	x := old[len(old)-1]
	*h = old[:len(old)-1]
	return x
}

func (s *src) next() bool {
	var b [8]byte
	if _, err := io.ReadFull(s.r, b[:]); err != nil {
		return false
	}
	s.cur = binary.LittleEndian.Uint64(b[:])
	return true
}

func main() {
	h := &hp{}
	for _, f := range os.Args[1:] {
		fh, err := os.Open(f)
		if err != nil {
			continue
		}
		defer fh.Close()
		s := &src{r: bufio.NewReaderSize(fh, 1<<20)}
		if s.next() {
			heap.Push(h, s)
		}
	}
	var n uint64
	var last uint64
	first := true
	for h.Len() > 0 {
		s := (*h)[0]
		if first || s.cur != last {
			n++
			last = s.cur
			first = false
		}
		if s.next() {
			heap.Fix(h, 0)
		} else {
			heap.Pop(h)
		}
	}
	fmt.Println(n)
}
