// Command mutgen lists single-token mutation sites of Go source files (for
// tools/mutsweep.py): relational and arithmetic operator replacements, boolean
// connectives and constants, and small integer literals off by one.
//
//	mutgen <root> <file>...   ->  JSON lines {"file","offset","old","new","line"}
package main

import (
	"encoding/json"
	"fmt"
	"go/scanner"
	"go/token"
	"os"
	"path/filepath"
	"strconv"
)

type site struct {
	File   string `json:"file"`
	Offset int    `json:"offset"`
	Old    string `json:"old"`
	New    string `json:"new"`
	Line   int    `json:"line"`
}

var repl = map[token.Token][]string{
	token.LSS: {"<="}, token.LEQ: {"<"}, token.GTR: {">="}, token.GEQ: {">"},
	token.EQL: {"!="}, token.NEQ: {"=="},
	token.ADD: {"-"}, token.SUB: {"+"}, token.MUL: {"/"}, token.QUO: {"*"},
	token.LAND: {"||"}, token.LOR: {"&&"},
	token.ADD_ASSIGN: {"-="}, token.SUB_ASSIGN: {"+="},
	token.INC: {"--"}, token.DEC: {"++"},
}

func main() {
	root := os.Args[1]
	enc := json.NewEncoder(os.Stdout)
	for _, f := range os.Args[2:] {
		src, err := os.ReadFile(filepath.Join(root, f))
		if err != nil {
			fmt.Fprintln(os.Stderr, err)
			os.Exit(2)
		}
		fset := token.NewFileSet()
		file := fset.AddFile(f, fset.Base(), len(src))
		var s scanner.Scanner
		s.Init(file, src, nil, 0)
		prev := token.ILLEGAL
		for {
			pos, tok, lit := s.Scan()
			if tok == token.EOF {
				break
			}
			p := fset.Position(pos)
			emit := func(old, new string) {
				_ = enc.Encode(site{File: f, Offset: p.Offset, Old: old, New: new, Line: p.Line})
			}
			switch {
			case tok == token.MUL || tok == token.SUB || tok == token.ADD:
				// binary use only: the previous token ends an operand
				if prev == token.IDENT || prev == token.INT || prev == token.FLOAT || prev == token.RPAREN || prev == token.RBRACK {
					for _, n := range repl[tok] {
						emit(tok.String(), n)
					}
				}
			case repl[tok] != nil:
				for _, n := range repl[tok] {
					emit(tok.String(), n)
				}
			case tok == token.INT:
				if v, err := strconv.ParseInt(lit, 0, 64); err == nil && v >= 0 && v <= 64 {
					emit(lit, strconv.FormatInt(v+1, 10))
					if v > 0 {
						emit(lit, strconv.FormatInt(v-1, 10))
					}
				}
			case tok == token.IDENT && lit == "true":
				emit("true", "false")
			case tok == token.IDENT && lit == "false":
				emit("false", "true")
			}
			if tok != token.COMMENT {
				prev = tok
			}
		}
	}
}
