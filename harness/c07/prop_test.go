// C07: GeoJSON round-trips geometries, features and collections; decoding is total.
package c07

import (
	"bytes"
	"encoding/json"
	"fmt"
	"math"
	"reflect"
	"sort"
	"strconv"
	"strings"
	"testing"

	geom "github.com/twpayne/go-geom"
	"github.com/twpayne/go-geom/encoding/geojson"
	"pgregory.net/rapid"

	"verifharness/internal/gen"
	"verifharness/internal/model"
	"verifharness/internal/refjson"
	"verifharness/internal/run"
)

func TestMain(m *testing.M) { run.Main(m) }

// ---------------------------------------------------------------- geometries

// GCase is a geometry round trip under a drawn DefaultLayout.
type GCase struct {
	G       model.G `json:"g"`
	Default int     `json:"default"`
	Route   int     `json:"route"`
	// Poison: encodings that fail (a non-finite ordinate in a later member; a bbox of
	// nothing) precede the calls under test; they must leave nothing behind.
	Poison bool `json:"poison,omitempty"`
	// Deep: the geometry is also written and read at the bottom of this many nested
	// GeometryCollections.
	Deep int `json:"deep,omitempty"`
}

var jsonLayouts = []geom.Layout{geom.XY, geom.XYZ, geom.XYZM, geom.XYM, geom.Layout(5), geom.Layout(6), geom.Layout(7), geom.XY, geom.XYZ}

func genG(t *rapid.T, depth int) *model.G {
	return gen.Tree(t, gen.TreeOpts{
		Layouts: jsonLayouts, Floats: gen.Finite, MaxDepth: depth, MaxParts: 3, MaxPts: 4, MixLayouts: true, PEmpty: 15, LongPct: 1, LongMax: 200, SRID: gen.SRIDs,
	})
}

func genGCase(t *rapid.T) GCase {
	c := GCase{
		G:       *genG(t, 3),
		Default: int(rapid.SampledFrom([]geom.Layout{geom.XY, geom.XY, geom.XYZ}).Draw(t, "default")),
		Route:   rapid.IntRange(0, int(model.NumRoutes)-1).Draw(t, "route"),
		Poison:  rapid.IntRange(0, 3).Draw(t, "poison") == 0,
		Deep:    rapid.SampledFrom([]int{0, 0, 0, 0, 0, 0, 0, 0, 0, 0, 0, 0, 0, 0, 0, 0, 0, 0, 0, 0, 0, 0, 0, 0, 0, 0, 0, 0, 0, 0, 5, 16, 31, 32, 33, 64, 65, 130, 257}).Draw(t, "deep"),
	}
	// a thousand levels once in a thousand cases (the decoder looks at every level's
	// text again for each level above it: a tower of 1030 costs some 50 ms per decode)
	if rapid.IntRange(0, 999).Draw(t, "verydeep") == 517 {
		c.Deep = rapid.SampledFrom([]int{1000, 1030}).Draw(t, "verydeepn")
	}
	return c
}

// firstComponentEmpty mirrors what "the layout is inferred from the first
// position" means for a non-empty geometry: the first ring / line / polygon
// (recursively its first ring) holds no position.
func firstComponentEmpty(g *model.G) bool {
	switch g.Kind {
	case model.Polygon, model.MultiLineString:
		return len(g.C2) > 0 && len(g.C2[0]) == 0
	case model.MultiPolygon:
		return len(g.C3) > 0 && (len(g.C3[0]) == 0 || len(g.C3[0][0]) == 0)
	case model.MultiPoint:
		return len(g.C1) > 0 && g.C1[0] == nil
	}
	return false
}

func hasEmptyMultiPointMember(g *model.G) bool {
	if g.Kind != model.MultiPoint {
		return false
	}
	for _, c := range g.C1 {
		if c == nil {
			return true
		}
	}
	return false
}

// roundTrippable reports whether the whole tree is inside the round-trip claim
// and returns the expected model (carve-outs applied).
func expected(g *model.G, def geom.Layout) (*model.G, bool) {
	e := *g
	if g.IsCollection() {
		e.Layout = 0
		e.Members = make([]model.G, len(g.Members))
		for i := range g.Members {
			m, ok := expected(&g.Members[i], def)
			if !ok {
				return nil, false
			}
			e.Members[i] = *m
		}
		return &e, true
	}
	if hasEmptyMultiPointMember(g) {
		return nil, false
	}
	l := g.Lay()
	if l == geom.XYM {
		l = geom.XYZ // XYM is not representable: three numbers read back as XYZ
	}
	switch {
	case g.Empty():
		l = def
	case firstComponentEmpty(g) && l != def:
		return nil, false
	}
	e.Layout = int(l)
	return &e, true
}

func withDefault(def geom.Layout, f func() error) error {
	old := geojson.DefaultLayout
	geojson.DefaultLayout = def
	defer func() { geojson.DefaultLayout = old }()
	return f()
}

func propG(c GCase) error {
	return withDefault(geom.Layout(c.Default), func() error {
		g := &c.G
		t, err := model.Build(g, model.Route(c.Route))
		if err != nil {
			return fmt.Errorf("build: %v", err)
		}
		if c.Poison {
			bad := geom.NewGeometryCollection()
			if err := bad.Push(geom.NewPointFlat(geom.XY, []float64{1, 2}), geom.NewLineStringFlat(geom.XYZ, []float64{1, 2, 3, 4, math.Inf(1), 6})); err != nil {
				return fmt.Errorf("harness: cannot build the unencodable collection: %v", err)
			}
			for _, opts := range [][]geojson.EncodeGeometryOption{nil, {geojson.EncodeGeometryWithMaxDecimalDigits(3)}, {geojson.EncodeGeometryWithBBox()}} {
				var b []byte
				var merr error
				if err := run.Safe(func() error { b, merr = geojson.Marshal(bad, opts...); return nil }); err != nil {
					return fmt.Errorf("geojson.Marshal of a collection with an infinite ordinate: %v", err)
				}
				if merr == nil && !json.Valid(b) {
					return fmt.Errorf("geojson.Marshal of a collection with an infinite ordinate emitted invalid JSON without an error: %s", b)
				}
			}
			// a bounding box of nothing: an error or valid JSON, never a panic
			var b []byte
			var merr error
			if err := run.Safe(func() error {
				b, merr = geojson.Marshal(geom.NewLineString(geom.XY), geojson.EncodeGeometryWithBBox())
				return nil
			}); err != nil {
				return fmt.Errorf("geojson.Marshal of an empty line string with a bbox: %v", err)
			}
			if merr == nil && !json.Valid(b) {
				return fmt.Errorf("geojson.Marshal of an empty line string with a bbox emitted invalid JSON without an error: %s", b)
			}
		}
		data, err := geojson.Marshal(t)
		if err != nil {
			return fmt.Errorf("geojson.Marshal: %v", err)
		}
		if !json.Valid(data) {
			return fmt.Errorf("Marshal emitted invalid JSON: %s", data)
		}
		// what Encode returned stays what it was across another encoding
		kept, err := geojson.Encode(t)
		if err != nil {
			return fmt.Errorf("geojson.Encode: %v", err)
		}
		if _, err := geojson.Marshal(geom.NewLineStringFlat(geom.XY, []float64{123456.789, -98765.4321, 0.5, 1e-7}), geojson.EncodeGeometryWithBBox()); err != nil {
			return fmt.Errorf("geojson.Marshal of an ordinary line string: %v", err)
		}
		if keptData, err := json.Marshal(kept); err != nil || !bytes.Equal(keptData, data) {
			return fmt.Errorf("the *Geometry returned by geojson.Encode, marshalled after another encoding: %s, %v; Marshal gave %s", clip(string(keptData)), err, clip(string(data)))
		}
		// ... and it is the caller's: written over (the raw coordinates in place, then every
		// field), it leaves nothing behind for the next encoding of the same or of an EMPTY
		// geometry
		scrawl := func(gg *geojson.Geometry) {
			if gg == nil {
				return
			}
			if gg.Coordinates != nil {
				for i := range *gg.Coordinates {
					(*gg.Coordinates)[i] = '7'
				}
				*gg.Coordinates = append(*gg.Coordinates, "77"...)
			}
			if gg.Geometries != nil {
				for i := range *gg.Geometries {
					(*gg.Geometries)[i] = '7'
				}
			}
			if gg.BBox != nil {
				*gg.BBox = json.RawMessage("[7]")
			}
			gg.Type = "Scrawl"
		}
		scrawl(kept)
		for _, e := range []geom.T{geom.NewPointEmpty(geom.XY), geom.NewLineString(geom.XYZ), geom.NewPolygon(geom.XY), geom.NewMultiPoint(geom.XY), geom.NewGeometryCollection()} {
			if eg, err := geojson.Encode(e); err == nil {
				scrawl(eg)
			}
		}
		if again, err := geojson.Marshal(t); err != nil || !bytes.Equal(again, data) {
			return fmt.Errorf("geojson.Marshal after the caller wrote over the *Geometry values returned by earlier Encode calls: %s, %v; want %s", clip(string(again)), err, clip(string(data)))
		}
		for _, e := range []struct {
			t    geom.T
			want string
		}{{geom.NewLineString(geom.XY), `{"type":"LineString","coordinates":[]}`}, {geom.NewMultiPoint(geom.XY), `{"type":"MultiPoint","coordinates":[]}`}, {geom.NewPolygon(geom.XY), `{"type":"Polygon","coordinates":[]}`}} {
			if eb, err := geojson.Marshal(e.t); err != nil || string(eb) != e.want {
				return fmt.Errorf("geojson.Marshal of a new %T after the caller wrote over earlier Encode results: %s, %v; want %s", e.t, eb, err, e.want)
			}
		}
		// decoding is total on whatever was emitted
		var back geom.T
		var derr error
		if err := run.Bounded(func() error { derr = geojson.Unmarshal(data, &back); return nil }); err != nil {
			return fmt.Errorf("geojson.Unmarshal: %v\n%s", err, data)
		}
		exp, ok := expected(g, geom.Layout(c.Default))
		if !ok {
			if derr == nil && back != nil {
				if err := model.WellFormed(back); err != nil {
					return fmt.Errorf("decoded geometry not well formed: %v", err)
				}
			}
			return nil
		}
		// independent reader: same type, nesting and numbers
		rg, err := refjson.Parse(data)
		if err != nil {
			return fmt.Errorf("reference reader rejects %s: %v", data, err)
		}
		rm, err := rg.Model()
		if err != nil {
			return fmt.Errorf("reference reader cannot interpret %s: %v", data, err)
		}
		if d := model.DiffOpt(exp, rm, false, false); d != "" {
			return fmt.Errorf("reference reader understands %s differently: %s", clip(string(data)), d)
		}
		if derr != nil {
			return fmt.Errorf("geojson.Unmarshal(Marshal(g)) failed: %v\n%s", derr, clip(string(data)))
		}
		bm, err := model.FromGeom(back)
		if err != nil {
			return fmt.Errorf("decoded geometry not well formed: %v", err)
		}
		// collections carry no layout in GeoJSON: compare members' layouts only
		if d := diffJSON(exp, bm); d != "" {
			return fmt.Errorf("round trip differs: %s\n%s", d, clip(string(data)))
		}
		// the bytes returned belong to the caller: overwritten, they must not come back
		{
			mine := append([]byte(nil), data...)
			first, err := geojson.Marshal(t)
			if err != nil {
				return fmt.Errorf("geojson.Marshal: %v", err)
			}
			for i := range first {
				first[i] = '#'
			}
			if again, err := geojson.Marshal(t); err != nil || !bytes.Equal(again, mine) {
				return fmt.Errorf("geojson.Marshal after the caller overwrote the slice returned by an earlier Marshal: %s, %v; want %s", clip(string(again)), err, clip(string(mine)))
			}
		}
		// the decoded geometry owns its coordinates: the caller overwrites the byte slice it
		// handed over and the geometry stays what it was
		{
			buf := append([]byte(nil), data...)
			var dg geom.T
			if err := geojson.Unmarshal(buf, &dg); err != nil {
				return fmt.Errorf("geojson.Unmarshal of a copy of the document: %v", err)
			}
			for i := range buf {
				buf[i] = '#'
			}
			dm, err := model.FromGeom(dg)
			if err != nil {
				return fmt.Errorf("decoded geometry not well formed: %v", err)
			}
			if d := diffJSON(exp, dm); d != "" {
				return fmt.Errorf("the geometry returned by geojson.Unmarshal changed when the caller overwrote the bytes it was decoded from: %s", d)
			}
		}
		// what Unmarshal returned is the caller's: another document decoded afterwards changes nothing in it
		for _, o := range []string{`{"type":"LineString","coordinates":[[1,2,3],[4,5,6],[7,8,9]]}`, `{"type":"MultiPolygon","coordinates":[[[[0,0],[9,0],[9,9],[0,0]]]]}`, `{"type":"Point","coordinates":[7,7]}`,
			// values without coordinates (the ones an implementation is tempted to share)
			`{"type":"GeometryCollection","geometries":[]}`, `{"type":"Point","coordinates":[]}`, `{"type":"MultiPoint","coordinates":[]}`, `{"type":"LineString","coordinates":[]}`, `{"type":"Polygon","coordinates":[]}`, `{"type":"MultiPolygon","coordinates":[]}`,
			`{"type":"GeometryCollection","geometries":[{"type":"GeometryCollection","geometries":[]},{"type":"Point","coordinates":[1,2,3]}]}`} {
			var og geom.T
			_ = geojson.Unmarshal([]byte(o), &og)
		}
		// ... nor a sibling of the case itself (same structure and emptiness, other ordinates)
		if sg, err := model.Build(g.Mapped(func(x float64) float64 { return 2*x + 1 }), model.RouteFlat); err == nil {
			if sb, err := geojson.Marshal(sg); err == nil {
				for i := 0; i < 2; i++ {
					// (the first time into a variable that still holds the earlier result, as a
					// loop with one variable does: the variable is replaced, not what it held)
					var og geom.T
					if i == 0 {
						og = back
					}
					_ = geojson.Unmarshal(sb, &og)
				}
			}
		}
		bmAgain, err := model.FromGeom(back)
		if err != nil {
			return fmt.Errorf("the geometry returned by geojson.Unmarshal is ill formed after later decodes: %v", err)
		}
		if d := diffJSON(exp, bmAgain); d != "" {
			return fmt.Errorf("the geometry returned by geojson.Unmarshal changed when other documents were decoded afterwards: %s", d)
		}
		// ... and the caller may do to it what it likes: every ordinate overwritten, EMPTY
		// points given coordinates, SRIDs changed; the same document decodes as before
		model.Spoil(back)
		var again geom.T
		if err := geojson.Unmarshal(data, &again); err != nil {
			return fmt.Errorf("geojson.Unmarshal of the same document after the caller overwrote the geometry decoded from it before: %v", err)
		}
		am, err := model.FromGeom(again)
		if err != nil {
			return fmt.Errorf("decoded again after the caller overwrote the earlier result: %v", err)
		}
		if d := diffJSON(exp, am); d != "" {
			return fmt.Errorf("the same document decodes differently after the caller overwrote the geometry decoded from it before: %s", d)
		}
		// the geometry at the bottom of a tower of nested collections
		if c.Deep > 0 {
			var top geom.T = t
			gm := g.Clone()
			ok := true
			for i := 0; i < c.Deep && ok; i++ {
				w := geom.NewGeometryCollection()
				ok = w.Push(top) == nil
				top = w
				gm = &model.G{Kind: model.GeometryCollection, Members: []model.G{*gm}}
			}
			if expD, okD := expected(gm, geom.Layout(c.Default)); ok && okD {
				dataD, err := geojson.Marshal(top)
				if err != nil {
					return fmt.Errorf("geojson.Marshal of %d nested collections: %v", c.Deep, err)
				}
				var backD geom.T
				if err := geojson.Unmarshal(dataD, &backD); err != nil {
					return fmt.Errorf("geojson.Unmarshal of %d nested collections: %v", c.Deep, err)
				}
				bmD, err := model.FromGeom(backD)
				if err != nil {
					return fmt.Errorf("decoded geometry not well formed: %v", err)
				}
				if d := diffJSON(expD, bmD); d != "" {
					return fmt.Errorf("round trip of %d nested collections differs: %s", c.Deep, d)
				}
			}
		}
		// the same geometry object as a member in several places of a collection tree
		// (a value, not a cycle): GEOMETRYCOLLECTION(g, GEOMETRYCOLLECTION(g), g)
		inner := geom.NewGeometryCollection()
		outer := geom.NewGeometryCollection()
		if inner.Push(t) == nil && outer.Push(t, inner, t) == nil {
			gm := &model.G{Kind: model.GeometryCollection, Members: []model.G{*g, {Kind: model.GeometryCollection, Members: []model.G{*g}}, *g}}
			if exp2, ok := expected(gm, geom.Layout(c.Default)); ok {
				data2, err := geojson.Marshal(outer)
				if err != nil {
					return fmt.Errorf("geojson.Marshal of a collection holding the same object three times: %v", err)
				}
				var back2 geom.T
				if err := geojson.Unmarshal(data2, &back2); err != nil {
					return fmt.Errorf("geojson.Unmarshal of a collection holding the same object three times: %v\n%s", err, clip(string(data2)))
				}
				bm2, err := model.FromGeom(back2)
				if err != nil {
					return fmt.Errorf("decoded geometry not well formed: %v", err)
				}
				if d := diffJSON(exp2, bm2); d != "" {
					return fmt.Errorf("round trip of a collection holding the same object three times differs: %s\n%s", d, clip(string(data2)))
				}
			}
		}
		// the document is that of the coordinates as they are now: x and y of every
		// coordinate exchanged in place, the same object marshalled again - the bytes are
		// those of a geometry built anew from the exchanged coordinates
		if model.SwapXY(model.Leaves(t)) {
			fresh, err := model.Build(g.SwappedXY(), model.RouteSetCoords)
			if err != nil {
				return fmt.Errorf("build of the exchanged geometry: %v", err)
			}
			want, err1 := geojson.Marshal(fresh)
			got, err2 := geojson.Marshal(t)
			if (err1 == nil) != (err2 == nil) || !bytes.Equal(want, got) {
				return fmt.Errorf("geojson.Marshal after x and y were exchanged in place: %s, %v; the exchanged coordinates built anew give %s, %v", clip(string(got)), err2, clip(string(want)), err1)
			}
		}
		return nil
	})
}

func diffJSON(want, got *model.G) string {
	if want.IsCollection() && got.IsCollection() {
		if len(want.Members) != len(got.Members) {
			return fmt.Sprintf("collection: %d members != %d", len(got.Members), len(want.Members))
		}
		for i := range want.Members {
			if d := diffJSON(&want.Members[i], &got.Members[i]); d != "" {
				return fmt.Sprintf("member %d: %s", i, d)
			}
		}
		return ""
	}
	return model.Diff(want, got, false)
}

func clip(s string) string {
	if len(s) > 500 {
		return s[:500] + "..."
	}
	return s
}

func classifyG(c GCase) ([]string, bool) {
	g := &c.G
	cl := []string{"kind:" + g.Kind}
	_, ok := expected(g, geom.Layout(c.Default))
	if !ok {
		return append(cl, "outside-round-trip-claim"), false
	}
	nt := false
	if g.Depth() >= 2 {
		cl = append(cl, "nested-collection")
		nt = true
	}
	ls := map[geom.Layout]bool{}
	g.Walk(func(x *model.G) {
		if !x.IsCollection() {
			ls[x.Lay()] = true
		}
	})
	for l := range ls {
		if l != geom.XY {
			nt = true
		}
	}
	if ls[geom.XYM] {
		cl = append(cl, "has-XYM")
	}
	if ls[geom.Layout(5)] || ls[geom.Layout(6)] || ls[geom.Layout(7)] {
		cl = append(cl, "has-Layout(n>4)")
	}
	if g.Empty() {
		cl = append(cl, "empty")
	}
	return cl, nt
}

var gSpec = run.Spec[GCase]{ID: "C07", Name: "geometry", Gen: genGCase, Prop: propG, Classify: classifyG}

// ------------------------------------------------------------------ features

// Box is a bbox of 4 or 6 numbers.
type Box struct {
	Min []model.F `json:"min"`
	Max []model.F `json:"max"`
}

// Feat is a generated feature.
type Feat struct {
	ID    string          `json:"id"`
	BBox  *Box            `json:"bbox,omitempty"`
	Geom  *model.G        `json:"geom,omitempty"`
	Props json.RawMessage `json:"props,omitempty"` // "null" or an object
}

// FCase is a feature or a feature collection round trip.
type FCase struct {
	Collection bool   `json:"collection"`
	NilFeats   bool   `json:"nilFeatures,omitempty"`
	BBox       *Box   `json:"bbox,omitempty"`
	Feats      []Feat `json:"feats"`
}

func genBox(t *rapid.T) *Box {
	if rapid.IntRange(0, 2).Draw(t, "nobbox") == 0 {
		return nil
	}
	n := rapid.SampledFrom([]int{2, 3}).Draw(t, "bboxdims")
	b := &Box{}
	for i := 0; i < n; i++ {
		lo := gen.Float(t, gen.SmallInt|gen.Moderate|gen.Decimalish).V()
		hi := lo + float64(rapid.IntRange(0, 9).Draw(t, "ext"))
		b.Min = append(b.Min, model.Of(lo))
		b.Max = append(b.Max, model.Of(hi))
	}
	// RFC 7946 5.2: a box crossing the antimeridian has its west edge greater than
	// its east edge; the four/six numbers must come back in the positions they had
	if rapid.IntRange(0, 3).Draw(t, "antimeridian") == 0 {
		b.Min[0], b.Max[0] = b.Max[0], b.Min[0]
	}
	return b
}

// jsonKey draws a member name: one time in three a name that GeoJSON itself gives a
// meaning elsewhere in the document (a property called "id" is just a property).
func jsonKey(t *rapid.T, pattern string) string {
	if rapid.IntRange(0, 2).Draw(t, "reserved") == 0 {
		return rapid.SampledFrom([]string{"id", "id", "ID", "type", "bbox", "geometry", "properties", "features", "coordinates", "geometries", "crs", "name", ""}).Draw(t, "rkey")
	}
	if rapid.IntRange(0, 3).Draw(t, "anykey") == 0 {
		return jsonString(t, "keyany")
	}
	return rapid.StringMatching(pattern).Draw(t, "key")
}

func genJSONValue(t *rapid.T, depth int) any {
	k := rapid.IntRange(0, 6).Draw(t, "jkind")
	if depth <= 0 && k >= 5 {
		k = 0
	}
	switch k {
	case 0:
		if rapid.IntRange(0, 2).Draw(t, "jstrany") == 0 {
			return jsonString(t, "jstrv")
		}
		return rapid.StringMatching(`[ -~]{0,8}`).Draw(t, "jstr")
	case 1:
		return float64(rapid.IntRange(-1000, 1000).Draw(t, "jint"))
	case 2:
		return gen.Float(t, gen.Moderate|gen.Decimalish).V()
	case 3:
		return rapid.Bool().Draw(t, "jbool")
	case 4:
		return nil
	case 5:
		n := rapid.IntRange(0, 3).Draw(t, "jarr")
		a := make([]any, n)
		for i := range a {
			a[i] = genJSONValue(t, depth-1)
		}
		return a
	default:
		n := rapid.IntRange(0, 3).Draw(t, "jobj")
		m := map[string]any{}
		for i := 0; i < n; i++ {
			m[jsonKey(t, `[a-z]{1,4}`)] = genJSONValue(t, depth-1)
		}
		return m
	}
}

// jsonString draws a string of 0..8 characters of every class a JSON writer treats
// differently: printable ASCII, the characters with short escapes, the other C0
// controls and DEL, quote, backslash and slash, the ones an HTML-safe writer escapes,
// the line separators, Latin-1, other BMP characters, and characters beyond the BMP
// (printable and not). Always valid UTF-8 (anything else is replaced when written).
func jsonString(t *rapid.T, label string) string {
	classes := [][]rune{
		[]rune("aZ09 _-"), []rune("\b\t\n\f\r"), {0, 1, 7, 0x0b, 0x1b, 0x1f, 0x7f}, []rune(`"\/`), []rune("<>&"),
		{0x2028, 0x2029, 0x85, 0xa0}, []rune("üéß"), {0x0416, 0x4e2d, 0xfffd, 0xfeff, 0xd7ff, 0xe000}, {0x1f600, 0x10000, 0xe0001, 0x10ffff},
	}
	n := rapid.IntRange(0, 8).Draw(t, label+"len")
	var sb strings.Builder
	for i := 0; i < n; i++ {
		cl := classes[rapid.IntRange(0, len(classes)-1).Draw(t, label+"class")]
		sb.WriteRune(cl[rapid.IntRange(0, len(cl)-1).Draw(t, label+"rune")])
	}
	return sb.String()
}

func genFeat(t *rapid.T) Feat {
	f := Feat{ID: rapid.SampledFrom([]string{"", "a", "0", "17", "-1.5", "id with space", "null", "ü"}).Draw(t, "id"), BBox: genBox(t)}
	switch rapid.IntRange(0, 7).Draw(t, "randid") {
	case 0:
		f.ID = rapid.StringMatching(`[ -~]{0,10}`).Draw(t, "idstr")
	case 1, 2:
		f.ID = jsonString(t, "idany")
	}
	if rapid.IntRange(0, 3).Draw(t, "nogeom") != 0 {
		for {
			g := genG(t, 2)
			if _, ok := expected(g, geom.XY); ok {
				f.Geom = g
				break
			}
		}
	}
	switch rapid.IntRange(0, 2).Draw(t, "propclass") {
	case 0:
		f.Props = json.RawMessage("null")
	case 1:
		f.Props = json.RawMessage("{}")
	default:
		m := map[string]any{}
		n := rapid.IntRange(1, 4).Draw(t, "nprops")
		for i := 0; i < n; i++ {
			m[jsonKey(t, `[a-zA-Z_]{1,6}`)] = genJSONValue(t, 2)
		}
		b, _ := json.Marshal(m)
		f.Props = b
	}
	return f
}

func genFCase(t *rapid.T) FCase {
	c := FCase{Collection: rapid.Bool().Draw(t, "collection")}
	if !c.Collection {
		c.Feats = []Feat{genFeat(t)}
		return c
	}
	c.BBox = genBox(t)
	n := rapid.IntRange(0, 4).Draw(t, "nfeats")
	if n == 0 {
		c.NilFeats = rapid.Bool().Draw(t, "nilfeats")
	}
	for i := 0; i < n; i++ {
		c.Feats = append(c.Feats, genFeat(t))
	}
	return c
}

func buildBounds(b *Box) *geom.Bounds {
	if b == nil {
		return nil
	}
	l := geom.XY
	if len(b.Min) == 3 {
		l = geom.XYZ
	}
	return geom.NewBounds(l).Set(append(model.Floats(b.Min), model.Floats(b.Max)...)...)
}

func buildFeature(f Feat) (*geojson.Feature, error) {
	out := &geojson.Feature{ID: f.ID, BBox: buildBounds(f.BBox)}
	if f.Geom != nil {
		t, err := model.Build(f.Geom, model.RouteSetCoords)
		if err != nil {
			return nil, err
		}
		out.Geometry = t
	}
	if string(f.Props) != "null" && f.Props != nil {
		if err := json.Unmarshal(f.Props, &out.Properties); err != nil {
			return nil, err
		}
	}
	return out, nil
}

func sameBounds(what string, want *Box, got *geom.Bounds) error {
	if want == nil {
		if got != nil {
			return fmt.Errorf("%s: bbox appeared: %v", what, got)
		}
		return nil
	}
	if got == nil {
		return fmt.Errorf("%s: bbox lost", what)
	}
	n := len(want.Min)
	if got.Layout().Stride() != n {
		return fmt.Errorf("%s: bbox layout %v, want %d dimensions", what, got.Layout(), n)
	}
	for i := 0; i < n; i++ {
		if got.Min(i) != want.Min[i].V() || got.Max(i) != want.Max[i].V() {
			return fmt.Errorf("%s: bbox dimension %d = [%v,%v], want [%v,%v]", what, i, got.Min(i), got.Max(i), want.Min[i].V(), want.Max[i].V())
		}
	}
	return nil
}

func sameFeature(what string, want Feat, got *geojson.Feature) error {
	if got == nil {
		return fmt.Errorf("%s: nil feature", what)
	}
	if got.ID != want.ID {
		return fmt.Errorf("%s: id %q, want %q", what, got.ID, want.ID)
	}
	if err := sameBounds(what, want.BBox, got.BBox); err != nil {
		return err
	}
	if want.Geom == nil {
		if got.Geometry != nil {
			return fmt.Errorf("%s: null geometry came back as %T", what, got.Geometry)
		}
	} else {
		if got.Geometry == nil {
			return fmt.Errorf("%s: geometry lost", what)
		}
		exp, _ := expected(want.Geom, geom.XY)
		gm, err := model.FromGeom(got.Geometry)
		if err != nil {
			return fmt.Errorf("%s: geometry not well formed: %v", what, err)
		}
		if d := diffJSON(exp, gm); d != "" {
			return fmt.Errorf("%s: geometry differs: %s", what, d)
		}
	}
	var wantProps map[string]any
	if string(want.Props) != "null" && want.Props != nil {
		_ = json.Unmarshal(want.Props, &wantProps)
	}
	if (wantProps == nil) != (got.Properties == nil) {
		return fmt.Errorf("%s: properties nil-ness changed: want %v got %v", what, wantProps, got.Properties)
	}
	if !reflect.DeepEqual(wantProps, got.Properties) {
		return fmt.Errorf("%s: properties %v, want %v", what, got.Properties, wantProps)
	}
	return nil
}

func propF(c FCase) error {
	return withDefault(geom.XY, func() error {
		if !c.Collection {
			f, err := buildFeature(c.Feats[0])
			if err != nil {
				return fmt.Errorf("build: %v", err)
			}
			data, err := json.Marshal(f)
			if err != nil {
				return fmt.Errorf("marshal feature: %v", err)
			}
			var back geojson.Feature
			if err := json.Unmarshal(data, &back); err != nil {
				return fmt.Errorf("unmarshal feature: %v\n%s", err, clip(string(data)))
			}
			if err := sameFeature("feature", c.Feats[0], &back); err != nil {
				return fmt.Errorf("%v\n%s", err, clip(string(data)))
			}
			// a numeric id on the wire reads back as its decimal string
			return numericID(data)
		}
		fc := &geojson.FeatureCollection{BBox: buildBounds(c.BBox)}
		if !c.NilFeats {
			fc.Features = []*geojson.Feature{}
		}
		for _, ft := range c.Feats {
			f, err := buildFeature(ft)
			if err != nil {
				return fmt.Errorf("build: %v", err)
			}
			fc.Features = append(fc.Features, f)
		}
		data, err := json.Marshal(fc)
		if err != nil {
			return fmt.Errorf("marshal collection: %v", err)
		}
		var doc map[string]any
		if err := json.Unmarshal(data, &doc); err != nil || doc["type"] != "FeatureCollection" {
			return fmt.Errorf("collection JSON %s: %v", clip(string(data)), err)
		}
		if _, ok := doc["features"].([]any); !ok {
			return fmt.Errorf("\"features\" is not an array in %s", clip(string(data)))
		}
		var back geojson.FeatureCollection
		if err := json.Unmarshal(data, &back); err != nil {
			return fmt.Errorf("unmarshal collection: %v\n%s", err, clip(string(data)))
		}
		if err := sameBounds("collection", c.BBox, back.BBox); err != nil {
			return err
		}
		if len(back.Features) != len(c.Feats) {
			return fmt.Errorf("%d features, want %d", len(back.Features), len(c.Feats))
		}
		for i := range c.Feats {
			if err := sameFeature(fmt.Sprintf("feature %d", i), c.Feats[i], back.Features[i]); err != nil {
				return fmt.Errorf("%v\n%s", err, clip(string(data)))
			}
		}
		// the same destination value decoded into a second time (a caller that polls a
		// service into one variable): the features are those of the second document
		var reused geojson.FeatureCollection
		const first = `{"type":"FeatureCollection","bbox":[-1,-2,3,4],"features":[` +
			`{"type":"Feature","id":"old-0","bbox":[0,0,1,1],"geometry":{"type":"Point","coordinates":[1,2]},"properties":{"a":1}},` +
			`{"type":"Feature","id":"old-1","bbox":[5,5,6,6],"geometry":{"type":"Point","coordinates":[3,4]},"properties":{"b":2}},` +
			`{"type":"Feature","id":"old-2","bbox":[7,7,8,8],"geometry":null,"properties":null},` +
			`{"type":"Feature","id":"old-3","geometry":{"type":"LineString","coordinates":[[0,0],[1,1]]},"properties":{}}]}`
		if err := json.Unmarshal([]byte(first), &reused); err != nil {
			return fmt.Errorf("unmarshal of a plain feature collection: %v", err)
		}
		kept := reused.Features // what the caller got the first time stays what it was
		keptIDs := make([]string, len(kept))
		for i, f := range kept {
			keptIDs[i] = f.ID
		}
		if err := json.Unmarshal(data, &reused); err != nil {
			return fmt.Errorf("unmarshal collection into a value used before: %v\n%s", err, clip(string(data)))
		}
		if len(reused.Features) != len(c.Feats) {
			return fmt.Errorf("into a value used before: %d features, want %d", len(reused.Features), len(c.Feats))
		}
		for i := range c.Feats {
			if err := sameFeature(fmt.Sprintf("into a value used before: feature %d", i), c.Feats[i], reused.Features[i]); err != nil {
				return fmt.Errorf("%v\n%s", err, clip(string(data)))
			}
		}
		for i, f := range kept {
			if f.ID != keptIDs[i] {
				return fmt.Errorf("feature %d kept from the first decode changed its id from %q to %q when the collection value was decoded into again", i, keptIDs[i], f.ID)
			}
		}
		return nil
	})
}

// numericID rewrites the document with a numeric id and decodes it.
func numericID(data []byte) error {
	var doc map[string]json.RawMessage
	if err := json.Unmarshal(data, &doc); err != nil {
		return err
	}
	for _, lit := range []string{"0", "17", "-3", "2.5", "1e3", "12345678901234567890", "1e-7"} {
		doc["id"] = json.RawMessage(lit)
		b, _ := json.Marshal(doc)
		var f geojson.Feature
		if err := json.Unmarshal(b, &f); err != nil {
			return fmt.Errorf("feature with numeric id %s: %v", lit, err)
		}
		want, _ := strconv.ParseFloat(lit, 64)
		got, err := strconv.ParseFloat(f.ID, 64)
		if err != nil || got != want {
			return fmt.Errorf("numeric id %s read back as %q", lit, f.ID)
		}
	}
	return nil
}

func classifyF(c FCase) ([]string, bool) {
	cl := []string{}
	if c.Collection {
		cl = append(cl, "collection")
	} else {
		cl = append(cl, "feature")
	}
	nt := false
	for _, f := range c.Feats {
		n := 0
		if f.ID != "" {
			n++
		}
		if f.BBox != nil {
			n++
		}
		if len(f.Props) > 4 {
			n++
		}
		if n >= 2 {
			nt = true
		}
		if f.Geom == nil {
			cl = append(cl, "null-geometry")
		}
	}
	return cl, nt
}

var fSpec = run.Spec[FCase]{ID: "C07", Name: "feature", Gen: genFCase, Prop: propF, Classify: classifyF}

// ------------------------------------------------------------------ decoding

// DCase is an arbitrary JSON document handed to the three decoders.
type DCase struct {
	Class string `json:"class"`
	Data  []byte `json:"data"`
}

// positions of 258 and 65538 numbers: counts at which an 8- or 16-bit counter reads 2
var (
	pos258   = "[" + strings.TrimSuffix(strings.Repeat("1,", 258), ",") + "]"
	pos65538 = "[" + strings.TrimSuffix(strings.Repeat("1,", 65538), ",") + "]"
)

var junkValues = []string{pos258, "[" + pos258 + "," + pos258 + "]", pos65538, `null`, `1`, `"x"`, `[]`, `[[]]`, `[1]`, `[1,2]`, `[1,2,3,4,5]`, `[[1,2],[3]]`, `[[1,2],[3,4,5]]`, `[[[1,2]]]`, `[[[[[[1,2]]]]]]`, `{}`, `[null]`, `[[null]]`, `[1,"2"]`, `true`, `[1e999,2]`, `[[1,2],null]`, `{"type":"Point"}`, `[{"type":"Point","coordinates":[1,2]},null]`}

// genCRS draws a legacy GeoJSON "crs" member: the named and linked forms of the
// 2008 specification with names in the short, URN and URL notations, complete and
// cut short, and members of the wrong JSON type.
func genCRS(t *rapid.T) json.RawMessage {
	q := func(s string) string { return strconv.Quote(s) }
	name := rapid.SampledFrom([]string{"", "EPSG:", "epsg:", "EPSG", "urn:ogc:def:crs:", "urn:ogc:def:crs:EPSG", "urn:ogc:def:crs:EPSG:", "urn:ogc:def:crs:EPSG::", "urn:ogc:def:crs:EPSG:6.6:", "urn:ogc:def:crs:epsg::", "urn:ogc:def:crs:OGC:1.3:", "urn:ogc:def:crs:OGC::", "urn:ogc:def:", "urn:", "http://www.opengis.net/def/crs/EPSG/0/", ":", "::"}).Draw(t, "crsprefix") +
		rapid.SampledFrom([]string{"4326", "4326", "", "CRS84", "0", "-1", "+4326", "99999999999999999999", "3857x", ":", "::4326", "4326:", " 4326", "4326.0", "1e3"}).Draw(t, "crscode")
	nameVal := q(name)
	if rapid.IntRange(0, 5).Draw(t, "crsnametype") == 0 {
		nameVal = rapid.SampledFrom([]string{"null", "4326", "[\"EPSG:4326\"]", "{\"name\":\"EPSG:4326\"}", "true", "4326.5"}).Draw(t, "crsnameval")
	}
	props := rapid.SampledFrom([]string{
		`{"name":%s}`, `{"name":%s}`, `{"name":%s}`, `{"name":%s,"name2":1}`, `{"href":%s,"type":"proj4"}`, `{"code":%s}`, `{"Name":%s}`, `{}`, `null`, `[%s]`, `%s`,
	}).Draw(t, "crsprops")
	if strings.Contains(props, "%s") {
		props = strings.Replace(props, "%s", nameVal, 1)
	}
	typ := rapid.SampledFrom([]string{`"name"`, `"name"`, `"name"`, `"link"`, `"EPSG"`, `"Name"`, `""`, `null`, `1`}).Draw(t, "crstype")
	switch rapid.IntRange(0, 7).Draw(t, "crsform") {
	case 0:
		return json.RawMessage(`{"type":` + typ + `}`)
	case 1:
		return json.RawMessage(`{"properties":` + props + `}`)
	}
	return json.RawMessage(`{"type":` + typ + `,"properties":` + props + `}`)
}

// genBigCollection: a GeometryCollection or FeatureCollection of 60-300 small
// members, none to three of them unusable (null, a type without coordinates, a
// wrong type, a wrong JSON type) at drawn positions.
func genBigCollection(t *rapid.T) DCase {
	n := rapid.SampledFrom([]int{60, 63, 64, 65, 100, 127, 128, 129, 200, 256, 257, 300}).Draw(t, "bign")
	if rapid.Bool().Draw(t, "bignany") {
		n = rapid.IntRange(60, 300).Draw(t, "bignv")
	}
	feats := rapid.Bool().Draw(t, "bigfeatures")
	good := func(i int) string {
		g := fmt.Sprintf(`{"type":"Point","coordinates":[%d,%d]}`, i, -i)
		if i%7 == 3 {
			g = fmt.Sprintf(`{"type":"LineString","coordinates":[[%d,0],[0,%d]]}`, i, i)
		}
		if feats {
			return `{"type":"Feature","geometry":` + g + `,"properties":null}`
		}
		return g
	}
	members := make([]string, n)
	for i := range members {
		members[i] = good(i)
	}
	for k := rapid.IntRange(0, 3).Draw(t, "nbad"); k > 0; k-- {
		i := rapid.IntRange(0, n-1).Draw(t, "badat")
		bad := rapid.SampledFrom([]string{`null`, `{"type":"Point"}`, `{"type":"Nope","coordinates":[1,2]}`, `{"type":"Point","coordinates":[1]}`, `{"type":"Polygon","coordinates":[[1,2]]}`, `7`, `[]`, `{"type":"LineString","coordinates":[[1,2],[3]]}`, `{"type":"GeometryCollection","geometries":[{"type":"Point"}]}`}).Draw(t, "bad")
		if feats && rapid.Bool().Draw(t, "badinfeature") {
			bad = `{"type":"Feature","geometry":` + bad + `,"properties":null}`
		}
		members[i] = bad
	}
	if feats {
		return DCase{Class: "big-featurecollection", Data: []byte(`{"type":"FeatureCollection","features":[` + strings.Join(members, ",") + `]}`)}
	}
	return DCase{Class: "big-collection", Data: []byte(`{"type":"GeometryCollection","geometries":[` + strings.Join(members, ",") + `]}`)}
}

func genDCase(t *rapid.T) DCase {
	if rapid.IntRange(0, 24).Draw(t, "big") == 0 {
		return genBigCollection(t)
	}
	var doc map[string]json.RawMessage
	class := rapid.SampledFrom([]string{"geometry", "geometry", "feature", "collection"}).Draw(t, "dclass")
	var base []byte
	switch class {
	case "geometry":
		g := genG(t, 2)
		tt, _ := model.Build(g, model.RouteSetCoords)
		base, _ = geojson.Marshal(tt)
	case "feature":
		f, _ := buildFeature(genFeat(t))
		base, _ = json.Marshal(f)
	default:
		fc := &geojson.FeatureCollection{}
		for i := rapid.IntRange(0, 2).Draw(t, "nf"); i > 0; i-- {
			f, _ := buildFeature(genFeat(t))
			fc.Features = append(fc.Features, f)
		}
		base, _ = json.Marshal(fc)
	}
	if err := json.Unmarshal(base, &doc); err != nil || doc == nil {
		return DCase{Class: class + "-raw", Data: base}
	}
	keys := []string{"type", "coordinates", "geometries", "geometry", "properties", "id", "bbox", "features", "crs"}
	if rapid.IntRange(0, 3).Draw(t, "ragged") == 0 {
		// an otherwise valid document whose positions do not all have the same number of
		// ordinates: one ordinate moved from a position to another (the totals still add
		// up), dropped, added, or a position emptied - in any "coordinates" at any depth
		var tree any
		dec := json.NewDecoder(bytes.NewReader(base))
		dec.UseNumber()
		if dec.Decode(&tree) == nil {
			var pos []*[]any
			var walk func(v any, inCoords bool)
			walk = func(v any, inCoords bool) {
				switch x := v.(type) {
				case map[string]any:
					for _, k := range sortedKeys(x) {
						walk(x[k], k == "coordinates")
					}
				case []any:
					if inCoords && len(x) > 0 {
						if _, num := x[0].(json.Number); num {
							return // a bare position (a Point's): its parent holds no pointer to it
						}
					}
					for i := range x {
						if sub, ok := x[i].([]any); ok && inCoords && (len(sub) == 0 || isNumber(sub[0])) {
							sub := sub
							x[i] = &sub // placeholder, replaced below
							pos = append(pos, x[i].(*[]any))
						} else {
							walk(x[i], inCoords)
						}
					}
				}
			}
			walk(tree, false)
			if len(pos) > 0 {
				for n := rapid.IntRange(1, 2).Draw(t, "nragged"); n > 0; n-- {
					i := rapid.IntRange(0, len(pos)-1).Draw(t, "rpos")
					j := rapid.IntRange(0, len(pos)-1).Draw(t, "rpos2")
					switch rapid.IntRange(0, 4).Draw(t, "rhow") {
					case 0, 1: // move the last ordinate of position i to position j
						if i != j && len(*pos[i]) > 0 {
							last := (*pos[i])[len(*pos[i])-1]
							*pos[i] = (*pos[i])[:len(*pos[i])-1]
							*pos[j] = append(*pos[j], last)
						}
					case 2:
						if len(*pos[i]) > 0 {
							*pos[i] = (*pos[i])[:len(*pos[i])-1]
						}
					case 3:
						*pos[i] = append(*pos[i], json.Number("7.5"))
					default:
						*pos[i] = []any{}
					}
				}
				if data, err := json.Marshal(tree); err == nil {
					return DCase{Class: class + "+ragged", Data: data}
				}
			}
		}
	}
	for n := rapid.IntRange(1, 3).Draw(t, "nmut"); n > 0; n-- {
		k := rapid.SampledFrom(keys).Draw(t, "key")
		switch rapid.IntRange(0, 4).Draw(t, "mut") {
		case 4:
			// a legacy "crs" member from its own grammar, on the document or on a
			// geometry nested in it
			crs := genCRS(t)
			where := rapid.SampledFrom([]string{"", "geometry", "geometries", "features"}).Draw(t, "crswhere")
			switch v := doc[where]; {
			case where == "" || len(v) == 0:
				doc["crs"] = crs
			case v[0] == '{':
				var sub map[string]json.RawMessage
				if json.Unmarshal(v, &sub) == nil && sub != nil {
					sub["crs"] = crs
					doc[where], _ = json.Marshal(sub)
				}
			case v[0] == '[':
				var subs []json.RawMessage
				if json.Unmarshal(v, &subs) == nil && len(subs) > 0 {
					i := rapid.IntRange(0, len(subs)-1).Draw(t, "crsidx")
					var sub map[string]json.RawMessage
					if json.Unmarshal(subs[i], &sub) == nil && sub != nil {
						sub["crs"] = crs
						if g, ok := sub["geometry"]; ok && len(g) > 0 && g[0] == '{' && rapid.Bool().Draw(t, "crsdeeper") {
							var gg map[string]json.RawMessage
							if json.Unmarshal(g, &gg) == nil && gg != nil {
								gg["crs"] = crs
								sub["geometry"], _ = json.Marshal(gg)
							}
						}
						subs[i], _ = json.Marshal(sub)
						doc[where], _ = json.Marshal(subs)
					}
				}
			}
		case 0:
			delete(doc, k)
		case 1:
			doc[k] = json.RawMessage(rapid.SampledFrom(junkValues).Draw(t, "junk"))
		case 2:
			doc["type"] = json.RawMessage(strconv.Quote(rapid.SampledFrom([]string{"Point", "LineString", "Polygon", "MultiPoint", "MultiLineString", "MultiPolygon", "GeometryCollection", "Feature", "FeatureCollection", "", "point"}).Draw(t, "newtype")))
		default:
			// move the member under another key
			if v, ok := doc[k]; ok {
				doc[rapid.SampledFrom(keys).Draw(t, "tokey")] = v
			}
		}
	}
	data, _ := json.Marshal(doc)
	// what files carry in front of a document
	if rapid.IntRange(0, 11).Draw(t, "lead") == 7 {
		data = append([]byte(rapid.SampledFrom([]string{"\xef\xbb\xbf", "\xef\xbb\xbf ", " \n", "\xff\xfe", "\xef\xbb", "\x00"}).Draw(t, "leadbytes")), data...)
	}
	if rapid.IntRange(0, 5).Draw(t, "bytemut") == 0 && len(data) > 0 {
		i := rapid.IntRange(0, len(data)-1).Draw(t, "pos")
		data[i] = rapid.SampledFrom([]byte{'[', ']', '{', '}', ',', '"', '0', 'e', '-', ' '}).Draw(t, "b")
	}
	return DCase{Class: class, Data: data}
}

func isNumber(v any) bool { _, ok := v.(json.Number); return ok }

func sortedKeys(m map[string]any) []string {
	ks := make([]string, 0, len(m))
	for k := range m {
		ks = append(ks, k)
	}
	sort.Strings(ks)
	return ks
}

func propD(c DCase) error {
	return withDefault(geom.XY, func() error { return decodeAll(c.Data) })
}

func decodeAll(data []byte) error {
	handed := append([]byte(nil), data...)
	defer func() { copy(data, handed) }()
	if err := decodeAll0(data); err != nil {
		return err
	}
	if !bytes.Equal(data, handed) {
		return fmt.Errorf("a decoder changed the bytes it was handed: now %q, were %q", clip(string(data)), clip(string(handed)))
	}
	return nil
}

func decodeAll0(data []byte) error {
	return run.Bounded(func() error {
		var g geom.T
		if err := geojson.Unmarshal(data, &g); err == nil && g != nil {
			if err := model.WellFormed(g); err != nil {
				return fmt.Errorf("geojson.Unmarshal returned an ill-formed geometry: %v", err)
			}
		} else if err != nil && err.Error() == "" {
			return fmt.Errorf("empty error text")
		}
		var f geojson.Feature
		if err := json.Unmarshal(data, &f); err == nil && f.Geometry != nil {
			if err := model.WellFormed(f.Geometry); err != nil {
				return fmt.Errorf("Feature decoded with an ill-formed geometry: %v", err)
			}
		}
		var fc geojson.FeatureCollection
		if err := json.Unmarshal(data, &fc); err == nil {
			for i, ft := range fc.Features {
				if ft != nil && ft.Geometry != nil {
					if err := model.WellFormed(ft.Geometry); err != nil {
						return fmt.Errorf("FeatureCollection feature %d has an ill-formed geometry: %v", i, err)
					}
				}
			}
		}
		var gg geojson.Geometry
		if err := json.Unmarshal(data, &gg); err == nil {
			if t, err := gg.Decode(); err == nil && t != nil {
				if err := model.WellFormed(t); err != nil {
					return fmt.Errorf("Geometry.Decode returned an ill-formed geometry: %v", err)
				}
			}
		}
		return nil
	})
}

func classifyD(c DCase) ([]string, bool) {
	var g geom.T
	ok := false
	_ = run.Safe(func() error { ok = geojson.Unmarshal(c.Data, &g) == nil; return nil })
	cl := []string{"decode:" + c.Class}
	if ok {
		cl = append(cl, "decode-accepted")
	}
	if bytes.Contains(c.Data, []byte(`"crs":{`)) {
		cl = append(cl, "crs-member")
		if ok {
			cl = append(cl, "crs-member-accepted")
		}
	}
	return cl, json.Valid(c.Data)
}

var dSpec = run.Spec[DCase]{ID: "C07", Name: "decode", Gen: genDCase, Prop: propD, Classify: classifyD}

func TestPropGeometry(t *testing.T) { run.Generated(t, gSpec) }
func TestPropFeature(t *testing.T)  { run.Generated(t, fSpec) }
func TestPropDecode(t *testing.T)   { run.Generated(t, dSpec) }
func TestRegress(t *testing.T) {
	run.Regress(t, gSpec)
	run.Regress(t, fSpec)
	run.Regress(t, dSpec)
}
func TestReplay(t *testing.T) {
	run.ReplayOne(t, gSpec)
	run.ReplayOne(t, fSpec)
	run.ReplayOne(t, dSpec)
}

// FuzzGeoJSON feeds raw bytes to the three entry points (thorough tier).
func FuzzGeoJSON(f *testing.F) {
	for _, s := range []string{
		`{"type":"Point","coordinates":[1,2]}`, `{"type":"Point","coordinates":[]}`, `{"type":"MultiPoint","coordinates":[[1,2,3],null]}`,
		`{"type":"Polygon","coordinates":[[],[[1,2],[3,4],[5,6],[1,2]]]}`, `{"type":"GeometryCollection","geometries":[{"type":"LineString","coordinates":[[1,2,3,4,5],[6,7,8,9,10]]},null]}`,
		`{"type":"Feature","id":1.5,"bbox":[1,2,3,4],"geometry":null,"properties":{"a":[1,{"b":null}]}}`, `{"type":"FeatureCollection","bbox":[1,2,3,4,5,6],"features":[null,{"type":"Feature","geometry":{"type":"Point"}}]}`, `null`,
	} {
		f.Add([]byte(s))
	}
	f.Fuzz(func(t *testing.T, data []byte) {
		if len(data) > 1<<16 {
			return
		}
		if err := run.Safe(func() error { return decodeAll(data) }); err != nil {
			run.SaveReplay("C07", "decode", DCase{Class: "fuzz", Data: data}, err.Error())
			t.Fatal(err)
		}
	})
}

var _ = math.Abs
