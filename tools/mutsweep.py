#!/usr/bin/env python3
"""tools/mutsweep.py --out FILE [--per-file N] [--seed S] [--workers W] [--files f ...]

Systematic sensitivity sweep: single-token mutants (harness/cmd/mutgen) of the
files the properties are anchored in. Every mutant that compiles is run against
the quick checks of the properties anchored in its file (through VERIF_REPO, in
a throw-away worktree) and against the repository's own test suite. One JSON
line per mutant:  status = nocompile | caught | hang | missed ; tests = pass|fail.
"missed" + tests "pass" are the candidates to review (equivalent mutant, or a
gap in a generator/oracle).
"""
import argparse, json, os, random, subprocess, sys, collections, threading, queue, hashlib

ROOT = os.path.dirname(os.path.dirname(os.path.abspath(__file__)))
ENV = dict(os.environ, GOFLAGS="-mod=mod", GOPROXY="off", GOSUMDB="off", GOTOOLCHAIN="local")
SKIP = {"encoding/wkt/wkt.gen.go", "encoding/wkt/wkt.y"}


def sh(cmd, cwd, timeout, env=ENV):
    try:
        p = subprocess.run(cmd, cwd=cwd, env=env, stdout=subprocess.PIPE, stderr=subprocess.STDOUT, text=True, timeout=timeout)
        return p.returncode, p.stdout
    except subprocess.TimeoutExpired:
        return -9, "timeout"


def main():
    ap = argparse.ArgumentParser()
    ap.add_argument("--out", required=True)
    ap.add_argument("--per-file", type=int, default=25)
    ap.add_argument("--seed", type=int, default=1)
    ap.add_argument("--workers", type=int, default=5)
    ap.add_argument("--files", nargs="*")
    ap.add_argument("--always-test", action="store_true", help="run the repository's suite on caught mutants too")
    a = ap.parse_args()
    anchors = collections.defaultdict(list)
    for l in open(os.path.join(ROOT, "properties.jsonl")):
        p = json.loads(l)
        for f in p["anchors"]["files"]:
            anchors[f].append(p["id"])
    files = [f for f in sorted(anchors) if f not in SKIP and os.path.exists("/repo/" + f)]
    if a.files:
        files = [f for f in files if f in a.files]
    mutgen = "/tmp/scratch/mutgen"
    os.makedirs("/tmp/scratch", exist_ok=True)
    rc, out = sh(["go", "build", "-o", mutgen, "./cmd/mutgen"], os.path.join(ROOT, "harness"), 600)
    if rc != 0:
        sys.exit(out)
    rc, out = sh([mutgen, "/repo"] + files, ROOT, 600)
    sites = [json.loads(l) for l in out.splitlines() if l.startswith("{")]
    done = set()
    if os.path.exists(a.out):
        for l in open(a.out):
            r = json.loads(l)
            done.add((r["file"], r["offset"], r["new"]))
    rnd = random.Random(a.seed)
    byfile = collections.defaultdict(list)
    for s in sites:
        byfile[s["file"]].append(s)
    work = []
    for f in files:
        ss = byfile[f]
        rnd.shuffle(ss)
        work += [s for s in ss[: a.per_file] if (s["file"], s["offset"], s["new"]) not in done]
    rnd.shuffle(work)
    print("%d sites in %d files, %d to run" % (len(sites), len(files), len(work)), flush=True)
    q = queue.Queue()
    for s in work:
        q.put(s)
    lock = threading.Lock()
    outf = open(a.out, "a")

    def worker(i):
        wt = "/tmp/scratch/mutsweep.w%d" % i
        subprocess.run(["git", "-C", "/repo", "worktree", "remove", "--force", wt], stdout=subprocess.DEVNULL, stderr=subprocess.DEVNULL)
        subprocess.run(["git", "-C", "/repo", "worktree", "add", "-q", "--detach", wt, "HEAD"], check=True)
        try:
            while True:
                try:
                    s = q.get_nowait()
                except queue.Empty:
                    return
                path = os.path.join(wt, s["file"])
                orig = open(path, "rb").read()
                o = s["offset"]
                old = s["old"].encode()
                assert orig[o : o + len(old)] == old, (s, orig[o : o + 10])
                open(path, "wb").write(orig[:o] + s["new"].encode() + orig[o + len(old) :])
                r = dict(s, props=anchors[s["file"]], src=orig.split(b"\n")[s["line"] - 1].decode(errors="replace").strip())
                try:
                    rc, out = sh(["go", "build", "./..."], wt, 300)
                    if rc != 0:
                        r["status"] = "nocompile"
                    else:
                        r["status"], r["by"] = "missed", []
                        env = dict(ENV, VERIF_REPO=wt, VERIF_TIMEOUT_S="150")
                        for pid in anchors[s["file"]]:
                            rc, out = sh([os.path.join(ROOT, "check"), pid], ROOT, 400, env)
                            if rc == 1 and "VIOLATION property=" + pid in out:
                                r["status"] = "caught"
                                r["by"].append(pid)
                                m = [l for l in out.splitlines() if l.startswith("--- ")]
                                r["msg"] = (m[0] if m else "")[:300]
                                break
                            if rc != 0:
                                r["status"] = "hang" if ("-9" in out or rc == -9) else "inconclusive"
                                r["msg"] = out[-300:]
                                break
                        if r["status"] != "caught" or a.always_test:
                            rc, out = sh(["go", "test", "-vet=off", "-count=1", "-timeout", "90s", "./..."], wt, 400)
                            r["tests"] = "pass" if rc == 0 else "fail"
                finally:
                    open(path, "wb").write(orig)
                with lock:
                    outf.write(json.dumps(r) + "\n")
                    outf.flush()
        finally:
            subprocess.run(["git", "-C", "/repo", "worktree", "remove", "--force", wt], stdout=subprocess.DEVNULL, stderr=subprocess.DEVNULL)
            h = hashlib.sha1(os.path.abspath(wt).encode()).hexdigest()[:10]
            subprocess.run(["rm", "-rf", os.path.join(ROOT, ".build", "mut-" + h)])

    ts = [threading.Thread(target=worker, args=(i,)) for i in range(a.workers)]
    for t in ts:
        t.start()
    for t in ts:
        t.join()


if __name__ == "__main__":
    main()
