#!/usr/bin/env python3
"""tools/seedprompts.py <round-letter>

Prepares a round of independently seeded changes: for every property a scratch
worktree of /repo HEAD at /tmp/seed/<id>-<r>, an output directory
/tmp/seed/<id>-<r>.out and a prompt /tmp/seed/<id>-<r>.prompt for a fresh
sub-agent. The prompt holds the property's text, the files it is anchored in and
one line per change earlier rounds wrote for it (from seeded/*/meta.json, with
everything that refers to /verif stripped) - nothing else from /verif.
Afterwards: tools/seedeval.sh /tmp/seed/<id>-<r>.out <checks...>, tools/keepseed.py,
`git -C /repo worktree remove --force /tmp/seed/<id>-<r>`.
"""
import glob, json, os, re, subprocess, sys

R = sys.argv[1]
ROOT = os.path.dirname(os.path.dirname(os.path.abspath(__file__)))
props = {}
for l in open(os.path.join(ROOT, "properties.jsonl")):
    p = json.loads(l)
    props[p["id"]] = p
tried = {}
for m in sorted(glob.glob(os.path.join(ROOT, "seeded", "*", "meta.json"))):
    d = json.load(open(m))
    t = re.sub(r" \((?:[^()]*)(?:tier|generator|harness|check|OBSOLETE)(?:[^()]*)\)", "", d["needs_to_manifest"])
    t = t.split("; OBSOLETE")[0]
    tried.setdefault(d["property"], []).append(t)
os.makedirs("/tmp/seed", exist_ok=True)
for pid, p in props.items():
    wt, out = "/tmp/seed/%s-%s" % (pid, R), "/tmp/seed/%s-%s.out" % (pid, R)
    os.makedirs(out, exist_ok=True)
    if not os.path.exists(wt):
        subprocess.run(["git", "-C", "/repo", "worktree", "add", "-q", "--detach", wt, "HEAD"], check=True)
    t = "\n".join("  - " + x for x in tried.get(pid, []))
    files = ", ".join(p["anchors"]["files"])
    prompt = f"""You are working in a private scratch git worktree of the Go library twpayne/go-geom at {wt} (Go 1.23; the machine is offline, so run `export GOFLAGS=-mod=mod GOPROXY=off GOSUMDB=off GOTOOLCHAIN=local` before any go command). Work ONLY inside {wt} and write your deliverables to {out}. Do not read or touch anything under /verif or /repo, and do not look at other directories under /tmp/seed. Do NOT use `git stash` (the stash is shared with other worktrees of the same repository): to test without your change use `git diff > /tmp/seed/{pid}-{R}.out/patch.diff` and `git apply -R`, then `git apply` again.

This semantic property of the library is supposed to hold for every input / operation history:

  "{p['title']}: {p['statement']}"

The code mainly responsible lives in: {files} (but a change anywhere in the library's non-test source that breaks the property counts, including in helpers these files call).

Your task: write ONE change to the library's non-test source that BREAKS this property, yet still compiles (`go build ./...`) and keeps the whole existing test suite green (`go test -vet=off -count=1 ./...`). It should look like something a maintainer could plausibly have written (a refactoring, an optimisation, a fast path, a cache, a 'simplification', a bugfix for something else) - not obvious sabotage. Most importantly it must need something SPECIFIC to manifest: an unusual input (a size threshold, a magnitude, a particular structure or layout), a multi-step sequence of operations, re-use of a value across calls, a particular interleaving of goroutines, or two cooperating sites that each look fine alone. Ordinary everyday use must NOT expose it at once. The change must break THIS property as stated (read the statement clause by clause and pick a clause, preferably one that the changes listed below have left alone), not some neighbouring behaviour the statement does not mention.

Changes already written by others for this property - do NOT repeat these or close variants of them; look in different code paths, different input regions and different mechanisms (a good change is one that a tester who has seen all of the following would still not think of):
{t}

Deliverables in {out}:
  1. patch.diff - `git diff` of the library change only (no test files); must apply with `git apply` on a clean checkout of HEAD.
  2. exactly one demonstration test file named *_test.go containing a single `func TestXxx(t *testing.T)` that FAILS with the change and PASSES without it (prefer the public API).
  3. demo_pkg.txt - the package directory, relative to the repository root, in which the demo test file must be placed (e.g. `.` or `xy` or `encoding/wkt`).
  4. notes.md - what the change is, why the existing tests do not notice, which clause of the property it breaks, and precisely what is needed for it to manifest.
Verify all of this yourself before finishing: the full suite is green with the patch applied; the demo fails with it and passes without it. Keep generated files out of patch.diff. Your final message should be a 3-line summary (what was changed, what it needs to manifest, verification status)."""
    open("/tmp/seed/%s-%s.prompt" % (pid, R), "w").write(prompt)
print("prepared round", R)
