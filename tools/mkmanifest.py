#!/usr/bin/env python3
"""Regenerates /verif/MANIFEST.json from the table below and validates it."""
import json, os, sys
ROOT = os.path.dirname(os.path.dirname(os.path.abspath(__file__)))
props = [json.loads(l) for l in open(os.path.join(ROOT, "properties.jsonl"))]

# id -> (technique, level text, level note, design ref)
CLAIMED = {
 "C09": ("rapid generated geometries vs exact rational shoelace / 300-bit lengths",
         "Generated-input search: every case compares Area()/Length() of a generated geometry (all 7 types, 7 layouts, empty parts anywhere, magnitudes to 2^200, four construction routes) with exact rational arithmetic under the forward error bound stated in the property, plus additivity over the part accessors and no-panic. Held on everything generated; not a proof.",
         "Trusts math/big, the harness model (internal/model) and the derivation of the (n+8)*2^-52*sum|terms| bound; rings are closed by construction so trapezoid and shoelace sums denote the same quantity.", "DESIGN.md §4 C09"),

 "C10": ("exhaustive integer-grid triples + rapid near-collinear floats vs big.Rat determinant sign",
         "Bounded-exhaustive enumeration of every ordered triple of a 5x5 (quick) / 9x9 (thorough) grid plus generated-input search aimed at the region the floating-point filter cannot decide (points within a few ulps of a line, shared exponents, lattice directions on large offsets); each result of bigxy.OrientationIndex and xy.OrientationIndex is compared with the exact rational sign and with its own argument permutations.",
         "Trusts math/big.Rat; domain: every finite float64 (subnormals, +-MaxFloat64, shared exponents where products of differences underflow or overflow), as the statement says \"any three points\".", "DESIGN.md §4 C10"),
 "C13": ("exhaustive 3x3-grid point lists + rapid integer and float point sets vs exact monotone-chain hull (int64 / big.Rat)",
         "Every ordered list of 1..5 points of the 3x3 grid is enumerated on every run, and generated point sets of 1..200 points (around the 50-point switch, duplicates, collinear runs, circle-like, lattices, offsets) are compared with an exact monotone-chain hull: result kind, vertex set, strict consistent turning, closure, provenance of every ordinate and input immutability; a quarter of the cases are float point sets (nearly collinear runs a few ulps off a segment, circles, a small shape at a large offset, both ends of the float64 range) checked against the same hull in exact rational arithmetic; layouts with up to 6 ordinates; the input array is refilled with other points and handed over again.",
         "Trusts the int64 reference hull (coordinates below 2^29 so cross products cannot overflow) and internal/exact for float inputs (positions equal as numbers are one point: 0 and -0).", "DESIGN.md §4 C13"),
 "C15": ("rapid integer segments/points in constructed clamping regions vs exact rational distances",
         "Generated-input search over points, polylines and segment pairs built by construction in every clamping region of the (s,t) parameter square, degenerate, parallel, collinear and touching classes, all 8 argument-order variants; results compared with exact rational squared distances inside the tolerance the property states.",
         "Trusts internal/exact (exact minimisation over the clamped square); tolerance 1e-12 x coordinate scale (the statement says 'rounding error relative to the coordinate scale'; measured errors are a few 1e-16 x scale).", "DESIGN.md §4 C15"),
 "C08": ("rapid geometries / Extend sequences and permutations vs per-dimension-name reference box",
         "Generated-input search over geometries of all types and layout mixes (nested collections, empty members, +-Inf, -0), Extend sequences with a drawn permutation, boxes built three ways for the overlap predicates, Bounds.Polygon and the GeoJSON bbox; the oracle is a reference box keyed by dimension name (X,Y,Z,M,extras).",
         "NaN ordinates excluded as the property states; a box with data in X,Y but an empty Z/M dimension is not asserted for IsEmpty/Polygon; bbox only checked when every dimension it reports holds data.", "DESIGN.md §4 C08"),
 "C19": ("rapid tracks round-tripped through encoder+decoder; generated/mutated record streams; native fuzzing",
         "Generated-input search: tracks over the whole 1970-2069 window (day/month/year/century boundaries, boundary angles, fractional seconds, fractional and out-of-range altitudes) are encoded and decoded and compared at format resolution in rational arithmetic; line-structured streams with forged I records and B records at the announced length +-1, byte mutations and (thorough) coverage-guided fuzzing check totality and result structure under a CPU-time termination budget.",
         "Timestamps compared to 1e-6 s (float64 resolution of UnixNano/1e9); streams longer than bufio.Scanner's 64 KiB line limit are silently truncated by the decoder, which the property permits.", "DESIGN.md §4 C19"),

 "C03": ("rapid geometry trees vs independent reference WKB/EWKB encoder; chunked readers, failing writers",
         "Generated-input search with a differential oracle: Marshal output must equal, byte for byte, an independent encoder written from the ISO WKB / PostGIS EWKB formats (this is what exposes a symmetric encoder/decoder mistake), decoding must return the model after the three stated carve-outs, and the stream, hex and database/sql entry points are driven with generated reader splits, concatenations and writer fault positions.",
         "Trusts internal/refwkb as the statement of the formats (type = id + 1000*dim; EWKB flag bits; SRID only where non-zero; empty point = canonical quiet NaNs; a collection's type word takes the dimension of its reported Layout()); readers never return (0, nil).", "DESIGN.md §4 C03"),
 "C04": ("rapid structured mutations + count-field forgeries of reference encodings; native go fuzzing; TotalAlloc oracle",
         "Generated-input search over byte strings: forged count fields at known offsets and levels (from the reference encoder's bookkeeping) must be rejected with exactly ErrGeometryTooLarge{Level,N,Limit}; every decode is checked for no panic, termination (CPU budget), well-formedness, canonical re-encoding, agreement of hex/Scan wrappers and a measured allocation bound; thorough adds coverage-guided fuzzing on all cores.",
         "Allocation bound constants (4096 + 128/byte + 256/limit unit) have >= 10x margin over measurements; with a level's limit disabled only inputs whose count fields are backed by remaining input are executed, as the property prescribes.", "DESIGN.md §4 C04"),

 "C05": ("rapid WKT-expressible trees: encoder -> library parser and independent reference reader; generated spellings",
         "Generated-input search with a round-trip oracle and a differential oracle: the encoder's text must parse back to the model with the library's parser and with an independent recursive-descent reader (catches an encoder and parser agreeing on a wrong text), and a token-by-token generated spelling (case, whitespace, bare/parenthesised multipoint members, attached/detached suffix, number notations, untagged EMPTY inside a tagged collection) must parse to the same model.",
         "Trusts internal/refwkt as the statement of the OGC/PostGIS grammar and strconv for float formatting; domain as in the property (finite ordinates, uniform layout, valid rings/lines).", "DESIGN.md §4 C05"),
 "C06": ("bounded-exhaustive token sequences + viable-prefix enumeration + rapid mutants/defect injection + native fuzzing",
         "Every token sequence up to length 4 (5 thorough) over the 37-token alphabet is parsed on every run, the viable-prefix frontier is followed to length 9 (12), and generated mutants, nested-collection frames, raw strings and single-defect injections are parsed; each outcome is checked for no panic, renderable error, well-formed single-dimensionality geometry with valid lines/rings, and stable re-encoding; defects the statement names must be rejected.",
         "Reachability of the 14 internal assertions is decided by search, not proof; must-reject cases are only those that are unambiguous (an EMPTY is never the only witness of a dimension conflict).", "DESIGN.md §4 C06"),
 "C07": ("rapid geometries/features round-tripped through GeoJSON, independent RFC 7946 reader, mutated documents, native fuzzing",
         "Generated-input search: geometry round trips under a drawn DefaultLayout with the stated carve-outs applied to the expectation (and counted), an independent encoding/json-based reader must see the same type, nesting and numbers, Feature/FeatureCollection values keep id/bbox/properties/geometry, and mutated or fuzzed documents must decode to an error or a well-formed result without panicking.",
         "An empty GeometryCollection's layout after decoding is not asserted (GeoJSON carries none); Feature round trips start from the Go struct (numeric ids are checked on the wire separately); nil *Feature entries are outside the claim.", "DESIGN.md §4 C07"),
 "C18": ("rapid decimal-boundary ordinates x d in 0..15; literals checked in exact rational arithmetic",
         "Generated-input search aimed at rounding boundaries of the requested digit count (k*10^-d and (k+1/2)*10^-d within 2 ulps, 0.99..9, powers of ten, values rounding to zero, -0, denormals, huge values): every emitted literal is tokenised by the harness and checked for shape and for |literal - ordinate| <= 10^-d/2 exactly; structure is compared through the reference WKT/JSON readers; GeoJSON bbox in either option order.",
         "bbox only for geometries whose box is finite (JSON cannot carry +-Inf); an empty MultiPoint member may render as null or [].", "DESIGN.md §4 C18"),

 "C01": ("rapid nested coordinates x layouts x construction/decoder routes vs flat-array model; mismatch injection",
         "Generated-input search over structure: every geometry obtained through a drawn route (setters, flat constructors, Push, Clone, Reserve, re-set, four decoders) must satisfy the C01 well-formedness predicate, read back through Coords() bit for bit with empty parts in position, and expose exactly the model's flat array and offsets; a quarter of the cases inject a coordinate of the wrong length at a drawn position and require ErrStrideMismatch{Got,Want}.",
         "NoLayout takes part in well-formedness and mismatch injection only (no coordinate can be set or read back); the empty Point exists only through NewPointEmpty; New*Flat receives only arrays the model says are well formed.", "DESIGN.md §4 C01"),
 "C02": ("rapid operation histories (Push / failed Push / Reverse / Swap / Clone) interpreted against a list model",
         "Model-based generated search over histories: each generated history is replayed on the real geometry and on a plain list of parts; after every step the part count, every part accessor, Coords() and the flat representation must equal the model, failed pushes must return ErrLayoutMismatch{Got,Want} and leave a bitwise snapshot unchanged, Reverse and Swap must do exactly what the statement says.",
         "Histories are data (shrinkable, replayable); GeometryCollection has no Reverse/Swap.", "DESIGN.md §4 C02"),
 "C16": ("rapid clone/mutation histories with bitwise snapshots of every live value",
         "Model-based generated search: a value is cloned, then up to 20 mutations (ordinate and offset writes through the accessors, Push, Reverse, SetCoords, SetSRID, TransformInPlace, Swap, Reserve, further clones) hit a drawn member of the growing list of values; after each mutation every other value's bitwise snapshot must be unchanged, which also catches shared spare capacity.",
         "nil versus empty slices are not compared (not observable through the statement); offset writes are undone after the check because they make the value ill formed.", "DESIGN.md §4 C16"),

 "C11": ("exhaustive 4x4-grid rings x points + rapid integer and float rings/polylines with metamorphic variants vs exact even-odd rule (int64 / big.Rat)",
         "All 1 114 112 (ring of 3-4 vertices, query point) cases of the 4x4 grid are enumerated on every run; generated rings up to 12 vertices on grids to 2^26 (self-intersecting, horizontal edges, repeated vertices, query points on vertices / edge midpoints / vertex levels) are checked together with their reversed, rotated, vertex-duplicated and extra-ordinate variants against the even-odd rule in exact integer arithmetic; a third of the cases are rings of arbitrary finite doubles (moderate, offset, mixed, subnormal, huge magnitudes) with the point on, a few ulps beside or level with edges and vertices, against the even-odd rule in exact rational arithmetic; the ring's array is refilled with a moved ring and queried again; IsOnLine / PointIntersectsLine on integer polylines and on ulp-nudged floats against an exact on-segment test.",
         "Rings are closed and polylines have >= 2 coordinates, as the functions document; integer coordinates stay below 2^27 so the int64 oracle cannot overflow.", "DESIGN.md §4 C11"),
 "C12": ("exhaustive grid segment pairs + rapid constructed configurations x 8 variants vs exact rational classification and point bound",
         "Every ordered pair of non-degenerate segments of the 4x4 (thorough 5x5) grid and generated pairs built by construction in each configuration class (touching, T, collinear overlap/touch/disjoint, parallel, crossing, near-parallel) are evaluated in all 8 order/direction variants: type and point set must equal the exact rational answer, endpoint intersections must be bit-identical, overlaps must have the exact endpoints, proper crossings must lie within a forward error bound derived in exact arithmetic; float inputs a few ulps from those configurations check classification; classification is also checked at both ends of the float64 range (products of differences underflow or overflow) and with endpoints that carry distinct extra ordinates or have different lengths; the non-robust strategy must agree on HasIntersection.",
         "The point bound is 16u x the magnitudes of the documented normalise + homogeneous-coordinate computation (measured error <= 0.04 x bound); the central-endpoint fall-back is accepted only within that bound of an envelope border; point accuracy is asserted on integer grids only (the statement's rounding distance presumes no overflow); a copy of any endpoint at the intersection position is exact (0 and -0 are one position).", "DESIGN.md §4 C12"),
 "C14": ("rapid valid-by-construction polygons (holes, multi, directions, start vertices) vs exact rational centroids",
         "Generated-input search with validity by construction (star-shaped shells verified with exact cross products, holes in disjoint cells inside the inscribed disc, members in disjoint boxes) and metamorphic decoration (direction, start vertex, duplicated and collinear vertices, all rings reversed): point, line and area centroids, the zero-area fall-back, the Centroid dispatch, IsRingCounterClockwise and SignedArea are compared with exact rational references under a derived forward error bound.",
         "Only valid polygons, polylines of positive total length and non-empty point sets (documented preconditions / undefined means are not generated); tolerance = 8 x forward bound of a fan decomposition of every ring about its own first vertex, including the rounding of each triangle's two products (measured error <= 0.05 x tolerance).", "DESIGN.md §4 C14"),
 "C20": ("rapid coordinate sequences x thresholds vs exact rational point-segment distances; idempotence",
         "Generated-input search over sequences of 0..200 points and, one case in fifty, 255..2600 points (walks, collinear runs, closed loops, repeats, zig-zags) and threshold classes: index list shape, the exact distance of every omitted point to the segment joining its retained neighbours, exactness at threshold 0, idempotence and input immutability; the input array is refilled with another line and simplified again.",
         "Rounding slack thr*2^-30 + 2^-40*(largest ordinate of the three points involved) covers the library's own floating-point distance; at threshold 0 the dropped point must be exactly on the segment.", "DESIGN.md §4 C20"),

 "C17": ("rapid call mixes over a shared pool: bitwise argument snapshots, sequential-vs-concurrent result comparison, Go race detector",
         "Generated-input search over call mixes from an inventory of 43 groups of non-mutating exported functions: phase A runs each mix alone with a bitwise snapshot of every argument (flat arrays up to capacity, offsets, byte slices) and of the package option variables around every call; phase B runs the same mix from 4..16 goroutines on the same pool and requires every result to equal its phase-A value; the driver also runs the property from a -race binary, where any report of the race detector is a violation.",
         "Interleavings are explored by the Go scheduler, not owned by the harness: the race detector's happens-before analysis finds unsynchronised sharing on executed paths regardless of actual collisions, but an order-dependent logical race behind proper synchronisation would be missed; schedule-dependent failures are reported with the call mix and the detector report, not shrunk.", "DESIGN.md §4 C17, §6"),
}

# Additions of the third session, appended to the level text (DESIGN.md §8.7).
EXTRA = {
 "C01": " Single-coordinate views (NumCoords, Coord(i), Point.X/Y/Z/M, SubLineString) read back what was set; one coordinate in forty is entirely the empty-point NaN pattern; a quarter of the long lines sit at 2^k-1, 2^k, 2^k+1 coordinates or ordinates (k = 8..11).",
 "C02": " What an accessor returned for a part without storage is grown by the caller and every accessor asked again (growreturned); collections are probed with CheckLayout/SetLayout for every layout.",
 "C03": " Further steps per case: a Marshal/Write/hex Encode that fails half-way precedes everything (poison); writers fail with (0,err), (n/2,err) or (n,err); the reference bytes with members in byte orders of their own must decode to the same model; the same object three times in a collection tree; decoded geometries and returned byte slices are looked at again after later calls; the coordinates are exchanged in place through an alias taken before the first call and the same object is marshalled again; encodings just above 2^16 members and 2^20 / 2^21 ordinates (coordinates a function of the index) through Marshal, Unmarshal, Write and a chunk-limited Read.",
 "C04": " Reference encodings with members in byte orders of their own (a third of the bases); valid encodings decoded under limits exactly equal to their largest counts must decode (valid-tight).",
 "C05": " Further steps per case: a failing Marshal first (poison); the same object three times in a collection tree; the parsed geometry looked at again after later parses; x and y exchanged in place through an alias taken before the first call and the same object marshalled again.",
 "C06": " Token mutants additionally get a run of 1-70 padding bytes (Latin-1 spaces 0x85/0xA0, other bytes above 0x7F, line breaks, NUL, real UTF-8) at the end, the start or a drawn position; case texts survive their JSON form as hex when they are not valid UTF-8.",
 "C07": " Further steps per case: encodings that fail (non-finite ordinate in a later member, bbox of nothing) first; the *Geometry returned by Encode marshalled after another encoding; the decoded geometry looked at again after later decodes; the same object three times in a collection tree.",
 "C08": " Further steps in geom mode: the box returned is extended by its caller and the bounds asked again (also of a new empty geometry); every ordinate is rewritten in place through aliases taken before the first call and the bounds asked again, the expectation coming from the model.",
 "C09": " Magnitudes shifted by exact powers of two to 2^+-300; x and y exchanged in place through an alias taken before the first measure and the same object measured again; NoLayout geometries; rings of 2^16+1 and just above 2^20 ordinates (coordinates a function of the index) against an exact big.Int shoelace.",
 "C11": " Whole-number rings over the int32 and +-2^53 ranges.",
 "C13": " Small integer lattices scaled by exact powers of two to both ends of the float64 range.",
 "C14": " Classes far-members (small members up to 2^44 from the first polygon) and thin-frame (a hole filling all but a 1-9 unit wide, uneven frame of a shell up to 2^40 wide); MultiPoints with EMPTY members; all x,y multiplied by an exact power of two up to 2^+-280 and results scaled back.",
 "C15": " 2-D coordinates carry distinct extra ordinates or have different lengths; every case may be scaled by an exact power of two (to 2^+-480 in 2-D, 2^+-230 in 3-D), results scaled back exactly.",
 "C16": " Clones of geometries just above 2^20 (thorough: 2^21, 2^22) ordinates for every kind and layout, coordinates a function of the index.",
 "C17": " Further call groups: every decoder handed every byte slice of an item, also of another format (text where binary is expected); pool polygons with holes whose rings close in x,y only (M differs); option values and option slices shared by all goroutines; every mix also run in reverse order.",
 "C18": " Each option slice is used for two calls; the *Geometry returned by Encode is marshalled after another digit-limited encoding.",
 "C19": " Increments of 28-31 and 365/366 days (date headers that look at part of the date); the track returned by Read is looked at again after another stream was read.",
 "C20": " Mixed-scale lines (unit-sized detail between legs 2^40..2^62 long); every case may be scaled by an exact power of two to 2^+-400 together with its threshold; the rounding slack of a dropped point is relative to the three points involved.",
}
# additions of seeding rounds i-k (DESIGN.md §8.7)
EXTRA2 = {
 "C16": " A clone taken while an end-offset write stands (upwards, or the last offset downwards) equals its source in every stored bit.",
 "C01": " After the first result grows by two Push calls the same route builds the geometry a second time (constructors do not depend on what became of earlier results). Route reset-twin: the receiver first holds the same coordinates with zeros of the other sign and NaNs of another payload.",
 "C02": " Receivers start from any constructor (flat, flat without ends, SetCoords, Push, Clone, WKB decode) holding 0-3 parts; a part accessor's result is pushed back onto its own receiver (the last polygon optionally grown first); after every step new values are built by the plain constructors and compared with the model; collection arguments are passed in a slice with spare room that the caller refills; a receiver without a layout refuses every part.",
 "C03": " Reader kinds include a *bufio.Reader with buffer sizes 16..4097 over a splitting reader; writers that fail once and work again; the geometry under 5-130 nested collections; a sibling of the case (same structure and emptiness, other ordinates, SRIDs and byte order) is decoded by every route before retained results are looked at again; returned byte slices are overwritten by the caller and Marshal asked again.",
 "C04": " Class atlimit (long first components, a count raised exactly to its limit); a sibling of the decoded geometry is marshalled and decoded before the decoded geometry is compared with its earlier self. Forged counts include those at which a product with a stride or an element size first passes 2^31 or 2^32.",
 "C05": " The geometry under 5-257 nested collections; one Encoder value per case. All 1482 collection trees of depth <= 3 and width <= 2 over member-less collections with and without a layout, points and an empty line (one layout per tree); SRIDs are drawn (and must not matter); a sibling of the case is parsed before the retained result is looked at again.",
 "C06": " Unclosed rings also miss closure by 1-8 ulps, a relative 1e-15..1e-6 or a denormal; number literals at the limits of machine integers. One token mutant in six is wrapped in what other software writes around WKT (EWKT SRID prefixes whole, cut short and misspelt, quotes, casts, a function call, a byte-order mark).",
 "C07": " Property keys include the names GeoJSON uses elsewhere; collections are decoded into a value that held another collection; a grammar for the legacy crs member (named/linked, short/URN/URL names complete and cut short, wrong JSON types) on documents, nested geometries and features; deep nesting; returned bytes overwritten and Marshal asked again. Collections of 60-300 members with 0-3 unusable ones; a call parked on a channel, lock or wait group for ten seconds without CPU is reported as a deadlock; SRIDs are drawn; a sibling of the case is decoded before the retained result is looked at again.",
 "C08": " The box the caller extended is itself compared with the model; SRIDs (well-known codes included) are drawn; bounds are asked three times before the in-place rewrite. Each box is also tested against itself (one object on both sides).",
 "C09": " fixedpoint class (whole numbers over the int16/int32/2^53 range) and integer-edge floats; SRIDs (geographic codes included) are drawn; measured three times before the in-place exchange.",
 "C10": " Class filter-edge: differences that round by half an ulp in a chosen direction with a determinant of the order of 2^-52 of its products. The three arguments are also passed as windows of one flat array in all six layouts (same answer, array untouched).",
 "C11": " Asked three times before the ring's array is refilled. A vertex of the ring's own array is passed as the query point.",
 "C12": " The same four points paired into segments the other two ways, each against its own exact answer, then as given once more. Class near-endpoint (an end point of one segment computed onto the other and nudged by up to 3 ulps, half of the cases moved to the origin where the envelope fall-back is reached); every call's arguments are compared bitwise afterwards; end points are also passed as windows of one array.",
 "C13": " Zeros written as -0; five in nine cases put the set in ascending or descending (x,y)/(y,x) order with or without duplicates; the array is handed over three times, then refilled keeping its first and last point, then refilled entirely.",
 "C14": " The centroid calculators used directly; points, lines, rings and polygons of 1023..5000 (thorough: ..65537) vertices; tolerance 3x the forward rounding bound. Every function is asked again after the caller overwrote the coordinate returned before; geometries carry SRIDs.",
 "C15": " After the whole line, shorter beginnings of it; the same slice asked three more times, then its interior vertices moved in place, then all; zig-zags of 4097..262145 vertices with the nearest point at block seams. Point and segment functions also get their arguments as windows of one flat array.",
 "C17": " decode.Truncated and exact.Burst call groups; kml.Encode also on geometries with empty parts. TestExhaustiveStress: 16 goroutines x 1500 filter-undecidable inputs x {orientation, ring, intersect, crossing (built to reach the central-endpoint fall-back), hull}, every result compared with the call run alone and every input compared bitwise afterwards; also under the race detector.",
 "C18": " The same digit limit reached four ways: NewEncoder(option), the option applied to an existing encoder, over another limit already used, on the zero Encoder. Digit limits up to 340; SRIDs are drawn.",
 "C19": " Every stream is read again through readers that deliver one byte at a time, half of what is asked for, the last bytes together with io.EOF, pieces, and a 16-byte *bufio.Reader; results must equal the in-memory read. The same Encoder encodes the track twice more (every call writes a complete stream).",
 "C20": " The caller overwrites every returned index list; the array is simplified three times, refilled keeping its first and last point, then refilled with the reversed, transposed line.",
}
PENDING_REASON = "check not built yet in this session (planned, see DESIGN.md §4); not claimed until its harness package exists"

checks, na = [], []
for p in props:
    pid = p["id"]
    if pid in CLAIMED and os.path.isdir(os.path.join(ROOT, "harness", pid.lower())):
        tech, text, note, ref = CLAIMED[pid]
        checks.append(dict(
            property_id=pid,
            quick_cmd="./check %s --tier quick" % pid,
            thorough_cmd="./check %s --tier thorough" % pid,
            evidence_file="evidence/%s.json" % pid,
            replay_cmd_template="./check %s --replay {path}" % pid,
            engine="rapid-harness",
            level_claimed=dict(category="exploration", text=text + EXTRA.get(pid, "") + EXTRA2.get(pid, ""), design_ref=ref),
            level_note=note,
            technique=tech,
        ))
    else:
        na.append(dict(property_id=pid, reason=PENDING_REASON))
man = {
 "version": 1,
 "setup_cmd": "./setup.sh",
 "hooks": {"guard": "verif", "enable": "no hooks are needed: every observation goes through go-geom's exported API; checks build /repo's working tree through the replace directive of harness/go.mod", "baseline_off_cmd": "cd /repo && GOFLAGS=-mod=mod go test -vet=off -count=1 ./...", "source_commits": [], "add_only": True},
 "engines": [{"name": "rapid-harness", "path": "harness", "serves_properties": [c["property_id"] for c in checks], "kind_free_text": "Go module: one property package per property using pgregory.net/rapid v1.3.0 generators and state machines, bounded-exhaustive loops over small finite spaces, native go fuzz targets in the thorough tier; explicit oracles (exact rational arithmetic, reference encoders/readers, list models); driven by ./check"}],
 "checks": checks,
 "not_applicable": na,
 "notes": "./check <id> [--tier quick|thorough] [--replay file]; exit 0 = held on everything explored, 1 = VIOLATION line printed, 2 = inconclusive (build failure, worker killed, time-out). Evidence in evidence/<id>.json is rewritten by every run. See DESIGN.md.",
}
json.dump(man, open(os.path.join(ROOT, "MANIFEST.json"), "w"), indent=1)
try:
    import jsonschema
    jsonschema.validate(man, json.load(open("/root/.vp/MANIFEST.schema.json")))
    for c in checks:
        f = os.path.join(ROOT, c["evidence_file"])
        if os.path.exists(f):
            jsonschema.validate(json.load(open(f)), json.load(open("/root/.vp/EVIDENCE.schema.json")))
    print("manifest valid: %d checks, %d not applicable" % (len(checks), len(na)))
except ImportError:
    print("jsonschema not available; wrote manifest unvalidated")
