#!/usr/bin/env python3
"""Regenerates /verif/MANIFEST.json from the table below and validates it."""
import json, os, sys
ROOT = os.path.dirname(os.path.dirname(os.path.abspath(__file__)))
props = [json.loads(l) for l in open(os.path.join(ROOT, "properties.jsonl"))]

# id -> (technique, level text, level note, design ref)
CLAIMED = {
 "C09": ("rapid generated geometries vs exact rational shoelace / 300-bit lengths",
         "Generated-input search: every case compares Area()/Length() of a generated geometry (all 7 types, 7 layouts, empty parts anywhere, magnitudes to 2^200, four construction routes) with exact rational arithmetic under the forward error bound stated in the property, plus additivity over the part accessors and no-panic. Held on everything generated; not a proof.",
         "Trusts math/big, the harness model (internal/model) and the derivation of the (n+8)*2^-52*sum|terms| bound; rings are closed by construction so trapezoid and shoelace sums denote the same quantity.", "DESIGN.md §4 C09"),
}
PENDING_REASON = "check not built yet in this session (planned, see DESIGN.md §4); not claimed until its harness package exists"

checks, na = [], []
for p in props:
    pid = p["id"]
    if pid in CLAIMED and os.path.isdir(os.path.join(ROOT, "harness", pid.lower())):
        tech, text, note, ref = CLAIMED[pid]
        checks.append(dict(
            property_id=pid,
            quick_cmd="./check %s --tier quick" % pid,
            thorough_cmd="./check %s --tier thorough" % pid,
            evidence_file="evidence/%s.json" % pid,
            replay_cmd_template="./check %s --replay {path}" % pid,
            engine="rapid-harness",
            level_claimed=dict(category="exploration", text=text, design_ref=ref),
            level_note=note,
            technique=tech,
        ))
    else:
        na.append(dict(property_id=pid, reason=PENDING_REASON))
man = {
 "version": 1,
 "setup_cmd": "./setup.sh",
 "hooks": {"guard": "verif", "enable": "no hooks are needed: every observation goes through go-geom's exported API; checks build /repo's working tree through the replace directive of harness/go.mod", "baseline_off_cmd": "cd /repo && GOFLAGS=-mod=mod go test -vet=off -count=1 ./...", "source_commits": [], "add_only": True},
 "engines": [{"name": "rapid-harness", "path": "harness", "serves_properties": [c["property_id"] for c in checks], "kind_free_text": "Go module: one property package per property using pgregory.net/rapid v1.3.0 generators and state machines, bounded-exhaustive loops over small finite spaces, native go fuzz targets in the thorough tier; explicit oracles (exact rational arithmetic, reference encoders/readers, list models); driven by ./check"}],
 "checks": checks,
 "not_applicable": na,
 "notes": "./check <id> [--tier quick|thorough] [--replay file]; exit 0 = held on everything explored, 1 = VIOLATION line printed, 2 = inconclusive (build failure, worker killed, time-out). Evidence in evidence/<id>.json is rewritten by every run. See DESIGN.md.",
}
json.dump(man, open(os.path.join(ROOT, "MANIFEST.json"), "w"), indent=1)
try:
    import jsonschema
    jsonschema.validate(man, json.load(open("/root/.vp/MANIFEST.schema.json")))
    for c in checks:
        f = os.path.join(ROOT, c["evidence_file"])
        if os.path.exists(f):
            jsonschema.validate(json.load(open(f)), json.load(open("/root/.vp/EVIDENCE.schema.json")))
    print("manifest valid: %d checks, %d not applicable" % (len(checks), len(na)))
except ImportError:
    print("jsonschema not available; wrote manifest unvalidated")
