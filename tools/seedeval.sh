#!/bin/bash
# tools/seedeval.sh <outdir with patch.diff, demo test, demo_pkg.txt> <Cxx> [<Cxx>...]
# Confirms a seeded change independently in a fresh scratch worktree of /repo HEAD:
#  (1) the patch applies and builds, (2) the repository's own suite passes with it,
#  (3) the demonstration fails with it and passes without it, (4) what ./check says.
set -u
out=$(readlink -f "$1"); shift
export GOFLAGS=-mod=mod GOPROXY=off GOSUMDB=off GOTOOLCHAIN=local
wt=/tmp/scratch/seedeval.$$
mkdir -p /tmp/scratch
git -C /repo worktree add -q --detach "$wt" HEAD || exit 2
trap 'git -C /repo worktree remove --force "$wt" >/dev/null 2>&1' EXIT
pkg=$(cat "$out/demo_pkg.txt" 2>/dev/null | tr -d ' \n'); pkg=${pkg:-.}
demo=$(ls "$out"/*_test.go "$out"/*_test.go.txt 2>/dev/null | head -1)
echo "== demo: $demo in package dir '$pkg'"
dn=$(basename "$demo" .txt); cp "$demo" "$wt/$pkg/$dn" || exit 2
name=$(grep -o "func Test[A-Za-z0-9_]*" "$demo" | head -1 | sed 's/func //')
echo "== without the change: demo $name"
(cd "$wt" && go test -vet=off -count=1 -run "^$name\$" "./$pkg" 2>&1 | tail -3)
if ! git -C "$wt" apply "$out/patch.diff"; then echo "PATCH DOES NOT APPLY"; exit 2; fi
echo "== with the change: build + demo"
(cd "$wt" && go build ./... && go test -vet=off -count=1 -run "^$name\$" "./$pkg" 2>&1 | tail -4)
rm -f "$wt/$pkg/$dn"
echo "== with the change: the repository's own suite"
(cd "$wt" && go test -vet=off -count=1 ./... 2>&1 | grep -v "no test files" | grep -v "^ok" ; echo "suite exit: ${PIPESTATUS[0]}")
cd /verif
for id in "$@"; do
  echo "== ./check $id against the change"
  VERIF_REPO="$wt" ./check "$id" --tier "${MUT_TIER:-quick}" 2>&1 | grep -E "^(VIOLATION|KNOWN|C[0-9]+ |BUILD|---)" | cut -c1-400 | head -5
  echo "exit($id)=${PIPESTATUS[0]}"
done
