#!/usr/bin/env python3
"""tools/coverage.py [--checks N] [--out DIR] [Cxx ...]

Generator-reach audit: builds each property's package with statement coverage of
go-geom (-coverpkg), runs the regression tier and the generated tier (one shard,
quick-sized unless --checks is given) and lists, per property, the statement
blocks of its *anchored* files that no generated case executed. An unexecuted
block in anchored code is a region no oracle has ever looked at: either it is
irrelevant to the property (other API, error text) or the generator has a gap.
Coverage only selects where to look; it is not the deciding step of any check.
"""
import argparse, collections, json, os, re, subprocess, sys

ROOT = os.path.dirname(os.path.dirname(os.path.abspath(__file__)))
ENV = dict(os.environ, GOFLAGS="-mod=mod", GOPROXY="off", GOSUMDB="off", GOTOOLCHAIN="local")
MOD = "github.com/twpayne/go-geom/"


def main():
    ap = argparse.ArgumentParser()
    ap.add_argument("--checks", type=int, default=0)
    ap.add_argument("--out", default=os.path.join(ROOT, ".build", "cover"))
    ap.add_argument("--all-files", action="store_true", help="report every go-geom file, not only the anchored ones")
    ap.add_argument("ids", nargs="*")
    a = ap.parse_args()
    props = {}
    for l in open(os.path.join(ROOT, "properties.jsonl")):
        p = json.loads(l)
        props[p["id"]] = p
    ids = a.ids or sorted(props)
    os.makedirs(a.out, exist_ok=True)
    cfg = {}
    src = open(os.path.join(ROOT, "check")).read()
    for m in re.finditer(r'"(C\d\d)": dict\(quick=\((\d+), (\d+)\)', src):
        cfg[m.group(1)] = int(m.group(2))
    for pid in ids:
        binp = os.path.join(a.out, pid + ".bin")
        prof = os.path.join(a.out, pid + ".prof")
        r = subprocess.run(["go", "test", "-c", "-vet=off", "-cover", "-coverpkg=github.com/twpayne/go-geom/...", "-o", binp, "./" + pid.lower()],
                           cwd=os.path.join(ROOT, "harness"), env=ENV, stdout=subprocess.PIPE, stderr=subprocess.STDOUT, text=True)
        if r.returncode != 0:
            print(pid, "build failed", r.stdout[-400:])
            continue
        env = dict(ENV, VERIF_TIER="quick", VERIF_SEED="1", VERIF_REGRESS_DIR=os.path.join(ROOT, "harness", "regress", pid),
                   VERIF_KNOWN=os.path.join(ROOT, "known-findings.txt"), VERIF_EV_OUT="", VERIF_REPLAY_OUT="", VERIF_SHARD="0", VERIF_SHARDS="1")
        checks = a.checks or cfg.get(pid, 5000)
        r = subprocess.run([binp, "-test.run", "^(TestRegress|TestProp|TestExhaustive)", "-rapid.checks=%d" % checks, "-rapid.seed=1000004",
                            "-rapid.nofailfile", "-test.timeout", "1200s", "-test.coverprofile", prof],
                           cwd=os.path.join(ROOT, "harness", pid.lower()), env=env, stdout=subprocess.PIPE, stderr=subprocess.STDOUT, text=True)
        if r.returncode != 0:
            print(pid, "run failed", r.stdout[-600:])
            continue
        blocks = collections.defaultdict(dict)
        for l in open(prof):
            m = re.match(r"(.+):(\d+)\.(\d+),(\d+)\.(\d+) (\d+) (\d+)$", l.strip())
            if not m or not m.group(1).startswith(MOD):
                continue
            f = m.group(1)[len(MOD):]
            k = (int(m.group(2)), int(m.group(4)))
            blocks[f][k] = max(blocks[f].get(k, 0), int(m.group(7)))
        files = sorted(blocks) if a.all_files else [f for f in props[pid]["anchors"]["files"] if f in blocks]
        print("== %s (%d rapid checks)" % (pid, checks))
        for f in files:
            b = blocks[f]
            un = sorted(k for k, v in b.items() if v == 0)
            print("  %-60s %4d/%4d blocks executed" % (f, len(b) - len(un), len(b)))
            if un and not a.all_files:
                lines = open("/repo/" + f).read().split("\n")
                for (s, e) in un:
                    print("      %d-%d: %s" % (s, e, lines[s - 1].strip()[:110]))
        os.remove(binp)


if __name__ == "__main__":
    main()
