#!/bin/bash
# tools/runall.sh <tier> <seed>... : runs every claimed check, prints one line each
tier=$1; shift
cd "$(dirname "$0")/.."
for seed in "$@"; do
  for id in C01 C02 C03 C04 C05 C06 C07 C08 C09 C10 C11 C12 C13 C14 C15 C16 C17 C18 C19 C20; do
    out=$(VERIF_SEED=$seed ./check $id --tier $tier 2>&1); rc=$?
    echo "seed=$seed rc=$rc $(echo "$out" | grep -E "^C[0-9]+ " | tail -1)"
    if [ $rc -ne 0 ]; then echo "$out" | tail -15; fi
  done
done
