#!/bin/bash
# tools/seedbatch.sh <suffix> [ids...] : evaluate /tmp/seed/<id>-<suffix>.out for every id that has a patch.diff
suf=$1; shift
ids=${@:-C01 C02 C03 C04 C05 C06 C07 C08 C09 C10 C11 C12 C13 C14 C15 C16 C17 C18 C19 C20}
for id in $ids; do
  d=/tmp/seed/$id-$suf.out
  [ -f $d/patch.diff ] || { echo "#### $id-$suf: no patch yet"; continue; }
  echo "#### $id-$suf"
  /verif/tools/seedeval.sh $d $id 2>&1 | grep -E "^(ok|FAIL|---|VIOLATION|exit|suite exit|PATCH|C[0-9]+ )" | grep -v "^FAIL$" | cut -c1-260 | tail -8
done
