#!/bin/bash
# tools/mutant.sh <patch.diff> <Cxx> [<Cxx>...]
# Applies a patch to a scratch worktree of /repo HEAD (never to /repo), optionally
# runs the repository's own tests there (MUT_BASELINE=1), runs the given checks
# against it through VERIF_REPO and removes the worktree.
set -u
patch=$(readlink -f "$1"); shift
wt=/tmp/scratch/mut.$$
mkdir -p /tmp/scratch
git -C /repo worktree add -q --detach "$wt" HEAD || exit 2
trap 'git -C /repo worktree remove --force "$wt" >/dev/null 2>&1' EXIT
if ! git -C "$wt" apply "$patch"; then echo "PATCH DOES NOT APPLY"; exit 2; fi
export GOFLAGS=-mod=mod GOPROXY=off GOSUMDB=off GOTOOLCHAIN=local
if [ "${MUT_BASELINE:-0}" = 1 ]; then
  (cd "$wt" && go build ./... && go test -vet=off -count=1 ./... 2>&1 | grep -v "no test files" | grep -v "^ok" ; echo "baseline exit: ${PIPESTATUS[0]}")
fi
cd /verif
for id in "$@"; do
  VERIF_REPO="$wt" ./check "$id" --tier "${MUT_TIER:-quick}" 2>&1 | grep -E "^(VIOLATION|KNOWN|C[0-9]+ |BUILD|---)" | cut -c1-300 | head -6
  echo "exit($id)=${PIPESTATUS[0]}"
done
