#!/bin/bash
# tools/reseed.sh [seed-id ...]   (default: every directory under seeded/)
# Re-runs every kept seeded change against the checks that its meta.json says
# catch it (quick tier, VERIF_SEED from the environment, default 1), each in a
# throw-away worktree of /repo HEAD. One line per (seed, check):
#   <seed> <check> caught|MISSED|NOAPPLY
# Exit 1 if any line is not "caught".
set -u
export GOFLAGS=-mod=mod GOPROXY=off GOSUMDB=off GOTOOLCHAIN=local
cd /verif
ids=("$@"); [ ${#ids[@]} -eq 0 ] && ids=($(ls seeded))
mkdir -p /tmp/scratch
bad=0
for s in "${ids[@]}"; do
  d=seeded/$s
  if python3 -c "import json,sys;sys.exit(0 if json.load(open('$d/meta.json')).get('obsolete') else 1)"; then echo "$s - obsolete (skipped)"; continue; fi
  wt=/tmp/scratch/reseed.$$.$s
  git -C /repo worktree add -q --detach "$wt" HEAD || { echo "$s - WORKTREE-FAIL"; bad=1; continue; }
  if ! git -C "$wt" apply "$PWD/$d/patch.diff" 2>/dev/null; then
    echo "$s - NOAPPLY"; bad=1
  else
    for c in $(python3 -c "import json,sys;print(' '.join(json.load(open('$d/meta.json'))['caught_by_checks_now']))"); do
      out=$(VERIF_REPO="$wt" ./check "$c" --tier "${MUT_TIER:-quick}" 2>&1); rc=$?
      if [ $rc -eq 1 ] && grep -q "^VIOLATION property=$c" <<<"$out"; then echo "$s $c caught"
      else echo "$s $c MISSED rc=$rc"; bad=1; fi
    done
  fi
  git -C /repo worktree remove --force "$wt" >/dev/null 2>&1
  rm -rf "/verif/.build/mut-$(printf %s "$wt" | sha1sum | cut -c1-10)"
done
exit $bad
