#!/usr/bin/env python3
"""tools/mutretest.py IN.jsonl OUT.jsonl [--workers W] [--skip prefix ...]

Re-runs the mutants that an earlier tools/mutsweep.py run recorded as
missed-with-the-repository's-tests-green against the checks as they are now
(quick tier, VERIF_REPO on a throw-away worktree of /repo HEAD). Mutants whose
site no longer matches HEAD (the file was repaired since) are reported as
"stale". One JSON line per mutant in OUT with the new status.
"""
import argparse, json, os, subprocess, sys, threading, queue, hashlib

ROOT = os.path.dirname(os.path.dirname(os.path.abspath(__file__)))
ENV = dict(os.environ, GOFLAGS="-mod=mod", GOPROXY="off", GOSUMDB="off", GOTOOLCHAIN="local")


def sh(cmd, cwd, timeout, env=ENV):
    try:
        p = subprocess.run(cmd, cwd=cwd, env=env, stdout=subprocess.PIPE, stderr=subprocess.STDOUT, text=True, timeout=timeout)
        return p.returncode, p.stdout
    except subprocess.TimeoutExpired:
        return -9, "timeout"


def main():
    ap = argparse.ArgumentParser()
    ap.add_argument("inp")
    ap.add_argument("out")
    ap.add_argument("--workers", type=int, default=4)
    ap.add_argument("--skip", nargs="*", default=[])
    a = ap.parse_args()
    rows = [json.loads(l) for l in open(a.inp)]
    rows = [r for r in rows if r["status"] == "missed" and r.get("tests") == "pass" and not any(r["file"].startswith(s) for s in a.skip)]
    q = queue.Queue()
    for r in rows:
        q.put(r)
    lock = threading.Lock()
    outf = open(a.out, "w")
    print(len(rows), "mutants to re-test", flush=True)

    def worker(i):
        wt = "/tmp/scratch/mutretest.w%d" % i
        subprocess.run(["git", "-C", "/repo", "worktree", "remove", "--force", wt], stdout=subprocess.DEVNULL, stderr=subprocess.DEVNULL)
        subprocess.run(["git", "-C", "/repo", "worktree", "add", "-q", "--detach", wt, "HEAD"], check=True)
        try:
            while True:
                try:
                    r = q.get_nowait()
                except queue.Empty:
                    return
                path = os.path.join(wt, r["file"])
                orig = open(path, "rb").read()
                o, old = r["offset"], r["old"].encode()
                res = dict(file=r["file"], line=r["line"], old=r["old"], new=r["new"], src=r["src"], props=r["props"])
                line = orig.split(b"\n")[r["line"] - 1].decode(errors="replace").strip() if r["line"] - 1 < orig.count(b"\n") + 1 else ""
                if orig[o:o + len(old)] != old or line != r["src"]:
                    res["status"] = "stale"
                else:
                    open(path, "wb").write(orig[:o] + r["new"].encode() + orig[o + len(old):])
                    try:
                        rc, out = sh(["go", "build", "./..."], wt, 300)
                        if rc != 0:
                            res["status"] = "nocompile"
                        else:
                            res["status"], res["by"] = "missed", []
                            env = dict(ENV, VERIF_REPO=wt, VERIF_TIMEOUT_S="200")
                            for pid in r["props"]:
                                rc, out = sh([os.path.join(ROOT, "check"), pid], ROOT, 600, env)
                                if rc == 1 and "VIOLATION property=" + pid in out:
                                    res["status"] = "caught"
                                    res["by"].append(pid)
                                    m = [l for l in out.splitlines() if l.startswith("--- ")]
                                    res["msg"] = (m[0] if m else "")[:300]
                                    break
                                if rc != 0:
                                    res["status"] = "inconclusive"
                                    res["msg"] = out[-300:]
                                    break
                    finally:
                        open(path, "wb").write(orig)
                with lock:
                    outf.write(json.dumps(res) + "\n")
                    outf.flush()
        finally:
            subprocess.run(["git", "-C", "/repo", "worktree", "remove", "--force", wt], stdout=subprocess.DEVNULL, stderr=subprocess.DEVNULL)
            h = hashlib.sha1(os.path.abspath(wt).encode()).hexdigest()[:10]
            subprocess.run(["rm", "-rf", os.path.join(ROOT, ".build", "mut-" + h)])

    ts = [threading.Thread(target=worker, args=(i,)) for i in range(a.workers)]
    for t in ts:
        t.start()
    for t in ts:
        t.join()


if __name__ == "__main__":
    main()
