#!/usr/bin/env python3
"""tools/mut.py FILE OLD NEW Cxx [Cxx...]   (env MUT_BASELINE=1 runs go test of the package too, MUT_TIER)
Replaces the unique occurrence of OLD by NEW in FILE inside a scratch worktree of
/repo HEAD, prints the diff, runs the checks against it via VERIF_REPO, removes
the worktree. OLD/NEW may contain \\n and \\t escapes."""
import os, subprocess, sys, tempfile, shutil
f, old, new, ids = sys.argv[1], sys.argv[2], sys.argv[3], sys.argv[4:]
old = old.encode().decode('unicode_escape'); new = new.encode().decode('unicode_escape')
wt = "/tmp/scratch/mut.%d" % os.getpid()
os.makedirs("/tmp/scratch", exist_ok=True)
subprocess.check_call(["git", "-C", "/repo", "worktree", "add", "-q", "--detach", wt, "HEAD"])
rc = 0
try:
    p = os.path.join(wt, f)
    s = open(p).read()
    if s.count(old) != 1:
        print("OLD occurs %d times in %s" % (s.count(old), f)); sys.exit(2)
    open(p, "w").write(s.replace(old, new))
    print(subprocess.run(["git", "-C", wt, "diff"], capture_output=True, text=True).stdout)
    env = dict(os.environ, GOFLAGS="-mod=mod", GOPROXY="off", GOSUMDB="off", GOTOOLCHAIN="local")
    b = subprocess.run(["go", "build", "./..."], cwd=wt, env=env, capture_output=True, text=True)
    if b.returncode != 0:
        print("MUTANT DOES NOT BUILD\n" + b.stderr); sys.exit(2)
    if os.environ.get("MUT_BASELINE") == "1":
        t = subprocess.run(["go", "test", "-vet=off", "-count=1", "./..."], cwd=wt, env=env, capture_output=True, text=True)
        bad = [l for l in t.stdout.splitlines() if l.startswith(("FAIL", "--- FAIL"))]
        print("baseline suite on mutant: exit %d %s" % (t.returncode, bad[:5]))
    for i in ids:
        env2 = dict(env, VERIF_REPO=wt)
        r = subprocess.run(["./check", i, "--tier", os.environ.get("MUT_TIER", "quick")], cwd="/verif", env=env2, capture_output=True, text=True)
        lines = [l[:300] for l in r.stdout.splitlines() if l.startswith(("VIOLATION", "KNOWN", "BUILD", "---")) or l.startswith(i + " ")]
        print("\n".join(lines[:6])); print("exit(%s)=%d" % (i, r.returncode))
finally:
    subprocess.call(["git", "-C", "/repo", "worktree", "remove", "--force", wt])
