#!/usr/bin/env python3
"""tools/keepseed.py <outdir> <seedid> <property> <caught_initially yes|no> <caught_by ...> -- <needs text>
Copies a confirmed seeded change into /verif/seeded/<seedid>/ with meta.json."""
import json, os, shutil, sys
out, sid, prop, initially = sys.argv[1:5]
rest = sys.argv[5:]
i = rest.index("--")
caught_by, needs = rest[:i], " ".join(rest[i+1:])
d = "/verif/seeded/%s" % sid
os.makedirs(d, exist_ok=True)
for f in os.listdir(out):
    if f.endswith(".diff") or f.endswith("_test.go") or f in ("demo_pkg.txt", "notes.md"):
        dst = f
        if f.endswith("_test.go"):
            dst = f + ".txt"  # not compiled as part of /verif
        shutil.copy(os.path.join(out, f), os.path.join(d, dst))
meta = dict(seed=sid, property=prop, needs_to_manifest=needs,
            confirmed=dict(by="tools/seedeval.sh in a fresh scratch worktree of /repo HEAD",
                           patch_applies_and_builds=True, repository_suite_passes_with_change=True,
                           demo_fails_with_change=True, demo_passes_without_change=True),
            caught_by_quick_check_when_first_run=(initially == "yes"),
            caught_by_checks_now=caught_by,
            how_to_rerun="tools/seedeval.sh seeded/%s %s   (demo test file is stored with a .txt suffix; seedeval accepts both)" % (sid, " ".join(caught_by)))
json.dump(meta, open(os.path.join(d, "meta.json"), "w"), indent=1)
print("kept", d)
