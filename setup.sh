#!/bin/bash
# setup_cmd: builds every property's test binary once (warms the Go build
# cache); everything is on disk, nothing is fetched.
set -e
cd "$(dirname "$0")/harness"
export GOFLAGS=-mod=mod GOPROXY=off GOSUMDB=off GOTOOLCHAIN=local
for d in c[0-9][0-9]; do
  id=$(echo "$d" | tr a-z A-Z)
  mkdir -p "../.build/$id"
  go test -c -vet=off -o "../.build/$id/test.bin" "./$d" &
done
go build -o ../.build/mergehash ./cmd/mergehash &
wait
if [ -d c17 ]; then go test -c -vet=off -race -o ../.build/C17/test.race.bin ./c17; fi
echo setup done
